"""Host-side helpers for the column cluster: class specs, value encoding,
oracle tables (float / UUID), error canonicalisation.  Imported inside the
implementation worker (maflib comes from /repo)."""
import uuid as _uuid
from enum import Enum
from sexp import S, U, OPT

EXC = {"KeyError": 1, "ValueError": 2, "TypeError": 3, "IndexError": 4, "AssertionError": 5,
       "StopIteration": 6, "NotImplementedError": 7, "OSError": 8, "Exception": 9, "MafFormatException": 10,
       "AttributeError": 3}   # the model reports attribute errors on ill-typed values as TypeError


def exc_code(e):
    return EXC.get(type(e).__name__, type(e).__name__)


# ---- class specs: ["src", name] | ["mix", extra, base]
def cls_of_spec(spec):
    from maflib import column_types, column
    from maflib.util import extend_class
    if spec[0] == "src":
        c = getattr(column_types, spec[1], None) or getattr(column, spec[1])
        return c
    return extend_class(cls_of_spec(spec[2]), cls_of_spec(spec[1]))


def spec_of_cls(cls):
    from maflib import column_types, column
    n = cls.__name__
    src = getattr(column_types, n, None) or getattr(column, n, None)
    if src is cls:
        return ["src", n]
    if len(cls.__bases__) == 2:
        return ["mix", spec_of_cls(cls.__bases__[0]), spec_of_cls(cls.__bases__[1])]
    raise ValueError("cannot describe class %r" % cls)


def spec_to_model(spec):
    if spec[0] == "src":
        return [0, S(spec[1])]
    return [1, spec_to_model(spec[1]), spec_to_model(spec[2])]


# ---- values
def enc_value(v):
    """python value -> JSON-able canonical form shared with the model's wire form"""
    if v is None:
        return [0]
    if isinstance(v, bool):
        return [1, 1 if v else 0]
    if isinstance(v, int):
        return [2, v]
    if isinstance(v, float):
        return [3, repr(v)]
    if isinstance(v, str):
        return [4, v]
    if isinstance(v, Enum):
        return [5, type(v).__name__, list(type(v)).index(v)]
    if isinstance(v, _uuid.UUID):
        return [6, str(v)]
    if isinstance(v, list):
        return [7, [enc_value(x) for x in v]]
    if isinstance(v, tuple):
        return [8, [enc_value(x) for x in v]]
    return [9]


def dec_value(j):
    """canonical form -> python value (for API-built columns)"""
    from maflib import column_values
    t = j[0]
    if t == 0:
        return None
    if t == 1:
        return bool(j[1])
    if t == 2:
        return j[1]
    if t == 3:
        return float(j[1])
    if t == 4:
        return j[1]
    if t == 5:
        return list(getattr(column_values, j[1]))[j[2]]
    if t == 6:
        return _uuid.UUID(j[1])
    if t == 7:
        return [dec_value(x) for x in j[1]]
    if t == 8:
        return tuple(dec_value(x) for x in j[1])
    return object()


def value_to_model(j):
    t = j[0]
    if t in (0, 9):
        return [t]
    if t in (1, 2):
        return [t, j[1]]
    if t in (3, 4, 6):
        return [t, S(j[1])]
    if t == 5:
        return [5, S(j[1]), j[2]]
    return [t, [value_to_model(x) for x in j[1]]]


def value_from_model(s):
    t = s[0]
    if t in (0, 9):
        return [t]
    if t in (1, 2):
        return [t, s[1]]
    if t in (3, 4, 6):
        return [t, U(s[1])]
    if t == 5:
        return [5, U(s[1]), s[2]]
    return [t, [value_from_model(x) for x in s[1]]]


# ---- oracle tables
def _float_repr(t):
    try:
        return repr(float(t))
    except (ValueError, OverflowError):
        return None


def _uuid_canon(t):
    try:
        return str(_uuid.UUID(t))
    except (ValueError, AttributeError, TypeError):
        return None


def texts_of(fields):
    out = []
    for f in fields:
        out.append(f)
        if ";" in f:
            out.extend(f.split(";"))
    return sorted(set(out))


def tables_to_model(fields):
    ts = texts_of(fields)
    ft = [[S(t), OPT(_float_repr(t), S)] for t in ts if _float_repr(t) is not None]
    ut = [[S(t), OPT(_uuid_canon(t), S)] for t in ts if _uuid_canon(t) is not None]
    return ft, ut


# ---- errors
def colname_of(msg, tpe, names):
    """extract the column an error is attributed to (messages are free text)"""
    best = None
    for n in names:
        pats = ["in column with name '%s'" % n]
        if tpe == "RECORD_COLUMN_WRONG_FORMAT" and (msg.endswith(pats[0]) or msg.startswith("Column with name '%s' is in the wrong format" % n)):
            best = n
        elif tpe == "RECORD_INVALID_COLUMN_VALUE" and (msg.startswith("The value of column with name '%s' contains" % n)
                                                      or ("' with name '%s' scheme '" % n) in msg.split(": ")[0] + "'"):
            best = n if best is None or len(n) > len(best) else best
        elif tpe == "SCHEME_MISMATCHING_COLUMN_NAMES" and msg.startswith("No column '%s' present" % n):
            best = n
        elif tpe == "RECORD_COLUMN_OUT_OF_ORDER" and msg.startswith("Column with name '%s' was found" % n):
            best = n
    return best


def enc_errors(errs, names):
    return [[e.tpe.name, e.line_number, colname_of(e.message, e.tpe.name, names)] for e in errs]


def errs_from_model(sx):
    return [[U(t), (ln[0] if ln else None), (U(c[0]) if c else None)] for t, ln, c in sx]
