#!/venv/bin/python
"""Regenerates /verif/MANIFEST.json from the property plugins in harness/props."""
import importlib, json, os, sys
sys.path.insert(0, "/verif/harness"); sys.path.insert(0, "/verif/harness/props")
ALL = ["C%02d" % i for i in range(1, 21)]
checks, na = [], []
for pid in ALL:
    if not os.path.exists("/verif/harness/props/%s.py" % pid):
        na.append({"property_id": pid, "reason": "not yet claimed: model, theorems and correspondence for this property are not built in this revision (see DESIGN.md section 6 for the plan)"})
        continue
    m = importlib.import_module(pid)
    if getattr(m, "NOT_CLAIMED", None):
        na.append({"property_id": pid, "reason": m.NOT_CLAIMED}); continue
    checks.append({
        "property_id": pid,
        "quick_cmd": "./check %s --tier quick" % pid,
        "thorough_cmd": "./check %s --tier thorough" % pid,
        "evidence_file": "/verif/evidence/%s.json" % pid,
        "replay_cmd_template": "./check %s --replay {path}" % pid,
        "engine": "coq+extraction",
        "level_claimed": {
            "category": "proof",
            "text": getattr(m, "LEVEL_TEXT", "Coq theorems over a Gallina model of the anchored code (all inputs/histories, no bound), re-checked by coqc on every run; the model is tied to /repo by running its OCaml extraction against the real library on generated cases, and an independent property oracle judges the real library's behaviour."),
            "design_ref": getattr(m, "DESIGN_REF", "DESIGN.md section 6, " + pid),
        },
        "level_note": getattr(m, "LEVEL_NOTE", "Trusted: Coq kernel, extraction (ExtrOcamlBasic), the hand-written model's correspondence to /repo (differentially tested each run), harness; CPython as modelled."),
        "technique": getattr(m, "TECHNIQUE", "machine-checked proof in Coq over a hand-written model + extraction-based correspondence check against /repo"),
    })
man = {
    "version": 1,
    "setup_cmd": "cd /verif && ./setup.sh",
    "hooks": {"guard": "MAFLIB_VERIF", "enable": "no hooks are needed: fault injection and pull counting are done by wrapping tempfile/gzip/os functions and caller-supplied iterators from the harness",
              "baseline_off_cmd": "cd /repo && /venv/bin/python -m pytest -ra -q -p no:cacheprovider --timeout=900 --continue-on-collection-errors",
              "source_commits": [], "add_only": True},
    "engines": [{"name": "coq+extraction", "path": "/verif/coq", "serves_properties": [c["property_id"] for c in checks],
                 "kind_free_text": "Coq 8.16.1 development (model + theorems), model extracted to OCaml and run against /repo by /verif/check"}],
    "checks": checks,
    "not_applicable": na,
    "notes": "See DESIGN.md. known_findings.json lists recorded and fixed defects.",
}
json.dump(man, open("/verif/MANIFEST.json", "w"), indent=1)
print("claimed:", [c["property_id"] for c in checks])
