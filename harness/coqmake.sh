#!/bin/bash
# usage: coqmake.sh <make targets relative to /verif/coq>   e.g. coqmake.sh props/C07.vo extract/ExtractSorter.vo
# Serialises builds of the shared Coq tree (several checks/agents may build at once).
mkdir -p /verif/build
exec flock /verif/build/.lock bash -c '/verif/harness/mkproject.sh && cd /verif/coq && timeout 2400 make -j8 "$@" 2>&1 | grep -v "^COQDEP\|^COQC"; exit ${PIPESTATUS[0]}' _ "$@"
