"""C04 helpers on top of colgen: generators of ACCEPTED spellings (aliases by enum
member name, case variants, non-canonical numerals, UUID spellings, list
encodings), the MafSorterCodec path, and the property oracle (independent of
the Coq model: it only looks at what the real library did).

case kinds (both are colgen kinds, so the extracted Columns runner is reused):
  {"kind":"field", "cls":spec, "text":t, "stream":s}
  {"kind":"line",  "annot":a, "fields":[..], "trail":"", "mode":1, "lineno":None, "stream":s, "hit":[], "codec":bool}
"""
import colgen as G
import colhost as H
import colspec as SP

def _underscored(s):
    return "_".join(s) if len(s) > 1 else s


def int_spelling(rng, z):
    """non-canonical numerals python's int() accepts: sign, leading zeros, underscores, surrounding blanks"""
    a = str(abs(z))
    sign = "-" if z < 0 else rng.choice(["", "", "+"])
    body = rng.choice([a, a, "0" + a, "00" + a, _underscored(a)])
    return rng.choice(["", "", " ", "\x0b"]) + sign + body + rng.choice(["", "", " "])


def spelling(rng, d, top=True):
    """a text expected to be accepted by a column of descriptor d, biased to non-canonical spellings"""
    k = d["k"]
    if top:
        nk = SP.null_keys(d)
        if nk and rng.random() < 0.2:
            return rng.choice(nk)
    if k == "int":
        lo = d.get("lo")
        z = rng.choice([0, 1, 2, 7, 9, 10, 12, 99, 100, 1234567, 2 ** 31, 2 ** 64 + 3])
        if lo is None and rng.random() < 0.3:
            z = -z
        if lo is not None and z < lo:
            z = lo
        return int_spelling(rng, z)
    if k == "entrez":
        return rng.choice(["0", "00", "-0", "+0", " 0", "0 ", "0_0", "000", int_spelling(rng, rng.choice([1, 7, 672, 7157]))])
    if k == "strand":
        return rng.choice(["1", "-1", "+1", " 1", "01", "-01", "1 ", " -1", "0_1"])
    if k == "textorint":
        return rng.choice(["1", "22", "X", "MT", "chr1", "GRCh38", "037", "+37", " 37", "3_7", "-3", "chrUn_KI270742v1", " x", "1.5", "1e3", "-0"])
    if k == "float":
        return rng.choice(["0", "1", "+1", " 1", "1_0", "0.5", ".5", "5.", "1.25", "-3.75", "1e-5", "2.5E3", "1E400", "-1e400", "inf", "-inf",
                           "Infinity", "nan", "NaN", "-nan", "0.1", "1e22", "1e16", "123456789012345678", "0.30000000000000004", "1e-320",
                           "-0", "-0.0", "00.50", "1_000.5", " 2.5 "])
    if k == "enum":
        ms = SP.spec()["enums"][d["enum"]]
        n, v = rng.choice(ms)
        t = v if rng.random() < 0.5 else n
        if d.get("cap"):
            t = rng.choice([t, t.lower(), t.upper(), t.capitalize(), t.swapcase()])
        return t
    if k == "uuid":
        h = "".join(rng.choice("0123456789abcdef") for _ in range(32))
        c = "%s-%s-%s-%s-%s" % (h[:8], h[8:12], h[12:16], h[16:20], h[20:])
        return rng.choice([c, c.upper(), "{" + c + "}", "urn:uuid:" + c, h, h.upper(), "{" + h + "}", "urn:uuid:" + h.upper(),
                           c.replace("-", "", 2), "{urn:uuid:" + c + "}"])
    if k == "canonical":
        return rng.choice(["", "YES", "yes", "Yes", "yEs", "yeS"])
    if k == "bool":
        return rng.choice(["True", "False", "true", "FALSE", "tRuE", "TRUE", "false"])
    if k == "seq":
        n = rng.choice([1, 1, 2, 2, 3, 5])
        pieces = [spelling(rng, d["elem"], top=False) for _ in range(n)]
        el = d["elem"]
        if el["k"] == "enum" and el.get("nulls") and rng.random() < 0.5:
            # empty pieces and the member name of the null member are accepted spellings of its elements
            for i in range(len(pieces)):
                if rng.random() < 0.5:
                    pieces[i] = rng.choice(["", "Null", "null", "NULL"])
        return ";".join(pieces)
    if k == "mustnull":
        return rng.choice(SP.null_keys(d["base"]) or [""])
    return G.valid_text(rng, d, top=False)      # text, dna


EXTRA_CLASSES = ["StringIntegerOrFloatColumn", "MafColumnRecord", "MafCustomColumnRecord", "EnumColumn", "SequenceOfValuesColumn",
                 "RequireNullValue", "_BuildStringColumn"]
ALL_CLASSES = G.SRC_CLASSES + EXTRA_CLASSES
OTHER_TEXTS = ["1", "+1", "1_0", "1.5", "x", " 7", "1e5", "nan", "", "abc", "0x10", "é", "007", "-0", "inf", "1e400", "None", "a;b"]


def field_case(rng, spec, stream=None):
    d = G.descr_of_spec(spec)
    if stream is None and d is not None and rng.random() < 0.03:
        # a value that is not text handed to the build() of a typed class (the API allows it): whatever that class
        # accepts and validates must render to text that denotes it again (untyped MafColumnRecord holds any object
        # and prints its str(): outside the statement)
        return {"kind": "field", "cls": spec, "text": "", "raw": G.kind_odd_value(rng, d), "stream": "raw-value"}
    if d is None:
        return {"kind": "field", "cls": spec, "text": rng.choice(OTHER_TEXTS), "stream": stream or "spelling"}
    s = rng.random()
    if stream == "class-sweep" or s < 0.7:
        return {"kind": "field", "cls": spec, "text": spelling(rng, d), "stream": stream or "spelling"}
    if s < 0.85:
        return {"kind": "field", "cls": spec, "text": G.kind_boundary(rng, d) if rng.random() < 0.5 else rng.choice(G.BOUNDARY),
                "stream": "boundary"}
    if s < 0.93:
        return {"kind": "field", "cls": spec, "text": G.defect(rng, spelling(rng, d)), "stream": "defect"}
    return {"kind": "field", "cls": spec, "text": G.some_text(rng, d, "adversarial"), "stream": "adversarial"}


def gen_field(rng):
    r = rng.random()
    if r < 0.8:
        spec = ["src", rng.choice(ALL_CLASSES)]
    elif r < 0.92:
        spec = ["mix", ["src", "RequireNullValue"], ["src", rng.choice(G.MASKABLE)]]
    else:
        # the theorem covers RequireNullValue mixed over EVERY column class, not only those a shipped scheme masks
        spec = ["mix", ["src", "RequireNullValue"], ["src", rng.choice([c for c in ALL_CLASSES if c != "RequireNullValue"])]]
    return field_case(rng, spec)


def class_sweep(rng):
    """every class (and every RequireNullValue mix) meets, in every run: each of its null spellings, for enumerations
    every member by value and by name (with case variants under the capitalising columns), and a handful of
    spellings of its family - a sweep over (class, spelling family), not a sample"""
    out = []

    def add(spec, t):
        out.append({"kind": "field", "cls": spec, "text": t, "stream": "class-sweep"})

    for name in ALL_CLASSES:
        for spec in (["src", name], ["mix", ["src", "RequireNullValue"], ["src", name]]):
            if spec[0] == "mix" and name == "RequireNullValue":
                continue
            d = G.descr_of_spec(spec)
            if d is None:
                for t in rng.sample(OTHER_TEXTS, 4 if spec[0] == "src" else 2):
                    add(spec, t)
                continue
            base = d["base"] if d["k"] == "mustnull" else d
            for t in SP.null_keys(d):
                add(spec, t)
            if spec[0] == "mix":
                add(spec, spelling(rng, base))
                continue
            el = base["elem"] if base["k"] == "seq" else base
            if el["k"] == "enum":
                for n, v in SP.spec()["enums"][el["enum"]]:
                    for t in ([v, n] + ([rng.choice([v.lower(), v.upper(), n.lower(), n.upper(), n.swapcase()])] if el.get("cap") else [])):
                        add(spec, t if base["k"] != "seq" else rng.choice([t, t + ";" + v, v + ";" + t]))
            for _ in range(6):
                add(spec, spelling(rng, d))
    return out


def gen_line(rng):
    annot = rng.choice(G.ANNOTS)
    cols = SP.layout(annot)["columns"]
    stream = rng.choice(["canonical", "spelling", "spelling", "spelling", "one-odd"])
    if stream == "canonical":
        fields = [G.valid_text(rng, d) for _, d in cols]
    else:
        fields = [spelling(rng, d) if rng.random() < 0.6 else G.valid_text(rng, d) for _, d in cols]
    hit = []
    if stream == "one-odd":
        i = rng.randrange(len(cols))
        fcols = G.focus_columns(cols)
        if fcols and rng.random() < 0.7:
            i = rng.choice(fcols)
        fields[i] = G.some_text(rng, cols[i][1], rng.choice(["boundary", "defect"]))
        hit = [i]
    fields = [f.replace("\t", " ").replace("\n", " ").replace("\r", " ") for f in fields]
    return {"kind": "line", "annot": annot, "fields": fields, "trail": rng.choice(["", "\n", "\r\n"]), "mode": 1,
            "lineno": rng.choice([None, 4]), "stream": stream, "hit": hit, "codec": rng.random() < 0.6}


def gen_cases(rng, n, line_share=0.1):
    out = []
    if n >= 1000:
        out = class_sweep(rng)
        for c in G.kind_sweep(rng, modes=False):        # colgen's (kind, boundary text) sweep, Strict, through the codec too
            out.append(dict(c, codec=True))
    for _ in range(max(0, n - len(out))):
        out.append(gen_line(rng) if rng.random() < line_share else gen_field(rng))
    return out


def corpus_cases():
    out = []
    # the repaired defect (fix: EntrezGeneId treats every spelling of zero as the null value)
    for t in ["00", "-0", "+0", " 0", "0_0", "0", "07"]:
        out.append({"kind": "field", "cls": ["src", "EntrezGeneId"], "text": t, "stream": "corpus"})
    # the recorded finding: a one-element list whose element prints as ''
    for t in ["Null", "null", ";", "Null;1", "1;"]:
        out.append({"kind": "field", "cls": ["src", "SequenceOfNullableYesOrNo"], "text": t, "stream": "corpus"})
    for cls, t in [("Canonical", "yEs"), ("NullableYesOrNo", "null"), ("NullableYesOrNo", "Null"), ("NullableYOrN", "no"),
                   ("PickColumn", "NULL"), ("VariantClassification", "FrameShiftDeletion"), ("MutationStatus", "NoStatus"),
                   ("MC3Overlap", "_True"), ("OneBasedIntegerColumn", "007"), ("OneBasedIntegerColumn", "+7"),
                   ("OneBasedIntegerColumn", " 8"), ("OneBasedIntegerColumn", "1_0"), ("TranscriptStrand", "+1"),
                   ("StringOrIntegerColumn", "007"), ("SequenceOfStrings", "a;b"), ("SequenceOfIntegers", "01;+2"),
                   ("SequenceOfSequencers", "IlluminaHiSeq;454"), ("FloatColumn", "1e400"), ("NullableFloatColumn", "nan"),
                   ("UUIDColumn", "{12345678-1234-5678-1234-567812345678}"), ("BooleanColumn", "tRuE")]:
        out.append({"kind": "field", "cls": ["src", cls], "text": t, "stream": "corpus"})
    import random
    rng = random.Random(4)
    for annot, entrez in [("gdc-1.0.0", "00"), ("gdc-1.0.0-aliquot", " 0"), ("gdc-1.0.0-public", "-0")]:
        cols = SP.layout(annot)["columns"]
        fields = [G.valid_text(rng, d) for _, d in cols]
        names = [n for n, _ in cols]
        fields[names.index("Entrez_Gene_Id")] = entrez
        out.append({"kind": "line", "annot": annot, "fields": fields, "trail": "\n", "mode": 1, "lineno": None,
                    "stream": "corpus", "hit": [], "codec": True})
    return out


# ------------------------------------------------------------------ implementation
def _float_law_failures(texts):
    """the oracle hypotheses of the Coq theorems, checked on every text the case shows to float()/UUID()"""
    import uuid
    bad = []
    for t in texts:
        try:
            r = repr(float(t))
        except (ValueError, OverflowError):
            r = None
        if r is not None:
            if r == "" or repr(float(r)) != r or any(c in r for c in "\t\r\n;"):
                bad.append("float-repr-law %r -> %r" % (t, r))
        else:
            try:
                int(t)
                if t.isascii():
                    bad.append("int-literal-not-a-float-literal %r" % t)
            except ValueError:
                pass
        try:
            u = str(uuid.UUID(t))
        except (ValueError, AttributeError, TypeError):
            u = None
        if u is not None and (u == "" or str(uuid.UUID(u)) != u or any(c in u for c in "\t\r\n;")):
            bad.append("uuid-str-law %r -> %r" % (t, u))
    try:
        float("")
        bad.append("float('') accepted")
    except ValueError:
        pass
    return bad


def run_codec(case):
    """MafSorterCodec.encode/decode on the record parsed from the case's line (maflib/sorter.py)"""
    from maflib.validation import MafFormatException, ValidationStringency
    from maflib.record import MafRecord
    from maflib.sorter import MafSorterCodec
    scheme = G._scheme_for(case["annot"])
    names = scheme.column_names()
    line = "\t".join(case["fields"]) + case["trail"]
    try:
        rec = MafRecord.from_line(line, scheme=scheme, validation_stringency=ValidationStringency.Strict)
    except MafFormatException:
        return {"accepted": False}
    except Exception as e:
        return {"accepted": False, "exc": H.exc_code(e)}
    out = {"accepted": True, "values": [H.enc_value(rec.value(n)) for n in names]}
    for label, codec in (("scheme", MafSorterCodec(scheme=scheme)), ("names", MafSorterCodec(column_names=list(names))),
                         ("bare", MafSorterCodec())):
        try:
            b = bytes(codec.encode(rec))
            padded = b"\x00\x01" + b + b"tail"
            rec2 = codec.decode(padded, 2, len(b))
            again = bytes(codec.encode(rec2))
            out[label] = {"text": b.decode("utf-8"), "again": again.decode("utf-8"), "len": len(rec2),
                          "values": [H.enc_value(rec2.value(n)) for n in names],
                          "errors": H.enc_errors(rec2.validation_errors, names)}
        except MafFormatException as e:
            out[label] = {"raise": "MafFormatException:" + e.tpe.name}
        except Exception as e:
            out[label] = {"raise": type(e).__name__}
    return out


def run_impl(case):
    obs = G.run_impl(case)
    ex = obs.setdefault("extra", {})
    if case["kind"] == "field":
        t = case["text"]
        ex["laws"] = _float_law_failures([t, t.capitalize()] + t.split(";"))
        # the other way to a null value: build_nullable (first null key) must give a null that prints as the preferred spelling
        try:
            cls = H.cls_of_spec(case["cls"])
            if hasattr(cls, "build_nullable") and cls.is_nullable():
                n = cls.build_nullable("k")
                ex["build_nullable"] = {"value": H.enc_value(n.value), "is_null": bool(n.is_null()), "str": G._str_of(n),
                                        "errors": H.enc_errors(n.validate(), ["k"])}
        except Exception as e:
            ex["build_nullable"] = {"raise": type(e).__name__}
    else:
        ex["laws"] = _float_law_failures(case["fields"])
        if case.get("codec"):
            ex["codec"] = run_codec(case)
    return obs


# ------------------------------------------------------------------ oracle
def _cls_name(spec):
    return spec[1] if spec[0] == "src" else "Mix(%s,%s)" % (_cls_name(spec[1]), _cls_name(spec[2]))


def _single_empty(v, v2):
    """value is a one-element list and the rendering came back as the empty list"""
    return v[0] == 7 and len(v[1]) == 1 and v2 == [7, []]


def _check_null(d, value, text, where, out):
    if d is None:
        return
    pn = SP.preferred_null(d)
    if value in SP.null_values(d):
        if pn is None or text != pn:
            out.append("null-not-preferred-spelling/%s | %s renders null %s as %r, preferred %r" % (d["k"], where, value, text, pn))


def oracle_field(case, obs):
    out = []
    o, ex = obs["cmp"], obs.get("extra", {})
    for law in ex.get("laws", []):
        out.append("host-oracle-law-broken | %s" % law)
    name = _cls_name(case["cls"])
    if ex.get("history_dependent"):
        out.append("parse-depends-on-history/%s | %r parsed again after the caller appended to an exposed list: %s" % (name, case["text"], ex["history_dependent"]))
    bn = ex.get("build_nullable")
    d0 = G.descr_of_spec(case["cls"])
    if bn is not None and d0 is not None:
        if "raise" in bn:
            out.append("build_nullable-raises/%s | %s" % (name, bn["raise"]))
        elif not bn["is_null"] or bn["errors"] or bn["str"] != ["ok", SP.preferred_null(d0)]:
            out.append("null-not-preferred-spelling/%s | build_nullable of %s gives %s" % (d0["k"], name, bn))
    if o["build"][0] != "ok" or o.get("errors"):
        return out                              # not accepted: C04 says nothing
    where = "%s %r" % (name, case["text"])
    v = o["build"][1]
    if o["str"][0] != "ok":
        out.append("accepted-value-cannot-be-rendered/%s | %s -> %s" % (name, where, o["str"]))
        return out
    s = o["str"][1]
    if any(c in s for c in "\t\r\n"):
        out.append("rendering-contains-separator/%s | %s -> %r" % (name, where, s))
    d = G.descr_of_spec(case["cls"])
    _check_null(d, v, s, where, out)
    if d is not None and (v in SP.null_values(d)) != bool(o["is_null"]):
        out.append("is_null-disagrees-with-documented-null-values/%s | %s -> %s is_null=%s" % (name, where, v, o["is_null"]))
    rp = ex.get("reparse")
    if rp is None:
        out.append("no-reparse-observation | %s" % where)
        return out
    if "raise" in rp:
        out.append("rendering-rejected/%s | %s -> %s -> %r -> raises %s" % (name, where, v, s, rp["raise"]))
        return out
    if rp["errors"]:
        out.append("rendering-rejected/%s | %s -> %s -> %r -> %s" % (name, where, v, s, rp["errors"][:2]))
        return out
    if rp["value"] != v:
        if _single_empty(v, rp["value"]):
            out.append("seq-single-empty-element/%s | %s -> %s -> %r -> %s" % (name, where, v, s, rp["value"]))
        else:
            out.append("reparse-differs/%s | %s -> %s -> %r -> %s" % (name, where, v, s, rp["value"]))
    if rp["str"] != ["ok", s]:
        out.append("not-a-fixpoint/%s | %s -> %r -> %s" % (name, where, s, rp["str"]))
    return out


def _line_diffs(cols, values, values2, text, label, out):
    names = [n for n, _ in cols]
    for i, (a, b) in enumerate(zip(values, values2)):
        if a != b:
            cname = _cls_name(G._spec_of_descr(cols[i][1]))
            if _single_empty(a, b):
                out.append("seq-single-empty-element/%s | %s column %s: %s -> %s" % (cname, label, names[i], a, b))
            else:
                out.append("reparse-differs/%s | %s column %s: %s -> %s (line %r)" % (cname, label, names[i], a, b, text[:120]))


def oracle_line(case, obs):
    out = []
    o, ex = obs["cmp"], obs.get("extra", {})
    for law in ex.get("laws", []):
        out.append("host-oracle-law-broken | %s" % law)
    cols = SP.layout(case["annot"])["columns"]
    if ex.get("history_dependent"):
        out.append("parse-depends-on-history/line | parsed again after the caller appended to an exposed list: %s" % (ex["history_dependent"],))
    accepted = "raise" not in o and not o.get("errors") and o.get("len") == len(cols)
    cx = ex.get("codec")
    if cx is not None and case["mode"] == 1 and bool(cx.get("accepted")) != accepted:
        out.append("codec-helper-disagrees-on-acceptance | %s vs %s" % (cx.get("accepted"), accepted))
    if not accepted:
        return out
    if o["str"][0] != "ok":
        out.append("accepted-record-cannot-be-rendered | %s" % o["str"])
        return out
    s = o["str"][1]
    values = ex["values"]
    if "\r" in s or "\n" in s:
        out.append("rendered-line-contains-line-break | %r" % s[:120])
    fs = s.split("\t")
    if len(fs) != len(cols):
        out.append("rendered-line-has-wrong-field-count | %d for %d columns" % (len(fs), len(cols)))
    else:
        for i, (n, d) in enumerate(cols):
            _check_null(d, values[i], fs[i], "column %s" % n, out)
    rp = ex.get("reparse")
    if rp is None:
        out.append("no-reparse-observation | line")
    elif "raise" in rp:
        out.append("rendering-rejected/line | %r raises %s" % (s[:120], rp["raise"]))
    else:
        if rp["errors"]:
            out.append("rendering-rejected/line | %s" % rp["errors"][:2])
        _line_diffs(cols, values, rp["values"], s, "from_line", out)
        if rp["str"] != ["ok", s]:
            out.append("not-a-fixpoint/line | %r -> %s" % (s[:120], str(rp["str"])[:140]))
    if cx is not None and cx.get("accepted"):
        for label in ("scheme", "names", "bare"):
            c = cx.get(label, {})
            if "raise" in c:
                out.append("codec-decode-rejects-encoded-record/%s | %s" % (label, c["raise"]))
                continue
            if c["text"] != s:
                out.append("codec-encode-differs-from-str/%s | %r" % (label, c["text"][:100]))
            if c["again"] != c["text"]:
                out.append("codec-not-a-fixpoint/%s | %r -> %r" % (label, c["text"][:100], c["again"][:100]))
            if c["errors"] or c["len"] != len(cols):
                out.append("codec-decoded-record-has-errors/%s | %s len=%s" % (label, c["errors"][:2], c["len"]))
            if label == "scheme":
                _line_diffs(cols, cx["values"], c["values"], s, "codec", out)
            elif len(fs) == len(cols) and c["values"] != [[4, f] for f in fs]:
                out.append("codec-untyped-decode-differs/%s | %s" % (label, str(c["values"])[:140]))
    return out


def oracle(case, obs):
    return oracle_field(case, obs) if case["kind"] == "field" else oracle_line(case, obs)


def classify(case, obs):
    o = (obs or {}).get("cmp", {})
    if case["kind"] == "field":
        d = G.descr_of_spec(case["cls"])
        acc = "accepted" if (o.get("build", [""])[0] == "ok" and not o.get("errors")) else "rejected"
        return "field/%s/%s/%s" % (case["stream"], (d or {}).get("k", "other"), acc)
    acc = "accepted" if ("raise" not in o and not o.get("errors")) else "rejected"
    return "line/%s/%s%s" % (case["stream"], acc, "/codec" if case.get("codec") else "")


def nontrivial(case, obs):
    """accepted, inside the modelled zone, and the spelling is not already the canonical rendering"""
    if G.model_dontcare(case):
        return False
    o = obs["cmp"]
    if case["kind"] == "field":
        return o["build"][0] == "ok" and not o.get("errors") and o["str"][0] == "ok"
    return "raise" not in o and not o.get("errors")
