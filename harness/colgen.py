"""Shared case machinery of the column cluster (C01, C04, C05): generators,
implementation runner, model wire format, and the property oracles.

case kinds
  {"kind":"field", "cls":spec, "text":t, "stream":s}
  {"kind":"line",  "annot":a, "fields":[..], "trail":"\\n", "mode":1|2|3, "lineno":n|None, "stream":s, "hit":[i..]}
"""
import colhost as H
import colspec as SP
from sexp import S, U, OPT

MODES = {1: "Strict", 2: "Lenient", 3: "Silent"}
ANNOTS = sorted(SP.spec()["layouts"].keys())
SRC_CLASSES = sorted(SP.spec()["classes"].keys())
MASKABLE = ["NullableDnaString", "NullableIntegerColumn", "NullableStringColumn", "NullableFloatColumn",
            "SequenceOfStrings", "NullableYesOrNo", "VerificationStatus", "EntrezGeneId", "NullableUUIDColumn"]


# ---- aiming the generators at source that differs from the pinned tree (fw.source_changes)
FOCUS = set()      # source class names (of column_types.py) to favour


def set_focus(changed):
    """changed: ["column_types.py:Class.method", ...]; favour those classes and every class deriving from them"""
    import ast
    import os
    names = {k.split(":", 1)[1].split(".")[0] for k in changed if k.startswith(("column_types.py:", "column.py:"))}
    FOCUS.clear()
    if not names:
        return
    repo = os.environ.get("VERIF_REPO", "/repo")
    bases = {}
    for fn in ("column.py", "column_types.py"):
        try:
            tree = ast.parse(open(os.path.join(repo, "maflib", fn)).read())
        except (OSError, SyntaxError):
            continue
        for node in tree.body:
            if isinstance(node, ast.ClassDef):
                bases[node.name] = [b.id for b in node.bases if isinstance(b, ast.Name)]
    grew = True
    hit = set(names)
    while grew:
        grew = False
        for c, bs in bases.items():
            if c not in hit and any(b in hit for b in bs):
                hit.add(c)
                grew = True
    FOCUS.update(hit)


def _focus_classes():
    return [c for c in SRC_CLASSES if c in FOCUS]


def _spec_in_focus(spec):
    if spec[0] == "src":
        return spec[1] in FOCUS
    return _spec_in_focus(spec[1]) or _spec_in_focus(spec[2])


def focus_columns(cols):
    """positions of a pinned layout whose class is in focus"""
    if not FOCUS:
        return []
    out = []
    for j, (_, d) in enumerate(cols):
        try:
            if _spec_in_focus(_spec_of_descr(d)):
                out.append(j)
        except KeyError:
            pass
    return out


def descr_of_spec(spec):
    if spec[0] == "src":
        return SP.spec()["classes"].get(spec[1])
    if spec[1] == ["src", "RequireNullValue"]:
        b = descr_of_spec(spec[2])
        return None if b is None else {"k": "mustnull", "base": b}
    return None


# ------------------------------------------------------------------ texts
BOUNDARY = ["", "0", "1", "-1", "2", "-", "00", "-0", "+7", " 8", "8 ", "1_0", "1__0", "_1", "1e5", "1.5", ".5", "5.", "inf", "nan",
            "-inf", "Null", "null", "NULL", "None", "YES", "yes", "Yes", "yEs", "No", "no", "Y", "N", "y", "n", "True", "true", "FALSE",
            "Unknown", ";", "a;b", "a;;b", ";a", "a;", "1;2", "1;;2", "0;1", "Yes;No;", "+", "A", "ACGT", "acgt", "ACGU", "N", "-A",
            "Somatic", "SNP", "Frame_Shift_Del", "FrameShiftDeletion", "Illumina HiSeq;454", "IlluminaHiSeq", "MODIFIER", "Modifier",
            "3'UTR", "Transcript", "Verified", "Valid", "Untested", "Match", "Post - transcriptional", "LOH",
            "12345678-1234-5678-1234-567812345678", "{12345678-1234-5678-1234-567812345678}",
            "urn:uuid:12345678-1234-5678-1234-567812345678", "12345678123456781234567812345678",
            "12345678-1234-5678-1234-56781234567", "12345678-1234-5678-1234-56781234567g", "ABCDEFAB-CDEF-ABCD-EFAB-CDEFABCDEFAB",
            "4294967296", "-9999999999999999999999", "99999999999999999999999999", "0x10", "1.0", "1e400", "#x", " ", "  ",
            "12%", "%s", "5%d", "100%(SNP)s", "%", "%%", "{0}", "{x}", "\\", "'", "\"", "a'b", "None;None"]
ADVERSARIAL = ["a\rb", "x\ry;z", "BI\rBroad;WUGSC", "a\nb", "1\r2", "A\rC", "é", "٣", "１", "yeſ", "K", "a\x0bb", "\x1c5", "5\x1f", " " + "5", "1 ", "\x00", "a\x00b",
               "ßes", "\U0001F600", "À", "true", "ı", "İ"]


KIND_BOUNDARY = {
    "dna": ["A-C", "--", "-T", "AC-", "-", "A", "N", "ACGTN", "acgt", "a", "A C", "", "ACGU", "A;C", "AC\u0410"],
    "int": ["0", "1", "-1", "00", "01", "-0", "+1", "1.0", "1e3", " 1", "1 ", "1_0", "", "0x1", "٣", "9" * 30, "-" + "9" * 30],
    "entrez": ["0", "00", "-0", "+0", " 0", "0 ", "0_0", "1", "-1", "", "0.0"],
    "strand": ["1", "-1", "+1", "0", "2", "-2", "", "01", "1.0", " 1"],
    "float": ["0", "1.", ".5", "1e5", "1E-3", "inf", "-inf", "nan", "NaN", "1_0.5", "", ".", "e5", "1e", "0x1p3", "1,5", "٣.٥"],
    "uuid": ["12345678-1234-5678-1234-567812345678", "12345678-1234-5678-1234-56781234567", "123456781234567812345678123456789",
             "{12345678-1234-5678-1234-567812345678", "12345678-1234-5678-1234-567812345678}", "urn:uuid:12345678123456781234567812345678",
             "1234567-81234-5678-1234-567812345678", "g2345678-1234-5678-1234-567812345678", "", "-" * 36],
    "canonical": ["", "YES", "yes", "Yes", "Y", "NO", "no", "True", "1", " yes", "yes "],
    "bool": ["True", "False", "true", "FALSE", "T", "F", "1", "0", "", "yes", " True"],
    "text": ["", " ", "a", "0", "None", "#", "a;b", "\u00e9", "  x  "],
    "textorint": ["1", "01", "X", "MT", "", "0", "-0", "1.0", "chr1", "+1", " 1", '"7"', '"37"', "'7'", '"X"', '"', '""', "7\"", "(7)", "[7]"],
    "enum": ["", "Null", "null", "NULL", "nULL", "None", "none", "Yes", "YES", "yes", "No", "1", "0", "2", "Y", "N", "y", "n", "+", "-", "Unknown", "unknown"],
    "seq": ["", ";", ";;", "a", "a;", ";a", "a;;b", "a;b;c", "1;2", "1;;2", "1;a", "Null", "null;Yes", "Yes;No;", "0;1;", "Other;454", "454;bogus"],
}


def kind_boundary(rng, d):
    if d is None:
        return rng.choice(BOUNDARY)
    k = d["k"]
    if k == "mustnull":
        return kind_boundary(rng, d["base"])
    lst = KIND_BOUNDARY.get(k)
    if k == "enum":
        ms = SP.spec()["enums"][d["enum"]]
        n, v = rng.choice(ms)
        lst = list(lst) + [n, v, v.lower(), v.upper(), n.lower(), v + " ", " " + v, v[:-1], v + "x"]
    if not lst:
        return rng.choice(BOUNDARY)
    return rng.choice(lst)


def valid_text(rng, d, top=True):
    k = d["k"]
    if top:
        nk = SP.null_keys(d)
        if nk and rng.random() < 0.25:
            return rng.choice(nk)
    if k == "text":
        n = rng.randint(1, 8)
        alphabet = "abcXYZ012 _-.:/#'\"()" + ("" if rng.random() < 0.8 else "é中")
        return "".join(rng.choice(alphabet) for _ in range(n))
    if k == "int":
        lo = d.get("lo")
        base = rng.choice([0, 1, 2, 9, 10, 11, 99, 100, 12345, 2 ** 31, 2 ** 64 + 3])
        z = base if rng.random() < 0.7 or lo is not None else -base
        if lo is not None and z < lo:
            z = lo
        return str(z)
    if k == "entrez":
        return str(rng.choice([0, 1, 7157, 672, 100]))
    if k == "textorint":
        return rng.choice(["1", "22", "X", "Y", "MT", "chr1", "GRCh38", "37", "chrUn_KI270742v1", "0", "-3"])
    if k == "float":
        return rng.choice(["0", "1", "0.5", "1.25", "-3.75", "1e-5", "2.5E3", "100", "0.001", ".5", "5.", "12.0", "3.14159"])
    if k == "enum":
        ms = SP.spec()["enums"][d["enum"]]
        n, v = rng.choice(ms)
        t = v if rng.random() < 0.7 else n
        if d.get("cap") and rng.random() < 0.4:
            t = rng.choice([t.lower(), t.upper(), t.capitalize()])
        return t
    if k == "dna":
        return rng.choice(["-", "A", "C", "G", "T", "ACGT", "TTTTTTTTTT", "GATTACA"])
    if k == "uuid":
        h = "".join(rng.choice("0123456789abcdef") for _ in range(32))
        c = "%s-%s-%s-%s-%s" % (h[:8], h[8:12], h[12:16], h[16:20], h[20:])
        return rng.choice([c, c, c.upper(), "{" + c + "}", "urn:uuid:" + c, h])
    if k == "canonical":
        return rng.choice(["", "YES", "yes", "Yes", "yEs"])
    if k == "bool":
        return rng.choice(["True", "False", "true", "FALSE", "tRuE"])
    if k == "strand":
        return rng.choice(["1", "-1"])
    if k == "seq":
        n = rng.choice([0, 1, 1, 2, 3])
        return ";".join(valid_text(rng, d["elem"], top=False) for _ in range(n))
    if k == "mustnull":
        return rng.choice(SP.null_keys(d["base"]) or [""])
    raise ValueError(d)


def defect(rng, t):
    ops = ["flip", "append", "drop", "dup", "space", "semi", "case"]
    op = rng.choice(ops)
    if op == "append" or not t:
        return t + rng.choice("xX1-_ .;0")
    i = rng.randrange(len(t))
    if op == "flip":
        return t[:i] + rng.choice("xZ9-_") + t[i + 1:]
    if op == "drop":
        return t[:i] + t[i + 1:]
    if op == "dup":
        return t[:i] + t[i] + t[i:]
    if op == "space":
        return rng.choice([" " + t, t + " "])
    if op == "semi":
        return t[:i] + ";" + t[i:]
    return t.swapcase()


def some_text(rng, d, stream):
    if stream == "valid" and d is not None:
        return valid_text(rng, d)
    if stream == "boundary":
        return kind_boundary(rng, d) if rng.random() < 0.6 else rng.choice(BOUNDARY)
    if stream == "defect" and d is not None:
        return defect(rng, valid_text(rng, d))
    if stream == "adversarial":
        t = rng.choice(ADVERSARIAL)
        return t if rng.random() < 0.6 else (rng.choice(BOUNDARY) + t)
    return rng.choice(BOUNDARY)


# ------------------------------------------------------------------ cases
def gen_field(rng):
    r = rng.random()
    fc = _focus_classes()
    if fc and rng.random() < 0.5:
        spec = ["src", rng.choice(fc)]
        if "RequireNullValue" in FOCUS and spec[1] in MASKABLE and rng.random() < 0.5:
            spec = ["mix", ["src", "RequireNullValue"], spec]
    elif r < 0.8:
        spec = ["src", rng.choice(SRC_CLASSES)]
    else:
        spec = ["mix", ["src", "RequireNullValue"], ["src", rng.choice(MASKABLE)]]
    d = descr_of_spec(spec)
    stream = rng.choice(["valid", "valid", "boundary", "boundary", "defect", "adversarial"])
    return {"kind": "field", "cls": spec, "text": some_text(rng, d, stream), "stream": stream}


def gen_line(rng, modes=True):
    annot = rng.choice(ANNOTS)
    cols = SP.layout(annot)["columns"]
    fields = [valid_text(rng, d) for _, d in cols]
    stream = rng.choice(["valid", "defect1", "defect1", "boundary1", "adversarial1", "count", "multi"])
    hit = []
    if stream in ("defect1", "boundary1", "adversarial1"):
        i = rng.choice([0, len(cols) - 1, rng.randrange(len(cols)), rng.randrange(len(cols))])
        fcols = focus_columns(cols)
        if fcols and rng.random() < 0.7:
            i = rng.choice(fcols)
        kind = stream[:-1]
        fields[i] = some_text(rng, cols[i][1], kind)
        hit = [i]
    elif stream == "multi":
        for _ in range(rng.randint(2, 5)):
            i = rng.randrange(len(cols))
            fields[i] = some_text(rng, cols[i][1], rng.choice(["defect", "boundary"]))
            hit.append(i)
    elif stream == "count":
        if rng.random() < 0.5:
            del fields[rng.randrange(len(fields))]
        else:
            fields.insert(rng.randrange(len(fields) + 1), rng.choice(["", "x"]))
    # a field never contains the separators (a line is split on TAB; CR/LF end it)
    fields = [f.replace("\t", " ").replace("\n", " ").replace("\r", " ") for f in fields]
    return {"kind": "line", "annot": annot, "fields": fields, "trail": rng.choice(["", "\n", "\r\n", "\n", ""]),
            "mode": rng.choice([1, 2, 3]) if modes else 1, "lineno": rng.choice([None, 1, 7, 123456]),
            "stream": stream, "hit": sorted(set(hit))}


def kind_sweep(rng, modes=True):
    """line cases that put every kind-specific boundary text and null spelling into a column of that kind (one random
    layout/position per text): a sweep over (kind, text), not a sample, so that one-column kinds (entrez, strand,
    canonical, bool, uuid) meet each of their boundary texts in every run"""
    by = {}
    for annot in ANNOTS:
        for j, (_, d) in enumerate(SP.layout(annot)["columns"]):
            k = d["base"]["k"] if d["k"] == "mustnull" else d["k"]
            by.setdefault(k, []).append((annot, j))
    out = []
    for k in sorted(by):
        for t in KIND_BOUNDARY.get(k, []) + [""]:
            if any(c in t for c in "\t\n\r"):
                continue
            annot, j = rng.choice(by[k])
            cols = SP.layout(annot)["columns"]
            fields = [valid_text(rng, d).replace("\t", " ").replace("\n", " ").replace("\r", " ") for _, d in cols]
            fields[j] = t
            out.append({"kind": "line", "annot": annot, "fields": fields, "trail": rng.choice(["", "\n", "\r\n"]),
                        "mode": rng.choice([1, 1, 2, 3]) if modes else 1, "lineno": rng.choice([None, 1, 7]),
                        "stream": "kind-sweep", "hit": [j]})
    return out


def gen_cases(rng, n, modes=True, line_share=0.12):
    out = kind_sweep(rng, modes) if n >= 1000 else []
    n = max(0, n - len(out))
    for _ in range(n):
        out.append(gen_line(rng, modes) if rng.random() < line_share else gen_field(rng))
    return out


def corpus_cases():
    out = []
    for t in ["00", "-0", "+0", " 0", "0", "7", "0_0"]:
        out.append({"kind": "field", "cls": ["src", "EntrezGeneId"], "text": t, "stream": "corpus"})
    for c in ["OneBasedIntegerColumn", "NullableOneBasedIntegerColumn", "ZeroBasedIntegerColumn"]:
        for t in ["0", "1", "-1", ""]:
            out.append({"kind": "field", "cls": ["src", c], "text": t, "stream": "corpus"})
    for t in ["", "-", "A", "0"]:
        out.append({"kind": "field", "cls": ["mix", ["src", "RequireNullValue"], ["src", "NullableDnaString"]], "text": t, "stream": "corpus"})
    return out


def shrink(case):
    if case["kind"] == "writeseq":
        for i in range(len(case["records"])):
            yield dict(case, records=case["records"][:i] + case["records"][i + 1:])
        return
    if case["kind"] == "write":
        # restore perturbed slots one at a time
        rng = _random.Random(1)
        cols = SP.layout(case["annot"])["columns"]
        for i in case.get("hit", []):
            if i < len(cols) and i < len(case["slots"]):
                sl = list(case["slots"])
                sl[i] = {"key": cols[i][0], "cls": _spec_of_descr(cols[i][1]), "value": _valid_value(rng, cols[i][1])}
                yield dict(case, slots=sl, hit=[h for h in case["hit"] if h != i])
        return
    if case["kind"] == "field":
        t = case["text"]
        for i in range(len(t)):
            yield dict(case, text=t[:i] + t[i + 1:])
    else:
        # replace fields by a valid canonical text one at a time
        import random
        cols = SP.layout(case["annot"])["columns"]
        rng = random.Random(1)
        for i in range(len(case["fields"])):
            if i < len(cols):
                v = valid_text(rng, cols[i][1])
                if v != case["fields"][i]:
                    f = list(case["fields"])
                    f[i] = v
                    yield dict(case, fields=f)


def kinds_in(d):
    if d is None:
        return set()
    out = {d["k"]}
    if d["k"] == "enum" and d.get("cap"):
        out.add("enumcap")
    for sub in ("elem", "base"):
        if sub in d:
            out |= kinds_in(d[sub])
    return out


CASEFOLD_KINDS = {"int", "entrez", "textorint", "strand", "enumcap", "canonical", "bool"}


def field_dontcare(d, t):
    """texts the model does not claim to reproduce (host leniency on non-ASCII)"""
    if SP.is_ascii(t):
        return False
    return bool(kinds_in(d) & CASEFOLD_KINDS) or d is None


def model_dontcare(case):
    if case["kind"] == "writeseq":
        return False
    if case["kind"] == "write":
        return _write_dontcare(case)
    if case["kind"] == "field":
        if "raw" in case:
            return True          # a non-text value handed to build(): the model's build takes text
        return field_dontcare(descr_of_spec(case["cls"]), case["text"])
    cols = SP.layout(case["annot"])["columns"]
    if len(cols) != len(case["fields"]):
        return False
    return any(field_dontcare(d, t) for (_, d), t in zip(cols, case["fields"]))


def _has_unmodelled(v):
    """values whose python str() the model does not reproduce (containers in plain str(), non-ASCII case maps)"""
    return v[0] in (7, 8, 9)


def _write_dontcare(case):
    for s in case["slots"]:
        if s is None:
            continue
        cname = s["cls"][1] if s["cls"][0] == "src" else None
        v = s["value"]
        # str() of a list/tuple/object through MafColumnRecord.__string_it__ (python repr) is not modelled
        if v[0] in (8, 9):
            return True
        if v[0] == 7 and not (cname or "").startswith("SequenceOf"):
            return True
        if v[0] == 7 and any(x[0] in (7, 8, 9, 3) for x in v[1]):
            return True
    return False


# ------------------------------------------------------------------ model wire
def to_model(case):
    if case["kind"] == "writeseq":
        return [4]
    if case["kind"] == "write":
        return write_to_model(case)
    if case["kind"] == "field":
        ft, ut = H.tables_to_model([case["text"], case["text"].capitalize()])
        return [1, H.spec_to_model(case["cls"]), S(case["text"]), ft, ut]
    line = "\t".join(case["fields"]) + case["trail"]
    ft, ut = H.tables_to_model(case["fields"])
    return [2, S(case["annot"]), S(line), case["mode"], OPT(case["lineno"]), ft, ut]


def _res_str(sx):
    return ["ok", U(sx[1])] if sx[0] == 0 else ["raise", sx[1][0]]


def _exn(sx):
    # (code ...) with MafFormat = (10 tpe (line)?)
    if sx[0] == 10:
        return ["raise", 10, sx[1], (sx[2][0] if sx[2] else None)]
    return ["raise", sx[0]]


def from_model(case, sx):
    if case["kind"] == "writeseq":
        return {"seq": True}
    if case["kind"] == "write":
        return write_from_model(case, sx)
    if case["kind"] == "field":
        if sx[0] == 1:
            return {"build": _exn(sx[1])}
        return {"build": ["ok", H.value_from_model(sx[1])], "errors": H.errs_from_model(sx[2]),
                "str": _res_str(sx[3]), "is_null": bool(sx[4])}
    if sx[0] == 1:
        return {"raise": _exn(sx[1])}
    if sx[0] != 0:
        return {"model-layout-problem": sx}
    slots = []
    for s in sx[3]:
        if not s:
            slots.append(None)
        else:
            k, i, v = s[0]
            slots.append([U(k), (i[0] if i else None), H.value_from_model(v)])
    return {"errors": H.errs_from_model(sx[1]), "len": sx[2], "slots": slots, "str": _res_str(sx[4])}


# ------------------------------------------------------------------ implementation
def _scheme_for(annot):
    from maflib.scheme_factory import find_scheme
    layout = SP.layout(annot)
    s = find_scheme(version=layout["version"], annotation=annot)
    return s


def _str_of(x):
    try:
        return ["ok", str(x)]
    except Exception as e:
        return ["raise", H.exc_code(e)]


def run_impl(case):
    """field / line cases are parsed twice when the first parse exposes a list value: the caller appends to every
    exposed list in between (ordinary annotation code), and the second parse must denote the same values"""
    if case["kind"] == "writeseq":
        return run_writeseq(case)
    if case["kind"] == "write":
        return run_write(case)
    held = []
    r = _run_parse(case, held)
    lists = [v for v in held if isinstance(v, list)]
    if lists:
        for v in lists:
            v.append("caller-appended")
        r2 = _run_parse(case, [])
        if r2["cmp"] != r["cmp"]:
            keys = sorted(k for k in set(r["cmp"]) | set(r2["cmp"]) if r["cmp"].get(k) != r2["cmp"].get(k))
            r.setdefault("extra", {})["history_dependent"] = [keys, json_short(r2["cmp"].get(keys[0]))]
    return r


def _run_parse(case, held):
    from maflib.validation import MafFormatException, MafValidationErrorType, ValidationStringency
    from maflib.record import MafRecord
    if case["kind"] == "field":
        cls = H.cls_of_spec(case["cls"])
        try:
            col = cls.build("k", H.dec_value(case["raw"]) if "raw" in case else case["text"])
        except MafFormatException as e:
            return {"cmp": {"build": ["raise", 10, list(MafValidationErrorType).index(e.tpe), e.line_number]}}
        except Exception as e:
            return {"cmp": {"build": ["raise", H.exc_code(e)]}}
        errs = H.enc_errors(col.validate(), ["k"])
        held.append(col.value)
        obs = {"build": ["ok", H.enc_value(col.value)], "errors": errs, "str": _str_of(col), "is_null": bool(col.is_null())}
        extra = {"cls_name": type(col).__name__}
        # C04: re-parse the rendering
        if not errs and obs["str"][0] == "ok":
            try:
                col2 = cls.build("k", obs["str"][1])
                extra["reparse"] = {"value": H.enc_value(col2.value), "errors": H.enc_errors(col2.validate(), ["k"]),
                                    "str": _str_of(col2)}
            except Exception as e:
                extra["reparse"] = {"raise": H.exc_code(e)}
        return {"cmp": obs, "extra": extra}
    scheme = _scheme_for(case["annot"])
    # what the scheme hands out belongs to the caller: editing it must not change the scheme
    handed = scheme.column_names()
    handed.reverse()
    handed.append("caller-edit")
    names = scheme.column_names()
    line = "\t".join(case["fields"]) + case["trail"]
    mode = getattr(ValidationStringency, MODES[case["mode"]])
    try:
        rec = MafRecord.from_line(line, scheme=scheme, line_number=case["lineno"], validation_stringency=mode)
    except MafFormatException as e:
        return {"cmp": {"raise": ["raise", 10, list(MafValidationErrorType).index(e.tpe), e.line_number]},
                "extra": {"names": names, "tpe": e.tpe.name}}
    except Exception as e:
        return {"cmp": {"raise": ["raise", H.exc_code(e)]}, "extra": {"names": names}}
    slots = []
    for i in range(len(rec)):
        c = rec[i]
        slots.append(None if c is None else [c.key, c.column_index, H.enc_value(c.value)])
        if c is not None:
            held.append(c.value)
    obs = {"errors": H.enc_errors(rec.validation_errors, names), "len": len(rec), "slots": slots, "str": _str_of(rec)}
    extra = {"names": names, "values": [H.enc_value(rec.value(n)) for n in names]}
    # the other ways to the same column: MafColumnRecord.build(..., scheme=) and build_nullable must agree with from_line
    fields = case["fields"]
    if len(fields) == len(names):
        from maflib.column import MafColumnRecord
        import random as _r
        rr = _r.Random(len(line))
        probe = sorted(set(case.get("hit", [])) | {rr.randrange(len(names)) for _ in range(3)})
        via = []
        for i in probe:
            if i >= len(names):
                continue
            try:
                c = MafColumnRecord.build(name=names[i], value=fields[i], column_index=i, scheme=scheme)
                v = ["ok", type(c).__name__, c.column_index, H.enc_value(c.value), bool(c.validate(scheme=scheme))]
            except Exception as e:
                v = ["raise", H.exc_code(e)]
            stored = slots[i] if i < len(slots) else None
            cls = scheme.column_class(names[i])
            nb = None
            if cls.is_nullable():
                try:
                    n = cls.build_nullable(name=names[i], column_index=i)
                    nb = ["ok", bool(n.is_null()), bool(n.validate(scheme=scheme))]
                except Exception as e:
                    nb = ["raise", H.exc_code(e)]
            via.append([i, v, stored, nb])
        extra["via_scheme"] = via
    # C04: render, re-parse, render again
    if not obs["errors"] and obs["str"][0] == "ok":
        try:
            rec2 = MafRecord.from_line(obs["str"][1], scheme=scheme, line_number=case["lineno"], validation_stringency=ValidationStringency.Silent)
            extra["reparse"] = {"errors": H.enc_errors(rec2.validation_errors, names),
                                "values": [H.enc_value(rec2.value(n)) for n in names], "str": _str_of(rec2)}
        except Exception as e:
            extra["reparse"] = {"raise": H.exc_code(e)}
    return {"cmp": obs, "extra": extra}


# ------------------------------------------------------------------ oracles
COLUMN_ERRS = ("RECORD_COLUMN_WRONG_FORMAT", "RECORD_INVALID_COLUMN_VALUE")


def oracle_c01(case, obs):
    """the documented domains decide, independently of the model"""
    out = []
    o = obs["cmp"]
    if obs.get("extra", {}).get("history_dependent"):
        out.append("typed-value-depends-on-what-a-caller-did-to-an-earlier-record | %s" % (obs["extra"]["history_dependent"],))
    if case["kind"] == "field":
        d = descr_of_spec(case["cls"])
        if d is None:
            return out
        z = SP.zone(d, case["text"])
        accepted = o["build"][0] == "ok" and not o.get("errors")
        if z[0] == "accept":
            if not accepted:
                out.append("must-accept-rejected | %s %r -> %s" % (case["cls"], case["text"], json_short(o)))
            elif o["build"][1] != z[1]:
                out.append("accepted-with-wrong-value | %s %r -> %s expected %s" % (case["cls"], case["text"], o["build"][1], z[1]))
        elif z[0] == "reject":
            if accepted:
                out.append("must-reject-accepted | %s %r -> %s" % (case["cls"], case["text"], o["build"][1]))
            elif o["build"][0] != "ok" and o["build"][1] not in (1, 2):
                out.append("rejected-by-unexpected-exception | %s %r -> %s" % (case["cls"], case["text"], o["build"]))
        return out
    cols = SP.layout(case["annot"])["columns"]
    names = [n for n, _ in cols]
    if obs.get("extra", {}).get("names") != names:
        out.append("layout-differs-from-documented | %s" % case["annot"])
        return out
    fields = case["fields"]
    strict = case["mode"] == 1
    if len(fields) != len(cols):
        if strict:
            if "raise" not in o or o["raise"][:2] != ["raise", 10] or obs["extra"].get("tpe") != "RECORD_MISMATCH_NUMBER_OF_COLUMNS" or o["raise"][3] != case["lineno"]:
                out.append("wrong-count-not-refused-in-strict | %s" % json_short(o))
        else:
            if "raise" in o:
                out.append("non-strict-mode-raised | %s" % json_short(o))
            elif o["len"] != 0 or not any(e[0] == "RECORD_MISMATCH_NUMBER_OF_COLUMNS" and e[1] == case["lineno"] for e in o["errors"]):
                out.append("wrong-count-not-reported | %s" % json_short(o))
        return out
    zones = [SP.zone(d, t) for (_, d), t in zip(cols, fields)]
    rejects = [i for i, z in enumerate(zones) if z[0] == "reject"]
    dcs = [i for i, z in enumerate(zones) if z[0] == "dontcare"]
    if "raise" in o:
        if not strict:
            out.append("non-strict-mode-raised | %s" % json_short(o))
        elif o["raise"][:2] != ["raise", 10]:
            out.append("strict-raised-other-exception | %s" % json_short(o))
        elif not rejects and not dcs:
            out.append("all-fields-in-domain-but-strict-refused | %s" % json_short(o))
        elif o["raise"][3] != case["lineno"]:
            out.append("strict-error-wrong-line | %s" % json_short(o))
        return out
    if strict and rejects:
        out.append("out-of-domain-field-accepted-in-strict | col %s %r" % (names[rejects[0]], fields[rejects[0]]))
    errs = o["errors"]
    for i in rejects:
        if not any(e[0] in COLUMN_ERRS and e[2] == names[i] and e[1] == case["lineno"] for e in errs):
            out.append("out-of-domain-field-not-reported-against-its-column | col %s %r errors=%s" % (names[i], fields[i], errs[:4]))
        if i < len(o["slots"]) and o["slots"][i] is not None:
            out.append("out-of-domain-field-exposed | col %s %r -> %s" % (names[i], fields[i], o["slots"][i]))
        if obs["extra"]["values"][i] != [0]:
            out.append("out-of-domain-field-exposed-by-value() | col %s" % names[i])
    for i, z in enumerate(zones):
        if z[0] == "accept":
            if any(e[0] in COLUMN_ERRS and e[2] == names[i] for e in errs):
                out.append("in-domain-field-reported | col %s %r" % (names[i], fields[i]))
            elif i < len(o["slots"]) and o["slots"][i] is not None:
                s = o["slots"][i]
                if s[0] != names[i] or s[1] != i:
                    out.append("field-bound-to-wrong-column | pos %d got %s" % (i, s[:2]))
                elif s[2] != z[1]:
                    out.append("accepted-with-wrong-value | col %s %r -> %s expected %s" % (names[i], fields[i], s[2], z[1]))
            elif not rejects and not dcs:
                out.append("in-domain-field-missing | col %s" % names[i])
    for i, v, stored, nb in obs["extra"].get("via_scheme", []):
        if zones[i][0] == "dontcare":
            continue
        if v[0] == "ok" and not v[4]:
            if stored is None:
                out.append("build-with-scheme-accepts-what-from-line-rejects | col %s %r" % (names[i], fields[i]))
            elif v[2] != i or v[3] != stored[2]:
                out.append("build-with-scheme-differs-from-from-line | col %s %r: %s vs %s" % (names[i], fields[i], v[1:4], stored))
        elif stored is not None:
            out.append("build-with-scheme-rejects-what-from-line-accepts | col %s %r: %s" % (names[i], fields[i], v))
        if nb is not None and nb != ["ok", True, False]:
            out.append("build-nullable-does-not-give-a-valid-null-column | col %s: %s" % (names[i], nb))
    if not rejects and not dcs:
        if errs:
            out.append("all-fields-in-domain-but-errors | %s" % errs[:3])
        if o["len"] != len(cols):
            out.append("accepted-record-has-wrong-length | %d" % o["len"])
    return out


def json_short(o):
    import json
    return json.dumps(o)[:300]


def classify(case, obs):
    if case["kind"] == "writeseq":
        ex = (obs or {}).get("extra", {})
        return "writeseq/sort=%s/accepted=%d/refused=%d" % (case["sort"], sum(1 for o in ex.get("outcomes", []) if o == "accepted"),
                                                          sum(1 for o in ex.get("outcomes", []) if o.startswith("refused")))
    if case["kind"] == "write":
        o = (obs or {}).get("cmp", {})
        res = "refused" if "raise" in o else ("unbuildable" if "unbuildable" in o else "emitted")
        return "write/%s/mode=%s/%s" % (case["stream"], MODES[case["mode"]], res)
    if case["kind"] == "field":
        d = descr_of_spec(case["cls"])
        z = SP.zone(d, case["text"])[0] if d else "?"
        return "field/%s/%s/%s" % (case["stream"], (d or {}).get("k", "?"), z)
    o = (obs or {}).get("cmp", {})
    res = "raise" if "raise" in o else ("clean" if not o.get("errors") else "errors")
    return "line/%s/mode=%s/%s" % (case["stream"], MODES[case["mode"]], res)


# ====================================================================== writer cases (C05 d, C06, C02)
# {"kind":"write","annot":a,"slots":[None | {"key","cls","value","idx_post"?}], "mode":1|2|3, "sort":bool, "stream":s, "hit":[..]}
import random as _random

FOREIGN_CLASSES = ["StringColumn", "NullableStringColumn", "IntegerColumn", "NullableIntegerColumn", "FloatColumn",
                   "NullableFloatColumn", "UUIDColumn", "NullableUUIDColumn", "DnaString", "NullableDnaString",
                   "OneBasedIntegerColumn", "ZeroBasedIntegerColumn", "NullableZeroBasedIntegerColumn", "EntrezGeneId",
                   "Canonical", "BooleanColumn", "TranscriptStrand", "SequenceOfStrings", "SequenceOfIntegers",
                   "Strand", "VariantType", "NullableYesOrNo", "PickColumn", "MafColumnRecord", "StringOrIntegerColumn"]
ODD_VALUES = [[0], [1, 1], [1, 0], [2, 0], [2, 1], [2, -1], [2, 7], [3, "1.5"], [3, "nan"], [4, ""], [4, "A"], [4, "a\tb"], [4, "a\nb"],
              [4, "a\rb"], [4, ";"], [4, "x;y"], [4, "-"], [4, "ACGT"], [4, "5"], [4, "Yes"], [7, []], [7, [[4, "a"]]], [7, [[4, ";"]]],
              [7, [[4, "a;b"]]], [7, [[4, "a\tb"]]], [7, [[4, "x\ny"], [4, "z"]]], [7, [[4, "p"], [4, "q\rr"]]], [8, [[4, "a\tb"]]], [7, [[4, ""]]], [7, [[2, 3]]], [7, [[1, 1]]], [8, [[4, "t"]]], [5, "StrandEnum", 0], [5, "PickEnum", 1],
              [5, "NullableYesOrNoEnum", 0], [6, "12345678-1234-5678-1234-567812345678"], [9], [4, "é"], [4, " "], [2, 10 ** 30]]


KIND_ODD_VALUES = {
    "strand": [[1, 1], [1, 0], [2, 1], [2, -1], [2, 0], [2, 2], [4, "1"], [3, "1.0"], [0]],
    "int": [[1, 1], [1, 0], [2, 0], [2, -1], [2, 1], [3, "1.0"], [4, "1"], [0], [2, 10 ** 30]],
    "entrez": [[1, 1], [1, 0], [2, 0], [2, -1], [0], [4, "0"]],
    "canonical": [[1, 1], [1, 0], [2, 1], [4, "YES"], [0]],
    "bool": [[1, 1], [2, 0], [4, "True"], [0]],
    "float": [[3, "1.5"], [3, "nan"], [3, "inf"], [2, 1], [1, 1], [4, "1.5"], [0]],
    "text": [[4, ""], [4, " "], [4, "a\tb"], [4, "a\nb"], [0], [2, 0], [1, 0], [7, []]],
    "dna": [[4, ""], [4, "-"], [4, "A-C"], [4, "acgt"], [0], [4, "A\tC"]],
    "uuid": [[0], [4, "12345678-1234-5678-1234-567812345678"], [6, "12345678-1234-5678-1234-567812345678"], [4, ""]],
    "seq": [[7, [[4, "BI;"], [4, "WUGSC"]]], [7, [[4, "a"], [4, ";"], [4, "b"]]], [7, [[4, "x;y"], [4, "z"]]], [7, []], [7, [[4, ""]]], [7, [[4, ";"]]], [7, [[4, "a;b"]]], [7, [[4, "a\tb"]]], [8, [[4, "a"]]], [4, "a;b"], [0], [7, [[0]]], [7, [[1, 1]]]],
    "enum": [[0], [4, "Yes"], [4, ""], [5, "NullableYesOrNoEnum", 0], [5, "PickEnum", 0], [5, "StrandEnum", 0], [1, 1]],
    "textorint": [[1, 1], [2, 7], [4, "007"], [4, "7"], [3, "7.0"], [0], [4, ""]],
}
NULLABLE_FOREIGN = [["NullableStringColumn", [0]], ["NullableIntegerColumn", [0]], ["NullableFloatColumn", [0]], ["NullableUUIDColumn", [0]],
                    ["NullableDnaString", [0]], ["SequenceOfStrings", [7, []]], ["SequenceOfIntegers", [7, []]], ["EntrezGeneId", [0]],
                    ["NullableYesOrNo", [5, "NullableYesOrNoEnum", 0]], ["PickColumn", [5, "PickEnum", 0]], ["TranscriptStrand", [0]],
                    ["VerificationStatus", [0]], ["NullableZeroBasedIntegerColumn", [0]]]


_BASES = None


def parents_of(spec):
    """source-level direct base classes (that are column classes) of the slot's class; for a synthesised class, its parts"""
    global _BASES
    if _BASES is None:
        import ast
        import os
        _BASES = {}
        repo = os.environ.get("VERIF_REPO", "/repo")
        for fn in ("column.py", "column_types.py"):
            try:
                tree = ast.parse(open(os.path.join(repo, "maflib", fn)).read())
            except (OSError, SyntaxError):
                continue
            for node in tree.body:
                if isinstance(node, ast.ClassDef):
                    _BASES[node.name] = [b.id for b in node.bases if isinstance(b, ast.Name)]
    if spec[0] == "mix":
        return [spec[2][1]] if spec[2][0] == "src" else []
    known = set(SRC_CLASSES) | {"MafColumnRecord"}
    return [b for b in _BASES.get(spec[1], []) if b in known]


def kind_odd_value(rng, d):
    k = d["k"] if d else None
    if k == "mustnull":
        return kind_odd_value(rng, d["base"])
    lst = KIND_ODD_VALUES.get(k)
    return rng.choice(lst) if lst and rng.random() < 0.6 else rng.choice(ODD_VALUES)


def _cls_spec_of_descr_col(annot, i):
    """class spec of the layout column (source class name or RequireNullValue mix) from the pinned spec"""
    d = SP.layout(annot)["columns"][i][1]
    return _spec_of_descr(d)


_DESCR_TO_CLASS = None


def _spec_of_descr(d):
    global _DESCR_TO_CLASS
    if _DESCR_TO_CLASS is None:
        import json as _j
        _DESCR_TO_CLASS = {_j.dumps(v, sort_keys=True): k for k, v in SP.spec()["classes"].items()}
    if d["k"] == "mustnull":
        return ["mix", ["src", "RequireNullValue"], _spec_of_descr(d["base"])]
    import json as _j
    return ["src", _DESCR_TO_CLASS[_j.dumps(d, sort_keys=True)]]


def _valid_value(rng, d):
    """a typed value in the documented domain, as canonical JSON"""
    for _ in range(20):
        z = SP.zone(d, valid_text(rng, d))
        if z[0] == "accept":
            return z[1]
    return [0]


def gen_write(rng, annots=None, strict_share=0.8):
    annot = rng.choice(annots or ANNOTS)
    cols = SP.layout(annot)["columns"]
    slots = []
    for i, (name, d) in enumerate(cols):
        slots.append({"key": name, "cls": _spec_of_descr(d), "value": _valid_value(rng, d)})
    stream = rng.choice(["valid", "valid", "value1", "value1", "class1", "shape", "germline", "multi"])
    hit = []

    def pick_col():
        """a column position: first/last/uniform, or (half of the time) stratified by descriptor kind so that the
        kinds with one or two columns in a layout (strand, bool, canonical, entrez, uuid) are perturbed as often as text"""
        fcols = focus_columns(cols)
        if fcols and rng.random() < 0.6:
            return rng.choice(fcols)
        if rng.random() < 0.5:
            return rng.choice([0, len(cols) - 1, rng.randrange(len(cols))])
        by = {}
        for j, (_, dd) in enumerate(cols):
            kk = dd["base"]["k"] if dd["k"] == "mustnull" else dd["k"]
            by.setdefault(kk, []).append(j)
        return rng.choice(by[rng.choice(sorted(by))])

    def perturb_value(i):
        slots[i]["value"] = kind_odd_value(rng, cols[i][1]) if i < len(cols) else rng.choice(ODD_VALUES)
        hit.append(i)

    def perturb_class(i):
        r = rng.random()
        ps = parents_of(slots[i]["cls"])
        if ps and rng.random() < 0.3:
            # a direct parent class of the column's class: weaker rules, values the parent admits
            slots[i]["cls"] = ["src", rng.choice(ps)]
            if rng.random() < 0.8:
                slots[i]["value"] = kind_odd_value(rng, cols[i][1]) if i < len(cols) else rng.choice(ODD_VALUES)
            hit.append(i)
            return
        if r < 0.25:
            # a foreign nullable class holding its own null value
            c, v = rng.choice(NULLABLE_FOREIGN)
            slots[i]["cls"] = ["src", c]
            slots[i]["value"] = v
        elif r < 0.5:
            slots[i]["cls"] = ["src", rng.choice(FOREIGN_CLASSES)]
        elif r < 0.75 and slots[i]["cls"][0] == "mix":
            slots[i]["cls"] = slots[i]["cls"][2]          # the un-mixed base class
        else:
            slots[i]["cls"] = ["src", rng.choice(FOREIGN_CLASSES)]
            slots[i]["value"] = rng.choice(ODD_VALUES)
        hit.append(i)

    if stream == "value1":
        perturb_value(pick_col())
    elif stream == "class1":
        perturb_class(pick_col())
    elif stream == "germline":
        gl = [i for i, (n, _) in enumerate(cols) if n in SP.GERMLINE6]
        if gl:
            i = rng.choice(gl)
            r = rng.random()
            if r < 0.4:
                slots[i]["value"] = rng.choice([[4, "A"], [4, "-"], [2, 5], [2, 0], [4, "0"], [4, " "], [0], [4, ""]])
                hit.append(i)
            elif r < 0.7:
                base = slots[i]["cls"][2] if slots[i]["cls"][0] == "mix" else slots[i]["cls"]
                slots[i]["cls"] = base
                slots[i]["value"] = rng.choice([[4, "A"], [2, 5], [0], [4, "ACGT"]])
                hit.append(i)
            elif r < 0.85:
                # the column replaced by hand with an untyped column holding text (or a number)
                slots[i]["cls"] = ["src", "MafColumnRecord"]
                slots[i]["value"] = rng.choice([[4, "A"], [4, "ACGT"], [4, "7"], [2, 7], [4, "-"]])
                hit.append(i)
            else:
                perturb_class(i)
        else:
            perturb_value(rng.randrange(len(cols)))
    elif stream == "multi":
        for _ in range(rng.randint(2, 4)):
            (perturb_value if rng.random() < 0.6 else perturb_class)(pick_col())
    elif stream == "shape":
        r = rng.random()
        if r < 0.25:
            del slots[rng.randrange(len(slots))]
        elif r < 0.45:
            slots.append({"key": "Extra_Column", "cls": ["src", "MafColumnRecord"], "value": [4, "x"]})
        elif r < 0.65:
            i, j = rng.sample(range(len(slots)), 2)
            slots[i], slots[j] = slots[j], slots[i]
        elif r < 0.8:
            slots[rng.randrange(len(slots) - 1)] = None
        elif r < 0.9:
            slots[rng.randrange(len(slots))]["key"] = "Renamed_Column"
        elif r < 0.95:
            slots[rng.randrange(len(slots))]["idx_post"] = rng.choice([0, 3, 500])
        else:
            # two columns in each other's slots, their column_index attributes then set to the scheme's positions
            i, j = rng.sample(range(len(slots)), 2)
            slots[i], slots[j] = slots[j], slots[i]
            slots[i]["idx_post"] = j
            slots[j]["idx_post"] = i
    return {"kind": "write", "annot": annot, "slots": slots, "mode": 1 if rng.random() < strict_share else rng.choice([2, 3]),
            "sort": False, "stream": stream, "hit": sorted(set(hit))}


def write_to_model(case):
    sl = []
    for i, s in enumerate(case["slots"]):
        if s is None:
            sl.append([])
        else:
            idx = s.get("idx_post", i)
            sl.append([S(s["key"]), OPT(idx), H.spec_to_model(s["cls"]), H.value_to_model(s["value"])])
    return [6, S(case["annot"]), sl, case["mode"]]


def write_from_model(case, sx):
    if sx[0] == 1:
        return {"raise": _exn(sx[1])}
    if sx[0] != 0:
        return {"model-layout-problem": sx}
    st = _res_str(sx[2])
    if st[0] != "ok":
        return {"raise": ["raise", st[1]]}
    return {"errors": H.errs_from_model(sx[1]), "out": st[1] + "\n"}


class _Buf:
    """a text handle that remembers what was written and survives close()"""

    def __init__(self):
        self.parts = []
        self.closed = False

    def write(self, s):
        self.parts.append(s)
        return len(s)

    def close(self):
        self.closed = True

    def text(self):
        return "".join(self.parts)


_CLASS_CACHE = {}


def _class_for(annot, spec, name):
    """class objects have identity: a synthesised class is created per scheme column, so the
    class for a slot is looked up under the slot's own name first (the model identifies
    synthesised classes structurally; the harness never moves one to another column)"""
    if spec[0] == "src":
        return H.cls_of_spec(spec)
    key = (annot, repr(spec), name)
    if key not in _CLASS_CACHE:
        scheme = _scheme_for(annot)
        found = None
        for n in [name] + scheme.column_names():
            c = scheme.column_class(n)
            if c is None:
                continue
            try:
                if H.spec_of_cls(c) == spec:
                    found = c
                    break
            except ValueError:
                pass
        _CLASS_CACHE[key] = found if found is not None else H.cls_of_spec(spec)
    return _CLASS_CACHE[key]


def build_api_record(case):
    """constructs the record through the public API only"""
    from maflib.record import MafRecord
    rec = MafRecord()
    last = max([i for i, s in enumerate(case["slots"]) if s is not None], default=-1)
    post = []
    for i, s in enumerate(case["slots"][: last + 1]):
        if s is None:
            continue
        cls = _class_for(case["annot"], s["cls"], s["key"])
        col = cls(key=s["key"], value=H.dec_value(s["value"]), column_index=i)
        rec[i] = col
        if "idx_post" in s:
            post.append((col, s["idx_post"]))
    for col, k in post:
        col.column_index = k           # a post-hoc mutation of a stored column
    return rec


def run_write(case):
    from maflib.validation import MafFormatException, MafValidationErrorType, ValidationStringency
    from maflib.header import MafHeader
    from maflib.writer import MafWriter
    from maflib.record import MafRecord
    scheme = _scheme_for(case["annot"])
    names = scheme.column_names()
    layout = SP.layout(case["annot"])
    header = MafHeader.from_defaults(version=layout["version"],
                                     annotation=None if case["annot"] == layout["version"] else case["annot"])
    mode = getattr(ValidationStringency, MODES[case["mode"]])
    buf = _Buf()
    extra = {"names": names}
    try:
        rec = build_api_record(case)
    except Exception as e:
        return {"cmp": {"unbuildable": H.exc_code(e)}, "extra": extra}
    writer = MafWriter.from_fd(buf, header, validation_stringency=mode, assume_sorted=True)
    before = buf.text()
    try:
        writer += rec
        out = buf.text()[len(before):]
        obs = {"errors": H.enc_errors(rec.validation_errors, names + ["Extra_Column", "Renamed_Column"]), "out": out}
    except MafFormatException as e:
        obs = {"raise": ["raise", 10, list(MafValidationErrorType).index(e.tpe), e.line_number]}
        extra["bytes_after_refusal"] = buf.text()[len(before):]
    except Exception as e:
        obs = {"raise": ["raise", H.exc_code(e)]}
        extra["bytes_after_refusal"] = buf.text()[len(before):]
        extra["exc_type"] = type(e).__name__
    writer.close()
    # is what reached the output accepted by a Strict reader under the same scheme?
    if "out" in obs:
        lines = obs["out"].split("\n")
        extra["n_lines"] = len(lines) - 1
        try:
            r2 = MafRecord.from_line(lines[0], scheme=scheme, validation_stringency=ValidationStringency.Strict)
            extra["reread"] = "ok"
            extra["reread_fields"] = lines[0].split("\t")
        except MafFormatException as e:
            extra["reread"] = "rejected:" + e.tpe.name
            extra["reread_msg"] = str(e)[:200]
        except Exception as e:
            extra["reread"] = "exception:" + type(e).__name__
    return {"cmp": obs, "extra": extra}


def oracle_c06(case, obs):
    """Strict writer: what reaches the output is accepted by a Strict reader; refusals use the format exception and emit nothing"""
    out = []
    if case["kind"] != "write" or case["mode"] != 1:
        return out
    o, ex = obs["cmp"], obs.get("extra", {})
    if "unbuildable" in o:
        return out
    if "raise" in o:
        if o["raise"][1] != 10:
            out.append("refused-with-other-exception/%s | slots hit %s" % (ex.get("exc_type"), case.get("hit")))
        if ex.get("bytes_after_refusal"):
            out.append("refused-record-left-bytes | %r" % ex["bytes_after_refusal"][:80])
        return out
    if ex.get("n_lines") != 1:
        out.append("emitted-line-breaks-framing | %d lines for one record" % ex.get("n_lines", -1))
    if ex.get("reread") != "ok":
        sig = "emitted-line-rejected-by-strict-reader"
        # structural signature: which (scheme class <- object class, value kind) pairs were perturbed
        pairs = []
        cols = SP.layout(case["annot"])["columns"]
        hits = list(case.get("hit", []))
        # the reader names the column it rejects: of several perturbed slots only that one is the cause
        import re as _re
        m = _re.search(r"name '([^']*)'", str(ex.get("reread_msg", "")))
        if m:
            named = [i for i in hits if i < len(case["slots"]) and case["slots"][i] is not None and case["slots"][i].get("key") == m.group(1)]
            if named:
                hits = named
        for i in hits:
            s = case["slots"][i] if i < len(case["slots"]) else None
            if s is not None and i < len(cols):
                pairs.append("%s<-%s:%s" % (_name(_spec_of_descr(cols[i][1])), _name(s["cls"]), s["value"][0]))
        out.append("%s/%s | %s" % (sig, ",".join(sorted(set(pairs))) or "?", ex.get("reread_msg", ex.get("reread"))))
    return out


def _name(spec):
    return spec[1] if spec[0] == "src" else "Mix(%s,%s)" % (_name(spec[1]), _name(spec[2]))


def oracle_c05_write(case, obs):
    out = []
    if case["kind"] != "write" or case["mode"] != 1 or case["annot"] not in SP.MASKED_LAYOUTS:
        return out
    o, ex = obs["cmp"], obs.get("extra", {})
    if "out" not in o:
        return out
    fields = o["out"].rstrip("\n").split("\t")
    names = ex.get("names", [])
    for g in SP.GERMLINE6:
        if g in names:
            i = names.index(g)
            if i < len(fields) and fields[i] != "":
                out.append("strict-writer-emitted-germline-value | %s=%r" % (g, fields[i]))
    return out


# ---------------------------------------------------------------- sequences offered to one writer (direct or sorting)
def gen_writeseq(rng, annots=None):
    annot = rng.choice(annots or ANNOTS)
    recs = []
    for _ in range(rng.randint(2, 4)):
        c = gen_write(rng, annots=[annot], strict_share=1.0)
        recs.append({"slots": c["slots"], "stream": c["stream"], "hit": c["hit"]})
    # sometimes: re-offer an earlier (accepted) record object after changing one of its values in place
    if rng.random() < 0.35:
        k = rng.randrange(len(recs))
        cols = SP.layout(annot)["columns"]
        gl = [i for i, (n, _) in enumerate(cols) if n in SP.GERMLINE6] or list(range(len(cols)))
        i = rng.choice(gl if rng.random() < 0.5 else list(range(len(cols))))
        recs.append({"reuse": k, "set": [[i, rng.choice([[4, "A"], [2, 5], [4, "a\tb"], [1, 1], [4, ""], [0], [9]])]], "slots": [], "stream": "reuse", "hit": [i]})
    return {"kind": "writeseq", "annot": annot, "records": recs, "sort": rng.random() < 0.6, "mode": 1,
            "stream": "seq-" + ("sort" if recs and rng.random() < 2 else "direct"), "hit": [i for i, r in enumerate(recs) if r["hit"]]}


def run_writeseq(case):
    from maflib.validation import MafFormatException, ValidationStringency
    from maflib.header import MafHeader
    from maflib.writer import MafWriter
    from maflib.record import MafRecord
    from maflib.sort_order import Coordinate
    scheme = _scheme_for(case["annot"])
    layout = SP.layout(case["annot"])
    header = MafHeader.from_defaults(version=layout["version"],
                                     annotation=None if case["annot"] == layout["version"] else case["annot"],
                                     sort_order=Coordinate() if case["sort"] else None)
    buf = _Buf()
    writer = MafWriter.from_fd(buf, header, validation_stringency=ValidationStringency.Strict, assume_sorted=not case["sort"])
    start = len(buf.text())
    outcomes = []
    built = []
    expect_refusal = []
    for ri, r in enumerate(case["records"]):
        sub = {"annot": case["annot"], "slots": r["slots"]}
        if "reuse" in r:
            rec = built[r["reuse"]] if r["reuse"] < len(built) else None
            if rec is None:
                outcomes.append("unbuildable")
                built.append(None)
                continue
            for i, v in r["set"]:
                if i < len(rec) and rec[i] is not None:
                    rec[i].value = H.dec_value(v)       # in place, the record object is the one offered before
                    # would this value be refused in a freshly built record?
                    d = SP.layout(case["annot"])["columns"][i][1] if i < len(SP.layout(case["annot"])["columns"]) else None
            built.append(rec)
        else:
            try:
                rec = build_api_record(sub)
            except Exception as e:
                outcomes.append("unbuildable")
                built.append(None)
                continue
            built.append(rec)
        before = len(buf.text())
        try:
            writer += rec
            outcomes.append("accepted")
        except MafFormatException:
            outcomes.append("refused" if len(buf.text()) == before else "refused-but-wrote")
        except Exception as e:
            outcomes.append("other-exception:" + type(e).__name__)
    try:
        writer.close()
        closed = "ok"
    except Exception as e:
        closed = "close-raised:" + type(e).__name__
    lines = buf.text()[start:].split("\n")
    data = lines[:-1] if lines and lines[-1] == "" else lines
    reread = []
    for ln in data:
        try:
            MafRecord.from_line(ln, scheme=scheme, validation_stringency=ValidationStringency.Strict)
            reread.append("ok")
        except MafFormatException as e:
            reread.append("rejected:" + e.tpe.name)
        except Exception as e:
            reread.append("exception:" + type(e).__name__)
    # whole-file Strict read
    whole = "ok"
    try:
        from maflib.reader import MafReader
        rd = MafReader(lines=buf.text().split("\n")[:-1], validation_stringency=ValidationStringency.Strict)
        n = sum(1 for _ in rd)
        whole = "ok:%d" % n
    except Exception as e:
        whole = "failed:" + type(e).__name__
    names = scheme.column_names()
    germ = []
    for ln in data:
        f = ln.split("\t")
        germ.append([[g, f[names.index(g)]] for g in SP.GERMLINE6 if g in names and names.index(g) < len(f) and f[names.index(g)] != ""])
    return {"cmp": {"seq": True}, "extra": {"outcomes": outcomes, "closed": closed, "n_data_lines": len(data), "reread": reread,
                                             "whole": whole, "germline_nonnull": germ}}


def oracle_c06_seq(case, obs):
    out = []
    ex = obs["extra"]
    acc = sum(1 for o in ex["outcomes"] if o == "accepted")
    for o in ex["outcomes"]:
        if o.startswith("other-exception"):
            out.append("refused-with-other-exception/%s | sequence" % o.split(":")[1])
        if o == "refused-but-wrote":
            out.append("refused-record-left-bytes | sequence")
    if ex["closed"] != "ok":
        # structural signature: the perturbed slots of the records that were accepted (scheme class <- object class, value kind)
        pairs = []
        cols = SP.layout(case["annot"])["columns"]
        for r, o in zip(case["records"], ex["outcomes"]):
            if o != "accepted" or "slots" not in r:
                continue
            for i in r.get("hit", []):
                sl = r["slots"][i] if i < len(r["slots"]) else None
                if sl is not None and i < len(cols):
                    pairs.append("%s<-%s:%s" % (_name(_spec_of_descr(cols[i][1])), _name(sl["cls"]), sl["value"][0]))
        # a record with the recorded subclass substitution makes close() fail whatever else the sequence holds:
        # it is the cause, the other perturbed records are not named
        certain = [p for p in pairs if p == "UUIDColumn<-NullableUUIDColumn:0"]
        if certain:
            pairs = certain
        out.append("close-failed%s | %s" % (("/" + ",".join(sorted(set(pairs)))) if pairs else "", ex["closed"]))
        return out
    if ex["n_data_lines"] != acc:
        out.append("output-line-count-differs-from-accepted-records | %d lines, %d accepted (sort=%s)" % (ex["n_data_lines"], acc, case["sort"]))
    if any(r != "ok" for r in ex["reread"]):
        out.append("emitted-line-rejected-by-strict-reader/sequence | %s" % [r for r in ex["reread"] if r != "ok"][:2])
    if ex["whole"] != "ok:%d" % acc and not out:
        out.append("strict-reader-rejects-the-file | %s (accepted %d)" % (ex["whole"], acc))
    return out
