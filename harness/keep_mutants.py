#!/venv/bin/python
"""keep_mutants.py PID CHECKS  - for each /tmp/seed_PID/mutants/mN: confirm the change (applies to /repo HEAD, suite passes,
demo passes without / fails with the change), run the listed checks against it, and store it as /verif/seeded/PID-mN/."""
import json, os, shutil, subprocess, sys
pid, checks = sys.argv[1], sys.argv[2]
rnd = sys.argv[3] if len(sys.argv) > 3 else ""
seed_root = "/tmp/seed%s_%s" % (rnd, pid)
tag = ("r%s" % rnd) if rnd else ""
for m in ("m1", "m2", "m3"):
    d = "%s/mutants/%s" % (seed_root, m)
    if not os.path.exists(d + "/patch.diff"):
        continue
    p = subprocess.run(["/verif/harness/try_mutant.py", "%s-%s%s" % (pid, tag, m), d + "/patch.diff", "--checks", checks,
                        "--demo", d + "/demo.py", "--seed-dir", seed_root], capture_output=True, text=True)
    try:
        res = json.loads(p.stdout)
    except Exception:
        print(pid, m, "try_mutant failed:", (p.stdout + p.stderr)[-400:]); continue
    confirmed = bool(res.get("applies")) and "217 passed" in str(res.get("tests")) and res.get("demo_without_change_rc") == 0 \
        and res.get("demo_with_change_rc") not in (0, None, "patch-did-not-apply-in-seed-dir")
    caught = {k: ("caught: " + str(v.get("violation"))[:200] if any(l.startswith("VIOLATION") and "no-failing-input" not in l for l in v["lines"])
                  else ("reported without failing input" if any(l.startswith("VIOLATION") for l in v["lines"]) else "missed"))
              for k, v in res["checks"].items()}
    print(pid, m, "confirmed" if confirmed else "NOT-CONFIRMED %s" % {k: res.get(k) for k in ("applies", "tests", "demo_without_change_rc", "demo_with_change_rc")}, caught)
    if not confirmed:
        continue
    out = "/verif/seeded/%s-%s%s" % (pid, tag, m)
    os.makedirs(out, exist_ok=True)
    for f in ("patch.diff", "demo.py", "README.md"):
        if os.path.exists(os.path.join(d, f)):
            shutil.copy(os.path.join(d, f), os.path.join(out, f))
    readme = open(os.path.join(d, "README.md")).read() if os.path.exists(os.path.join(d, "README.md")) else ""
    meta = {"property": pid, "source": "independent sub-agent given only the property text and a scratch worktree",
            "needs_to_manifest": readme[:1500],
            "confirmed_by_lead": {"applies_to_repo_head": True, "test_suite_with_change": res.get("tests"),
                                  "demo_without_change_rc": res.get("demo_without_change_rc"), "demo_with_change_rc": res.get("demo_with_change_rc"),
                                  "how": "harness/try_mutant.py (scratch worktree of /repo HEAD; demo run in the seeding worktree with and without the patch)"},
            "checks": {k: {"verdict": caught[k], "lines": [l.split(" replay=")[0] for l in v["lines"]], "failing_input": v.get("case")} for k, v in res["checks"].items()}}
    json.dump(meta, open(os.path.join(out, "meta.json"), "w"), indent=1)
