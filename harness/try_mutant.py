#!/venv/bin/python
"""Try the checks on a seeded change:  try_mutant.py <name> <patch.diff> --checks C08,C09 [--demo demo.py --seed-dir /tmp/seed_C08]
Creates a scratch worktree of /repo HEAD under /tmp, applies the patch, runs the repository's test suite there,
runs the listed checks with VERIF_REPO pointing at it (evidence/replays go to a scratch dir), removes the worktree,
and regenerates the tables for /repo.  Prints a JSON summary."""
import argparse, json, os, re, shutil, subprocess, sys, tempfile

ap = argparse.ArgumentParser()
ap.add_argument("name"); ap.add_argument("patch"); ap.add_argument("--checks", required=True)
ap.add_argument("--demo"); ap.add_argument("--seed-dir"); ap.add_argument("--tier", default="quick")
a = ap.parse_args()
wt = "/tmp/mut_%s_%d" % (re.sub(r"\W", "_", a.name), os.getpid())
scratch = tempfile.mkdtemp(prefix="mutev_")
out = {"name": a.name, "patch": a.patch, "checks": {}}


def sh(cmd, **kw):
    p = subprocess.run(cmd, shell=True, capture_output=True, text=True, **kw)
    return p.returncode, (p.stdout + p.stderr)


try:
    rc, o = sh("git -C /repo worktree add --detach %s HEAD" % wt)
    assert rc == 0, o
    rc, o = sh("git -C %s apply %s" % (wt, a.patch))
    if rc != 0:
        rc, o = sh("cd %s && patch -p1 --fuzz=3 < %s" % (wt, a.patch))
    out["applies"] = rc == 0
    if rc != 0:
        out["apply_error"] = o[-400:]
    else:
        rc, o = sh("cd %s && /venv/bin/python -m pytest -q -p no:cacheprovider -x 2>&1 | tail -1" % wt)
        out["tests"] = o.strip()
        if a.demo and a.seed_dir:
            # run the demonstration where it was written (its own scratch worktree): without and with the change
            sd = a.seed_dir.rstrip("/")
            sh("git -C %s checkout -- ." % sd)
            rc2, o2 = sh("cd %s && PYTHONPATH=%s /venv/bin/python -W ignore %s" % (sd, sd, a.demo), timeout=900)
            out["demo_without_change_rc"] = rc2
            rca, oa = sh("git -C %s apply %s" % (sd, a.patch))
            rc, o = sh("cd %s && PYTHONPATH=%s /venv/bin/python -W ignore %s" % (sd, sd, a.demo), timeout=900)
            sh("git -C %s checkout -- ." % sd)
            out["demo_with_change_rc"] = rc if rca == 0 else "patch-did-not-apply-in-seed-dir"
            out["demo_with_change_tail"] = o.strip()[-300:]
        for pid in a.checks.split(","):
            env = dict(os.environ, VERIF_REPO=wt, VERIF_EVIDENCE_DIR=scratch, VERIF_REPLAY_DIR=scratch)
            p = subprocess.run(["/verif/check", pid, "--tier", a.tier], capture_output=True, text=True, env=env, cwd="/verif", timeout=3600)
            lines = [l for l in p.stdout.splitlines() if l.startswith("VIOLATION") or l.startswith("KNOWN-FINDING")]
            res = {"rc": p.returncode, "lines": lines, "summary": p.stdout.strip().splitlines()[-1] if p.stdout.strip() else p.stderr[-300:]}
            m = re.search(r"replay=(\S+)", " ".join(lines))
            if m and os.path.exists(m.group(1)):
                d = json.load(open(m.group(1)))
                res["replay_kind"] = d.get("kind")
                res["violation"] = d.get("violation") or d.get("no_longer_checks")
                res["case"] = json.dumps(d.get("case") or (d.get("disagreeing_case") or {}).get("case"))[:600]
            out["checks"][pid] = res
finally:
    sh("git -C /repo worktree remove --force %s" % wt)
    shutil.rmtree(scratch, ignore_errors=True)
    # restore the generated tables of /repo (a change to schemas/enums/classes rewrote them)
    sh("/venv/bin/python /verif/harness/gen_tables.py")
print(json.dumps(out, indent=1))
