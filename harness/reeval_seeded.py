#!/venv/bin/python
"""reeval_seeded.py [name ...] - run the current checks again on the stored seeded changes (/verif/seeded/<name>/patch.diff,
/verif/seeded/regress/*.diff) and update the verdicts in meta.json / regress/results.json.  Every trial uses a scratch
worktree of /repo HEAD (harness/try_mutant.py); /repo itself is never touched.  The change's own demonstration was
confirmed when it was stored (keep_mutants.py) and is not re-run here."""
import glob, json, os, subprocess, sys

REGRESS_CHECKS = {"C03-sorting-writer-stringency": "C03", "C04-entrez": "C04,C01", "C06-asserts": "C06", "C06-bool": "C06", "C06-separators": "C06",
                  "C07-truthiness": "C07", "C08-keys": "C08,C16", "C10-writer-contigs": "C10", "C11-overlap-contigs": "C11",
                  "C14-duplicates": "C14", "C14-rootfilter": "C14", "C15-setitem": "C15", "C06-empty-first-record": "C06,C02", "C06-column-line-before-validation": "C06,C03", "C18-codec-names-with-scheme": "C18", "C18-abandoned-iteration-fds": "C18", "C18-merging-close-stops-early": "C18", "C17-line-reader-offset": "C17,C13", "C02-uncarriable-names": "C02", "C15-huge-index": "C15", "C18-codec-live-keys": "C07,C18,C10", "C16-norestrictions": "C16",
                  "C17-colline": "C17", "C18-spill-close": "C18", "C20-class-identity": "C20", "C20-header-lists": "C20",
                  "C20-registry": "C20"}


def verdict(v):
    if any(l.startswith("VIOLATION") and "no-failing-input" not in l for l in v["lines"]):
        return "caught: " + str(v.get("violation"))[:200]
    if any(l.startswith("VIOLATION") for l in v["lines"]):
        return "reported without failing input"
    return "missed"


def trial(name, patch, checks):
    p = subprocess.run(["/verif/harness/try_mutant.py", name, patch, "--checks", checks], capture_output=True, text=True)
    try:
        return json.loads(p.stdout)
    except ValueError:
        return {"error": (p.stdout + p.stderr)[-400:], "checks": {}}


def head():
    return subprocess.run("git -C /repo rev-parse --short HEAD", shell=True, capture_output=True, text=True).stdout.strip()


want = set(sys.argv[1:])
for meta in sorted(glob.glob("/verif/seeded/C*/meta.json")):
    d = os.path.dirname(meta)
    name = os.path.basename(d)
    if want and name not in want:
        continue
    m = json.load(open(meta))
    checks = ",".join(m["checks"].keys())
    res = trial(name, d + "/patch.diff", checks)
    if not res.get("applies"):
        print(name, "patch does not apply / trial failed:", res.get("apply_error") or res.get("error"))
        continue
    for k, v in res["checks"].items():
        m["checks"][k] = {"verdict": verdict(v), "lines": [l.split(" replay=")[0] for l in v["lines"]], "failing_input": v.get("case"),
                          "summary": v.get("summary")}
    m["reevaluated"] = {"repo_head": head(), "tests_with_change": res.get("tests")}
    json.dump(m, open(meta, "w"), indent=1)
    print(name, {k: v["verdict"][:90] for k, v in m["checks"].items()}, flush=True)

rpath = "/verif/seeded/regress/results.json"
results = json.load(open(rpath)) if os.path.exists(rpath) else {}
for patch in sorted(glob.glob("/verif/seeded/regress/*.diff")):
    name = os.path.basename(patch)[:-5]
    if want and ("R-" + name) not in want and "regress" not in want:
        continue
    res = trial("R-" + name, patch, REGRESS_CHECKS.get(name, name[:3]))
    results[name] = {"applies": res.get("applies"), "tests_with_change": res.get("tests"), "repo_head": head(),
                     "checks": {k: {"verdict": verdict(v), "failing_input": v.get("case"), "summary": v.get("summary")} for k, v in res["checks"].items()}}
    json.dump(results, open(rpath, "w"), indent=1)
    print("R-" + name, {k: v["verdict"][:90] for k, v in results[name]["checks"].items()}, flush=True)
