#!/venv/bin/python -W ignore
"""cov_probe.py [PID ...] - which lines of /repo/maflib do the checks' implementation runs execute?
Development aid (not a registered check): runs corpus + a quarter of the quick budget of every plugin in-process under
coverage.py and prints, per source file, the lines no plugin reaches.  Blind spots are where seeded changes survive."""
import importlib, json, logging, os, random, sys, time
sys.path.insert(0, "/verif/harness"); sys.path.insert(0, "/verif/harness/props"); sys.path.insert(0, "/repo")
os.environ["PYTHONHASHSEED"] = "0"
import coverage
pids = sys.argv[1:] or ["C%02d" % i for i in range(1, 21)]
out = "/tmp/cov"
os.makedirs(out, exist_ok=True)
for pid in pids:
    cov = coverage.Coverage(data_file="%s/.coverage.%s" % (out, pid), include=["/repo/maflib/*"], branch=True)
    cov.start()
    import maflib  # noqa
    logging.disable(logging.CRITICAL)
    mod = importlib.import_module(pid)
    rng = random.Random(7)
    cases = list(mod.corpus()) + list(mod.generate(rng, max(50, mod.N_QUICK // 4)))
    t0 = time.time(); bad = 0
    for c in cases:
        if time.time() - t0 > 600:
            break
        try:
            mod.run_impl(c)
        except BaseException as e:
            bad += 1
    cov.stop(); cov.save()
    print(pid, len(cases), "cases", bad, "raised", round(time.time() - t0, 1), "s", flush=True)
