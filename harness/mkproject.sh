#!/bin/bash
# regenerate _CoqProject (all .v files under coq/) and the Makefile
set -e
cd /verif/coq
{ echo "-Q . MafVerif"; find lib gen model spec proofs props extract -name '*.v' 2>/dev/null | sort; } > _CoqProject.new
if ! cmp -s _CoqProject.new _CoqProject || [ ! -f Makefile ]; then
  mv _CoqProject.new _CoqProject
  coq_makefile -f _CoqProject -o Makefile >/dev/null
else
  rm -f _CoqProject.new
fi
