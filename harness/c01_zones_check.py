#!/venv/bin/python
"""Cross-check of the Coq zones (zone2 of coq/proofs/ColumnFacts2.v, extracted
through coq/extract/ExtractZones.v -> build/zones/run) against the harness'
executable statement of the same zones (harness/colspec.py).

Draws (descriptor, text) pairs with colgen's generators (valid-by-spec,
boundary, single-defect, adversarial streams) over every class descriptor,
every descriptor occurring in a pinned layout and the must-be-null mixes, runs
both, and reports disagreements on Accept/Reject (DontCare on either side is
fine; two Accepts must denote the same value).

usage: c01_zones_check.py [n_pairs=6000] [seed=0]
Not a registered check: a helper for the builder of C01's Coq zones.
build:  cd /verif/coq && coqc -Q . MafVerif extract/ExtractZones.v && /verif/harness/build_model.sh Zones
"""
import json
import os
import random
import subprocess
import sys

HERE = os.path.dirname(os.path.abspath(__file__))
sys.path.insert(0, HERE)
import colhost as H
import colspec as SP
import colgen as G
import sexp
from sexp import S

RUNNER = os.path.join(os.path.dirname(HERE), "build", "zones", "run")


def descr_to_model(d):
    k = d["k"]
    nullable = 1 if "null" in d else 0
    if k == "text":
        return [0, 1 if d.get("nonempty") else 0, nullable]
    if k == "int":
        return [1, ([] if d.get("lo") is None else [d["lo"]]), nullable]
    if k == "entrez":
        return [2]
    if k == "textorint":
        return [3]
    if k == "float":
        return [4, nullable]
    if k == "enum":
        return [5, S(d["enum"]), 1 if d.get("cap") else 0, [[S(key), idx] for key, idx in d.get("nulls", [])], nullable]
    if k == "dna":
        return [6, nullable]
    if k == "uuid":
        return [7, nullable]
    if k == "canonical":
        return [8]
    if k == "bool":
        return [9]
    if k == "strand":
        return [10]
    if k == "seq":
        return [11, descr_to_model(d["elem"])]
    if k == "mustnull":
        return [12, descr_to_model(d["base"])]
    raise ValueError(d)


def all_descrs():
    seen = {}
    for name, d in SP.spec()["classes"].items():
        seen.setdefault(json.dumps(d, sort_keys=True), (d, "class " + name))
    for annot, lay in SP.spec()["layouts"].items():
        for name, d in lay["columns"]:
            seen.setdefault(json.dumps(d, sort_keys=True), (d, "%s/%s" % (annot, name)))
    for m in G.MASKABLE:
        b = SP.spec()["classes"][m]
        d = {"k": "mustnull", "base": b}
        seen.setdefault(json.dumps(d, sort_keys=True), (d, "mustnull " + m))
    return [seen[k] for k in sorted(seen)]


def coq_zone_of(sx):
    if sx[0] == 0:
        return ("accept", H.value_from_model(sx[1]))
    if sx[0] == 1:
        return ("reject",)
    if sx[0] == 2:
        return ("dontcare",)
    return ("bad", sx)


def main():
    n = int(sys.argv[1]) if len(sys.argv) > 1 else 6000
    seed = int(sys.argv[2]) if len(sys.argv) > 2 else 0
    rng = random.Random(seed)
    descrs = all_descrs()
    pairs = []
    # every (descriptor, boundary/adversarial text) pair once, then random draws
    for d, where in descrs:
        for t in G.BOUNDARY + G.ADVERSARIAL:
            pairs.append((d, where, t, "grid"))
    while len(pairs) < n + len(descrs) * (len(G.BOUNDARY) + len(G.ADVERSARIAL)):
        d, where = rng.choice(descrs)
        stream = rng.choice(["valid", "valid", "boundary", "defect", "defect", "adversarial"])
        t = G.some_text(rng, d, stream)
        if any(c in t for c in "\t\r\n"):
            t = t.replace("\t", " ").replace("\n", " ").replace("\r", " ")
        pairs.append((d, where, t, stream))
    lines = []
    for d, where, t, stream in pairs:
        ft, ut = H.tables_to_model([t, t.capitalize()])
        lines.append(sexp.dumps([descr_to_model(d), S(t), ft, ut]))
    p = subprocess.run([RUNNER], input="\n".join(lines) + "\n", capture_output=True, text=True, timeout=600)
    outs = p.stdout.splitlines()
    if len(outs) != len(pairs):
        print("runner returned %d lines for %d cases; stderr: %s" % (len(outs), len(pairs), p.stderr[:500]))
        return 2
    table = {}
    bad = []
    for (d, where, t, stream), o in zip(pairs, outs):
        cz = coq_zone_of(sexp.loads(o))
        pz = SP.zone(d, t)
        pz = (pz[0], pz[1]) if pz[0] == "accept" else (pz[0],)
        key = (d["k"], cz[0], pz[0])
        table[key] = table.get(key, 0) + 1
        if cz[0] == "bad":
            bad.append(("model could not decode", where, d, t, cz, pz))
        elif cz[0] == "accept" and pz[0] == "accept":
            if cz[1] != pz[1]:
                bad.append(("both accept, different value", where, d, t, cz, pz))
        elif {cz[0], pz[0]} == {"accept", "reject"}:
            bad.append(("accept/reject", where, d, t, cz, pz))
    print("pairs: %d  (descriptors: %d, seed %d)" % (len(pairs), len(descrs), seed))
    print("kind            coq        colspec    count")
    for key in sorted(table):
        print("%-15s %-10s %-10s %d" % (key[0], key[1], key[2], table[key]))
    agree = sum(c for (k, a, b), c in table.items() if a == b and a != "dontcare")
    dc = sum(c for (k, a, b), c in table.items() if "dontcare" in (a, b))
    print("both decided and agree: %d ; don't-care on a side: %d ; disagreements: %d" % (agree - sum(1 for b in bad if b[0].startswith('both')), dc, len(bad)))
    for b in bad[:40]:
        print("DISAGREE %s | %s | descr=%s | text=%r | coq=%s | colspec=%s" % (b[0], b[1], json.dumps(b[2], sort_keys=True), b[3], b[4], b[5]))
    return 1 if bad else 0


if __name__ == "__main__":
    sys.exit(main())
