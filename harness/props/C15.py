"""C15 - A record stays coherent under any sequence of column edits."""
from sexp import S, U, OPT

PID = "C15"
CLUSTER = "Record"
PROPS = "props/C15.v"
N_QUICK = 1500
N_THOROUGH = 30000
RULE = ("operation sequences (1-14 ops) of set/add/delete on an empty MafRecord over 5 names, "
        "indexes -2..6, explicit/implicit column_index, the four key forms plus None/float keys; operands are new "
        "column objects, objects created earlier in the history, or the object stored in a slot (aliasing); "
        "four streams: mostly-valid, index-clash heavy, adversarial, aliasing-heavy; a case is non-trivial when at "
        "least two operations succeed and the record is non-empty at some point; distinct by hash of the op list")
ASSUMPTIONS = ["column indexes beyond what a list can hold (10**13 and up) fail with MemoryError/OverflowError in the real code; the "
               "model has unbounded lists, so those histories are judged by the oracle only (a failed operation changes nothing)",
               "column objects are edited only through the record's own operations (the caller re-uses objects - "
               "modelled - but does not assign to their attributes behind the record's back)",
               "column payloads are integers (their text has no TAB)"]

EXC = {"KeyError": 1, "ValueError": 2, "TypeError": 3, "IndexError": 4, "AssertionError": 5, "MemoryError": 6, "OverflowError": 7}
NAMES = ["A", "B", "C", "D", "E"]


# ------------------------------------------------------------ generation
def _col(rng, stream):
    name = rng.choice(NAMES)
    r = rng.random()
    if stream == "valid":
        idx = None if r < 0.6 else rng.randint(0, 6)
    elif stream == "clash":
        idx = None if r < 0.25 else rng.randint(0, 3)
    else:
        idx = None if r < 0.3 else rng.randint(-2, 7)
    return [name, idx, rng.randint(0, 999)]


def _key(rng, col, stream):
    r = rng.random()
    name = col[0]
    if stream != "valid" and r < 0.12:
        name = rng.choice(NAMES)
    if r < 0.35:
        return ["str", name]
    if r < 0.7:
        if col[1] is not None and rng.random() < 0.7:
            return ["int", col[1]]
        return ["int", rng.randint(-1 if stream == "adv" else 0, 6)]
    if r < 0.9:
        return ["col", [name, rng.choice([None, 0, 1, 2]), 0]]
    return [rng.choice(["none", "other"])] if stream == "adv" else ["str", name]


def _operand(rng, stream, made):
    """a column operand: literal (new object), ["ref", h] (h-th object made so far), ["slot", j]"""
    p = {"alias": 0.5, "adv": 0.15, "clash": 0.1, "valid": 0.05}[stream]
    if rng.random() < p:
        if made[0] and rng.random() < 0.6:
            return ["ref", rng.randrange(made[0])]
        return ["slot", rng.randint(0, 5)]
    made[0] += 1
    return _col(rng, "clash" if stream == "alias" else stream)


def _gen_one(rng):
    stream = rng.choice(["valid", "valid", "clash", "adv", "alias"])
    ops = []
    made = [0]
    for _ in range(rng.randint(1, 14)):
        r = rng.random()
        if r < 0.45:
            c = _operand(rng, stream, made)
            lit = c if len(c) == 3 else [rng.choice(NAMES), rng.choice([None, 0, 1, 2]), 0]
            k = _key(rng, lit, "clash" if stream == "alias" else stream)
            if k[0] == "col":
                if stream == "alias" and rng.random() < 0.5:
                    k = ["col", c if len(c) == 2 else ["slot", rng.randint(0, 4)]]
                else:
                    made[0] += 1
            ops.append(["set", k, c])
        elif r < 0.65:
            ops.append(["add", _operand(rng, stream, made)])
        else:
            c = [rng.choice(NAMES), None, 0]
            k = _key(rng, c, "clash" if stream == "alias" else stream)
            if k[0] == "col":
                if stream == "alias" and rng.random() < 0.6:
                    k = ["col", ["slot", rng.randint(0, 5)] if rng.random() < 0.5 or not made[0] else ["ref", rng.randrange(made[0])]]
                else:
                    made[0] += 1
            ops.append(["del", k])
    return {"stream": stream, "ops": ops}


HUGE = [10 ** 13, 2 ** 62, 2 ** 63, 10 ** 30]


def _gen_huge(rng):
    """an index no list can be padded to (MemoryError / OverflowError at once, nothing is allocated): the operation
    fails and must change nothing.  The model is about unbounded lists and is not asked (oracle only)."""
    c = _gen_one(rng)
    ops = c["ops"][: rng.randint(0, 6)]
    big = rng.choice(HUGE)
    name = rng.choice(NAMES)
    form = rng.random()
    if form < 0.4:
        ops.append(["set", ["str", name], [name, big, 1]])
    elif form < 0.7:
        ops.append(["add", [name, big, 1]])
    else:
        ops.append(["set", ["int", big], [name, rng.choice([None, big]), 1]])
    ops.extend(_gen_one(rng)["ops"][:3])
    return {"stream": "huge", "ops": ops}


def _gen_wide(rng):
    """a record of 255-300 columns (CPython shares int objects only up to 256: identity tests on indexes pass below
    that width and fail above it), then the usual edits at its far end"""
    w = rng.choice([255, 256, 257, 258, 259, 300])
    ops = [["add", ["W%d" % i, rng.choice([None, None, i]), i]] for i in range(w)]
    last = "W%d" % (w - 1)
    tail = [["del", rng.choice([["str", last], ["int", w - 1], ["col", [last, None, 0]]])],
            ["add", ["Z", None, 1]],
            ["set", ["int", w - 1], ["Y", rng.choice([None, w - 1]), 2]],
            ["del", ["int", w - 2]], ["del", ["str", "Z"]], ["set", ["str", "W3"], ["W3", 3, 9]],
            ["set", ["int", w + 1], ["V", None, 3]], ["del", ["str", "V"]]]
    rng.shuffle(tail)
    return {"stream": "wide", "ops": ops + tail[: rng.randint(2, len(tail))]}


def skip_compare(case):
    return case["stream"] == "huge"


def generate(rng, n):
    out = []
    for _ in range(n):
        r0 = rng.random()
        c = _gen_huge(rng) if r0 < 0.04 else (_gen_wide(rng) if r0 < 0.045 else _gen_one(rng))
        if rng.random() < 0.4:
            c["typed"] = True      # shipped column classes holding null / empty / zero values; `+=` instead of add()
        out.append(c)
    return out


def corpus():
    return [
        {"stream": "corpus", "ops": [["set", ["int", 0], ["A", None, 1]], ["set", ["int", 0], ["B", None, 2]]]},
        {"stream": "corpus", "ops": [["set", ["str", "A"], ["A", -1, 1]]]},
        {"stream": "corpus", "ops": [["set", ["str", "A"], ["A", 0, 1]], ["set", ["str", "B"], ["B", -1, 1]]]},
        {"stream": "corpus", "ops": [["add", ["A", 3, 1]], ["add", ["B", None, 2]], ["del", ["int", 4]], ["del", ["str", "A"]]]},
        {"stream": "corpus", "ops": [["add", ["A", 1, 1]], ["set", ["str", "B"], ["B", 1, 2]], ["del", ["int", 0]]]},
        # aliasing: the stored object addressed by another integer; an object re-used after a failing set
        {"stream": "corpus", "ops": [["add", ["A", None, 1]], ["add", ["B", None, 2]], ["set", ["int", 5], ["slot", 0]]]},
        {"stream": "corpus", "ops": [["add", ["A", None, 1]], ["set", ["int", 0], ["B", None, 2]], ["add", ["ref", 1]],
                                     ["set", ["col", ["ref", 0]], ["slot", 0]], ["del", ["col", ["slot", 0]]], ["add", ["ref", 0]]]},
        {"stream": "huge", "ops": [["add", ["A", None, 1]], ["set", ["str", "B"], ["B", 10 ** 13, 2]], ["add", ["C", None, 3]]]},
        {"stream": "wide", "ops": [["add", ["W%d" % i, None, i]] for i in range(258)] + [["del", ["str", "W257"]], ["add", ["Z", None, 1]]]},
        {"stream": "corpus", "ops": [["set", ["int", 3], ["A", None, 1]], ["del", ["int", 3]], ["set", ["int", 1], ["ref", 0]],
                                     ["set", ["int", 3], ["ref", 0]]]},
    ]


def shrink(case):
    ops = case["ops"]
    for i in range(len(ops)):
        yield dict(case, ops=ops[:i] + ops[i + 1:])


# ------------------------------------------------------------ model wire
def _mcol(c):
    if c[0] == "ref" and len(c) == 2:
        return [9, c[1]]
    if c[0] == "slot" and len(c) == 2:
        return [8, c[1]]
    return [S(c[0]), OPT(c[1]), c[2]]


def _mkey(k):
    t = k[0]
    if t == "int":
        return [0, k[1]]
    if t == "str":
        return [1, S(k[1])]
    if t == "col":
        return [2, _mcol(k[1])]
    return [3] if t == "none" else [4]


def to_model(case):
    out = []
    if case["stream"] == "huge":
        return out           # not asked: the model would pad a list to 10**13 entries
    for op in case["ops"]:
        if op[0] == "set":
            out.append([0, _mkey(op[1]), _mcol(op[2])])
        elif op[0] == "add":
            out.append([1, _mcol(op[1])])
        else:
            out.append([2, _mkey(op[1])])
    return out


def _dcol(s):
    return [U(s[0]), (s[1][0] if s[1] else None), s[2]]


def from_model(case, sx):
    out = []
    for outcome, obs in sx:
        ln, names, d, lst, pool = obs
        out.append({
            "pool": [_dcol(x) for x in pool],
            "exc": (outcome[0] if outcome else None),
            "len": ln,
            "names": [U(x[0]) if x else None for x in names],
            "dict": [[U(k), _dcol(c)] for k, c in d],
            "list": [(_dcol(x[0]) if x else None) for x in lst],
        })
    return {"steps": out}


# ------------------------------------------------------------ implementation
def _pubobs(r):
    """what the public API shows"""
    names = list(r)
    look = {}
    for nm in NAMES:
        try:
            c = r[nm]
            look[nm] = [c.key, c.column_index, getattr(c, "_vid", c.value)]
        except KeyError:
            look[nm] = None
    return [len(r), names, look, str(r)]


def run_impl(case):
    from maflib.record import MafRecord
    from maflib.column import MafColumnRecord
    from maflib import column_types as CT

    pool = []
    # shipped column classes with null / empty / zero values: whether a slot is occupied must not depend on the
    # truth value, length or equality of what it holds
    typed = [lambda k, i: CT.SequenceOfStrings.build(k, "", column_index=i), lambda k, i: CT.NullableStringColumn.build(k, "", column_index=i),
             lambda k, i: CT.SequenceOfIntegers.build(k, "1;2", column_index=i), lambda k, i: CT.IntegerColumn.build(k, "0", column_index=i),
             lambda k, i: CT.EntrezGeneId.build(k, "0", column_index=i), lambda k, i: CT.StringColumn.build(k, "", column_index=i),
             lambda k, i: CT.NullableYesOrNo.build(k, "", column_index=i), lambda k, i: CT.BooleanColumn.build(k, "False", column_index=i),
             lambda k, i: CT.SequenceOfStrings.build(k, "a;b", column_index=i)]

    def val(c):
        return getattr(c, "_vid", c.value)

    def mk(c):
        if len(c) == 2 and c[0] == "ref":
            if pool:
                return pool[c[1] % len(pool)]
            c = ["A", None, 0]
        elif len(c) == 2 and c[0] == "slot":
            lst = getattr(r, "_MafRecord__columns_list")
            if 0 <= c[1] < len(lst) and lst[c[1]] is not None:
                return lst[c[1]]
            c = ["A", None, 0]
        if case.get("typed"):
            o = typed[c[2] % len(typed)](c[0], c[1])
            o._vid = c[2]
        else:
            o = MafColumnRecord(key=c[0], value=c[2], column_index=c[1])
        pool.append(o)
        return o

    def key(k):
        t = k[0]
        return {"int": lambda: k[1], "str": lambda: k[1], "col": lambda: mk(k[1]),
                "none": lambda: None, "other": lambda: 4.5}[t]()

    r = MafRecord()
    steps = []
    checks = []
    for n, op in enumerate(case["ops"]):
        before = _pubobs(r)
        exc = None
        try:
            if op[0] == "set":
                kk = key(op[1])          # objects are created key first, then operand (as in the model)
                cc = mk(op[2])
                r[kk] = cc
            elif op[0] == "add":
                if case.get("typed"):
                    r += mk(op[1])
                else:
                    r.add(mk(op[1]))
            else:
                del r[key(op[1])]
        except Exception as e:
            exc = EXC.get(type(e).__name__, type(e).__name__)
        d = getattr(r, "_MafRecord__columns_dict")
        lst = getattr(r, "_MafRecord__columns_list")
        steps.append({
            "pool": [[c.key, c.column_index, val(c)] for c in pool],
            "exc": exc, "len": len(r), "names": list(r),
            "dict": [[k, [c.key, c.column_index, val(c)]] for k, c in d.items()],
            "list": [([c.key, c.column_index, val(c)] if c is not None else None) for c in lst],
        })
        # property-level observations through the public API only
        after = _pubobs(r)
        prob = []
        if exc is not None and after != before:
            prob.append("failed-op-changed-record")
        names = after[1]
        if len(r) != len(names):
            prob.append("len-vs-iter")
        if names and names[-1] is None:
            prob.append("trailing-empty-slot")
        for i, nm in enumerate(names):
            ci = r[i]
            if nm is None:
                if ci is not None:
                    prob.append("iter-none-but-slot-occupied")
                continue
            if ci is None or ci.key != nm:
                prob.append("iter-name-vs-slot")
                continue
            if ci.column_index != i:
                prob.append("stored-index-differs-from-slot")
            try:
                if r[nm] is not ci:
                    prob.append("name-lookup-differs-from-index-lookup")
            except KeyError:
                prob.append("slot-name-not-found-by-name")
        for nm in NAMES:
            try:
                c = r[nm]
            except KeyError:
                if nm in names:
                    prob.append("name-listed-but-lookup-fails")
                continue
            idx = c.column_index
            if not isinstance(idx, int) or idx < 0 or idx >= len(names) or names[idx] != nm or r[idx] is not c:
                prob.append("name-lookup-not-in-its-slot")
        text = str(r)
        nf = len(text.split("\t"))
        if nf != max(len(r), 1):
            prob.append("render-field-count")
        else:
            # the rendering has one field per position: field i is what position i holds
            want = [("None" if r[i] is None else str(r[i])) for i in range(len(r))]
            if len(r) and all("\t" not in w for w in want) and text.split("\t") != want:
                prob.append("render-field-is-not-its-position")
        try:
            r.validate()
        except AssertionError:
            prob.append("validate-internal-assertion")
        except Exception as e:
            prob.append("validate-raised-" + type(e).__name__)
        checks.append(sorted(set(prob)))
    return {"steps": steps, "_checks": checks}


# the correspondence compares only "steps"; "_checks" feeds the oracle
def comparable(obs):
    return {"steps": obs["steps"]}


def oracle(case, obs):
    out = []
    for n, probs in enumerate(obs.get("_checks", [])):
        for p in probs:
            out.append("%s after op %d %s" % (p, n, case["ops"][n][0]))
    return out


def signature(case, violation):
    return violation.split(" ")[0]


def classify(case, obs):
    if obs is None:
        return case["stream"] + "/error"
    nfail = sum(1 for s in obs["steps"] if s["exc"] is not None)
    return "%s/ops=%s/failed=%s" % (case["stream"], "1-4" if len(case["ops"]) < 5 else "5-14", "0" if nfail == 0 else "1+")


def nontrivial(case, obs):
    ok = sum(1 for s in obs["steps"] if s["exc"] is None)
    return ok >= 2 and any(s["len"] > 0 for s in obs["steps"])
