"""C12 - Allele-aware overlap iteration returns exactly the allele-compatible records."""
import C11 as K
from C11 import ID, TRU, TUM, NOR, CHR, ST, EN, REF, ALTS

PID = "C12"
CLUSTER = "Overlap"
PROPS = "props/C12.v"
N_QUICK = 2500
N_THOROUGH = 40000
RULE = ("the configurations of C11 (1-4 inputs, intervals on chr1/chr2/chr10, both grouping modes, contigs +/-, "
        "plain LocatableByAllele objects, scheme-less MafRecords and gdc-1.0.0 MafRecords read under Silent, whose "
        "alts is the real [Tumor_Seq_Allele2] incl. the empty cell) with reference alleles from {A,C,G} and "
        "alternate-allele lists that are empty, single, repeated, permuted, overlapping or contained, under each "
        "of the three relations (Equality also as the constructor's default), driven through next(it) / it.next() / both; "
        "inputs of mixed kinds (plain LocatableByAllele vs MafRecord); records whose Reference_Allele was edited "
        "in place after an earlier allele-aware pass; MafReader inputs; a long-sparse stream (1100-3000 consecutive groups without first-input record); streams: valid, allele-dense (one locus, many allele classes), single defect "
        "(descent / name-sorted under contigs), adversarial (false records, shuffled inputs, no inputs). "
        "Non-trivial: a positional group whose first slot splits into >= 2 allele classes, or another input's "
        "slot from which the filter removes some but not all records; distinct by hash.")
ASSUMPTIONS = K.ASSUMPTIONS + [
    "reference alleles are text and alternate alleles are lists of text (MafRecord.alts is always the one-element list [Tumor_Seq_Allele2])",
    "intervals with start > end are not generated for this property: the real __next__ would loop for ever while skipping all-empty groups (the model reports OutOfFuel)",
]

REL = {0: "equality", 1: "intersects", 2: "subset"}


# ---------------------------------------------------------------- independent oracle
def compat(otype, a, b):
    """documented test: same reference allele and the selected relation between alt lists (a: first input's record)"""
    if a[REF] != b[REF]:
        return False
    base, other = a[ALTS], b[ALTS]
    if otype == 0:
        return list(base) == list(other)
    if otype == 1:
        return bool(set(base) & set(other)) or list(base) == list(other)
    return set(other) <= set(base)


def expected(case):
    """positional overlap-chain classes in key order, then greedy allele classes of slot 0 and the filter of the others"""
    inputs = case["inputs"]
    universe = [r for inp in inputs for r in inp]
    byid = {r[ID]: r for r in universe}
    classes = sorted(K.chain_classes(case, universe), key=lambda c: min(K.okey(case, byid[x]) for x in c))
    out = []
    for cl in classes:
        slots = [[r for r in inp if r[ID] in cl] for inp in inputs]
        if not slots or not slots[0]:
            continue
        acls = []
        for r in slots[0]:
            for c in acls:
                if any(compat(case["otype"], m, r) for m in c):
                    c.append(r)
                    break
            else:
                acls.append([r])
        for c in acls:
            out.append([[r[ID] for r in c]] +
                       [[r[ID] for r in s if any(compat(case["otype"], m, r) for m in c)] for s in slots[1:]])
    return out


def oracle(case, obs):
    if not K.in_domain(case):
        return []
    desc = [K.first_descent(case, inp) for inp in case["inputs"]]
    sorted_all = all(d is None for d in desc)
    if obs["init"][0] != 0:
        return ["constructor-raised-on-sorted-inputs"] if sorted_all else []
    groups = []
    first_exc = None
    for o, _ in obs["steps"]:
        if o[0] == 0:
            groups.append(o[1])
        else:
            first_exc = o[1]
            break
    if not sorted_all:
        return [] if first_exc not in (None, 6) else ["unsorted-input-not-reported"]
    if first_exc != 6:
        return ["sorted-input-run-ended-with exc=%s" % first_exc]
    want = expected(case)
    if groups == want:
        return []
    out = []
    first = [x for g in groups for x in g[0]] if all(g for g in groups) else None
    in0 = [r[ID] for r in case["inputs"][0]] if case["inputs"] else []
    if first is None or sorted(first) != sorted(in0):
        out.append("first-input-records-not-returned-exactly-once")
    if len(groups) != len(want):
        out.append("wrong-number-of-allele-groups")
    else:
        for g, w in zip(groups, want):
            if g[0] != w[0]:
                out.append("first-slot-is-not-the-allele-class")
                break
        for g, w in zip(groups, want):
            if g[0] == w[0] and g[1:] != w[1:]:
                extra = any(set(a) - set(b) for a, b in zip(g[1:], w[1:]))
                out.append("other-slot-returns-incompatible-record" if extra else "other-slot-omits-compatible-record")
                break
    return out or ["allele-groups-differ-from-specification"]


def signature(case, violation):
    return violation.split(" ")[0]


def classify(case, obs):
    if obs is None:
        return case["stream"] + "/error"
    dom = "dom" if K.in_domain(case) else "outside"
    srt = "-"
    if dom == "dom":
        srt = "sorted" if all(K.first_descent(case, i) is None for i in case["inputs"]) else "unsorted"
    return "%s/%s/%s/%s/%s" % (case["stream"], REL[case["otype"]], "bar" if case["by_barcodes"] else "coord", dom, srt)


def nontrivial(case, obs):
    if not K.in_domain(case) or any(K.first_descent(case, i) is not None for i in case["inputs"]):
        return False
    want = expected(case)
    firsts = {}
    byid = {r[ID]: r for inp in case["inputs"] for r in inp}
    classes = K.chain_classes(case, list(byid.values()))
    pos = {x: c for c in classes for x in c}
    for g in want:
        firsts.setdefault(pos[g[0][0]], []).append(g)
    split = any(len(v) >= 2 for v in firsts.values())
    partial = False
    for cl, gs in firsts.items():
        for j, inp in enumerate(case["inputs"][1:], 1):
            avail = [r[ID] for r in inp if r[ID] in cl]
            for g in gs:
                if 0 < len(g[j]) < len(avail):
                    partial = True
    return split or partial


# ---------------------------------------------------------------- generation
def _dense(rng):
    """one locus (or two), many allele classes"""
    nin = rng.choice([1, 2, 3])
    inputs = []
    for _ in range(nin):
        recs = []
        for _ in range(rng.randint(1, 5)):
            a = rng.choice([3, 3, 4])
            b = a + rng.choice([0, 1, 2])
            pool = ["A", "C", "G", "T"]
            alts = rng.choice([[], ["A"], ["C"], ["A", "C"], ["C", "A"], ["A", "C", "G"], ["A", "A"], ["G"], ["T", "G"]])
            if rng.random() < 0.2:
                alts = [rng.choice(pool) for _ in range(rng.randint(0, 3))]
            recs.append([0, True, "T1", "N1", rng.choice(["chr1", "chr1", "chr2"]), a, b, rng.choice(["A", "A", "C"]), list(alts)])
        inputs.append(recs)
    q = rng.random()
    rectype = "maf" if q < 0.25 else "gdc" if q < 0.45 else "loc"
    otype = rng.randrange(3)
    if rectype != "loc":
        # real MafRecords: alts is [Tumor_Seq_Allele2]; empty cells next to filled ones, Subset favoured
        otype = rng.choice([0, 1, 2, 2, 2])
        for recs in inputs:
            for r in recs:
                r[ALTS] = rng.choice([[], [], ["A"], ["C"], ["G"], ["T"]])
    case = K._mkcase(rng, "dense", inputs, rng.random() < 0.3, rng.choice([None, list(K.KARYO)]),
                     rectype, 1, otype)
    K.vary_call(rng, case)
    if otype == 0 and rng.random() < 0.6:
        case["defaults"] = True        # built without overlap_type: the documented default is Equality
    return K.fix_ids(K._sort_inputs(case))


def mixed_kinds(rng, case):
    """plain LocatableByAllele objects in some inputs, real MafRecords in others (a list of known variants
    against a MAF): the relations compare their alternate alleles all the same"""
    if case["rectype"] != "loc" or len(case["inputs"]) < 2 or any(
            r[TUM] is None or r[NOR] is None for inp in case["inputs"] for r in inp):
        return case
    kinds = [rng.choice(["loc", "maf"]) for _ in case["inputs"]]
    if len(set(kinds)) == 1:
        kinds[0] = "maf" if kinds[0] == "loc" else "loc"
    case["rectypes"] = kinds
    for inp, k in zip(case["inputs"], kinds):
        for r in inp:
            if k == "maf":
                r[ALTS] = r[ALTS][:1] if r[ALTS] else [""]
            elif len(r[ALTS]) > 1 and rng.random() < 0.7:
                r[ALTS] = r[ALTS][:1]            # single alleles on both sides so that Equality can hold
    if rng.random() < 0.6:
        case["otype"] = 0
    return case


def edited_refs(rng, case):
    """the records have been through an allele-aware pass before and their Reference_Allele was then
    edited in place: the iterator must see the current value"""
    if case["rectype"] not in ("maf", "gdc") or case.get("rectypes"):
        return case
    recs = [r for inp in case["inputs"] for r in inp if r[TRU]]
    if not recs:
        return case
    before = []
    for r in rng.sample(recs, min(len(recs), rng.choice([1, 2, 3]))):
        before.append([r[ID], rng.choice([x for x in ["A", "C", "G"] if x != r[REF]])])
    case["ref_before"] = before
    return case


def generate(rng, n):
    out = _generate(rng, n)
    for k, c in enumerate(out):
        if c.get("stream") == "long-sparse":
            continue
        if k % 7 == 2:
            out[k] = mixed_kinds(rng, c)
        elif k % 7 == 4:
            out[k] = edited_refs(rng, c)
        elif k % 7 == 6:
            out[k] = K.as_readers(rng, c)
    return out


def _generate(rng, n):
    out = []
    for k in range(n):
        r = k % 10
        ot = rng.randrange(3)
        if k % 800 == 7:
            out.append(K.gen_long_sparse(rng, 1, ot))
        elif r < 3:
            out.append(K.gen_valid(rng, 1, ot))
        elif r < 6:
            out.append(_dense(rng))
        elif r < 7:
            out.append(K.gen_boundary(rng, 1, ot))
        elif r < 9:
            out.append(K.gen_defect(rng, 1, ot))
        else:
            out.append(K.gen_adversarial(rng, 1, ot))
    return out


def corpus():
    R = K._r
    out = []
    for ot in (0, 1, 2):
        # one locus, classes {A>C,C}, {A>G}; second input filtered; third group has an empty first slot
        out.append(K.fix_ids({"stream": "corpus", "kind": 1, "otype": ot, "by_barcodes": False, "contigs": None, "rectype": "loc",
                              "inputs": [[R(0, "chr1", 5, 5, alts=("C",)), R(0, "chr1", 5, 5, alts=("G",)),
                                          R(0, "chr1", 5, 6, alts=("C", "G")), R(0, "chr1", 5, 7, ref="C", alts=("C",))],
                                         [R(0, "chr1", 5, 5, alts=("G", "C")), R(0, "chr1", 5, 5, alts=()),
                                          R(0, "chr1", 6, 6, alts=("C",)), R(0, "chr1", 20, 21, alts=("C",))]],
                              "calls": 0}))
    # r3: the documented default relation is Equality (iterator built without overlap_type); .next() is the
    # allele-aware __next__; a run of positional groups without first-input record is skipped inside one call
    for via in (0, 1, 2):
        out.append(K.fix_ids({"stream": "corpus", "kind": 1, "otype": 0, "by_barcodes": True, "contigs": None, "rectype": "loc",
                              "defaults": True, "via": via,
                              "inputs": [[R(0, "chr1", 5, 5, alts=("C", "G")), R(0, "chr1", 5, 5, alts=("G",)), R(0, "chr1", 5, 6, alts=("G", "C"))],
                                         [R(0, "chr1", 5, 5, alts=("C",)), R(0, "chr1", 5, 5, alts=()), R(0, "chr1", 6, 6, alts=("C", "G"))]],
                              "calls": 0}))
    out.append(K.gen_long_sparse(__import__("random").Random(5), 1, 0, 1300))
    # r4: plain LocatableByAllele against MafRecord under Equality; a reference allele edited in place after an
    # earlier pass; typed reading of a file in the published gdc-1.0.0 column order (alts = Tumor_Seq_Allele2)
    out.append(K.fix_ids({"stream": "corpus", "kind": 1, "otype": 0, "by_barcodes": False, "contigs": None, "rectype": "loc",
                          "rectypes": ["loc", "maf"], "defaults": True,
                          "inputs": [[R(0, "chr1", 5, 5, t="", n="", alts=("C",)), R(0, "chr1", 5, 5, t="", n="", alts=("G",))],
                                     [R(0, "chr1", 5, 5, t="", n="", alts=("C",)), R(0, "chr1", 5, 6, t="", n="", alts=("T",))]],
                          "calls": 0}))
    out.append(K.fix_ids({"stream": "corpus", "kind": 1, "otype": 0, "by_barcodes": False, "contigs": None, "rectype": "maf",
                          "ref_before": [[0, "G"]],
                          "inputs": [[R(0, "chr1", 5, 5, ref="A", alts=("C",)), R(0, "chr1", 5, 5, ref="G", alts=("C",))],
                                     [R(0, "chr1", 5, 5, ref="A", alts=("C",)), R(0, "chr1", 5, 6, ref="G", alts=("C",))]],
                          "calls": 0}))
    out.append(K.fix_ids({"stream": "corpus", "kind": 1, "otype": 0, "by_barcodes": True, "contigs": None, "rectype": "gdc",
                          "inputs": [[R(0, "chr1", 5, 5, alts=("C",)), R(0, "chr1", 5, 5, alts=("G",))],
                                     [R(0, "chr1", 5, 5, alts=("A",)), R(0, "chr1", 5, 6, alts=("G",))]],
                          "calls": 0}))
    # r2: a real MafRecord with an empty Tumor_Seq_Allele2 has alts [""], which is not a subset of ["T"]
    for rt in ("maf",):
        out.append(K.fix_ids({"stream": "corpus", "kind": 1, "otype": 2, "by_barcodes": False, "contigs": None, "rectype": rt,
                              "inputs": [[R(0, "chr1", 5, 5, alts=("T",)), R(0, "chr1", 5, 5, alts=("",)), R(0, "chr1", 5, 6, alts=("G",))],
                                         [R(0, "chr1", 5, 5, alts=("",)), R(0, "chr1", 5, 5, alts=("T",)), R(0, "chr1", 6, 6, alts=("G",))]],
                              "calls": 0}))
    return out


shrink = K.shrink
to_model = K.to_model
from_model = K.from_model
run_impl = K.run_impl
