"""C13 - Header lines are parsed, diagnosed and printed faithfully.

Two kinds of cases, both through the public API only:
  header: MafHeader.from_lines(lines, mode) -> records / errors / accessors /
          str(record) lines / scheme(), then from_lines(printed lines) again;
  derive: MafReader over the pragma lines, MafHeader.from_reader(reader), then
          mutations applied to the derived header and afterwards to the
          reader's own header; both are observed after each phase.
Oracle (independent of the model): a classifier and a first-wins fold written
from the property statement give the expected records, their order, and the
(category, line) diagnostics; the header-level checks are recomputed from a
decision table over the kept pragmas; print-then-parse must give the same
records with no parse-stage diagnostic; the accessors must equal the kept
pragmas; a mutation of one header must not change str() of the other."""
import rd_common as R

PID = "C13"
CLUSTER = "Reader"
PROPS = "props/C13.v"
N_QUICK = 2200
N_THOROUGH = 40000
RULE = ("sequences of 0-7 header lines over the pragma grammar: start symbol, key (the four special keys, look-alikes, "
        "keys with '.', '#', TAB, non-ASCII), single-space separator, values with inner and trailing blanks "
        "(ASCII, U+0085, U+00A0, U+1680, U+2000-200A, U+2028/9, U+202F, U+205F, U+3000, \\x1c-\\x1f, and look-alikes that "
        "are not whitespace: U+200B, U+180E, U+FEFF), recognised/unrecognised version, annotation, sort order and "
        "contig values, duplicates anywhere; streams valid (distinct well-formed keys), single-defect (one malformed "
        "line of each category or one duplicate at every position), boundary (fixed list), adversarial (random mix, "
        "CR/LF inside lines); modes Strict/Lenient/Silent/default; plus derive cases (from_reader copy, 0-5 mutations "
        "of the copy then 0-5 of the source: replace/delete/assign value/assign key/append contig/new contigs) and op-sequence "
        "cases (a parsed or from_reader-derived header, 1-6 set/del/pop/clear/popitem operations and in-place `header[key].value = ...` edits through the "
        "MutableMapping API, validate()+accessors+scheme()+str() observed after every operation and compared with the "
        "same pragmas parsed afresh); LineReader cases (text in io.StringIO, MafHeader.from_line_reader, then line_number, "
        "peek_line and up to four read_line calls; empty lines inside and around the pragma block); argument cases "
        "(from_defaults and from_reader with every truthy/falsy combination of version, annotation, sort order by name "
        "or instance with and without own contigs, contigs, fasta_index= a scratch .fai; scheme_header_lines of the "
        "built-in schemes against from_defaults); LineReader iteration by next()/.next()/for and close(); report cases (a whole defective file read in Silent mode: "
        "reader.header().validation_errors after opening, after reading, and of a from_reader-derived header must be the "
        "header's own). "
        "non-trivial: at least two records kept, or a diagnostic reported, or a mutation applied; distinct by case hash")
ASSUMPTIONS = [
    "documented layouts: a (version, annotation) pair of the pinned spec (harness/spec_layouts.json) must name its scheme "
    "and pass the header checks; a version outside it (other than no-version) must be diagnosed - extra schemes registered "
    "by a deployment would need this oracle clause relaxed",
    "lib/Str.v is_space equals str.isspace on every code point (checked by an exhaustive sweep each run)",
    "the scheme registry ((version, annotation) pairs, which one is NoRestrictionsScheme) is read from all_schemes()",
    "fasta_index arguments of from_reader/from_defaults are not modelled",
    "copy.deepcopy copies every object reachable from the header once and shares nothing with the source (store model)",
]


def EXTRA_OBLIGATIONS(ctx):
    return [R.isspace_obligation()]


BOUNDARY = [
    [], [""], ["#"], ["# "], ["#  "], ["#k"], ["#k "], ["#k  "], ["#k v"], ["#k v "], ["#k  v"], ["# k v"], ["##k v"],
    ["#version gdc-1.0.0"], ["#version gdc-1.0.0", "#annotation.spec gdc-1.0.0-public"],
    ["#annotation.spec gdc-1.0.0-public"], ["#version gdc-1.0.0", "#annotation.spec gdc-1.0.0"],
    ["#version x", "#annotation.spec gdc-1.0.0-public"], ["#version no-version"],
    ["#version no-version", "#annotation.spec no-annotation-specification"],
    ["#annotation.spec no-annotation-specification"],
    ["#sort.order Coordinate"], ["#sort.order Coordinate", "#contigs chr1,chr2"],
    ["#contigs chr1,chr2", "#sort.order BarcodesAndCoordinate"], ["#contigs chr1,chr2", "#sort.order Unsorted"],
    ["#sort.order bogus", "#contigs a,b"], ["#sort.order bogus", "#sort.order Coordinate", "#contigs a"],
    ["#sort.order Coordinate", "#sort.order Unsorted", "#contigs a"], ["#contigs a", "#contigs b", "#sort.order Coordinate"],
    ["#contigs ,"], ["#contigs a,,b"], ["#contigs a, b "], ["#contigs  a"],
    ["#version gdc-1.0.0", "#version gdc-1.0.0"], ["#version x", "#version gdc-1.0.0"],
    ["#k v ", "#k v　"], ["#k  "], ["#k  ​"], ["#k v\x0b\x0c"], ["#k \x1c"], ["#k a\tb\t"],
    ["#version gdc-1.0.0 "], ["#Version gdc-1.0.0"], ["#version  gdc-1.0.0"], ["#sort.order  Coordinate"],
    ["#sort.order Coordinate "], ["#sort.order Coordinate\x00"], ["#k v", "x", "#j w"], ["x", "#k v"],
]


def _documented_cases():
    out = []
    for (v, a) in R.pinned_pairs():
        lines = ["#version " + v] + ([] if a == v else ["#annotation.spec " + a])
        out.append({"kind": "header", "stream": "documented", "mode": "Silent", "lines": lines})
    for v in ("gdc-1.0.1", "gdc-2.0.0", "gdc-1.0.0-public", "gdc-1.0.1-protected"):
        out.append({"kind": "header", "stream": "documented", "mode": "Silent", "lines": ["#version " + v]})
        out.append({"kind": "header", "stream": "documented", "mode": "Silent",
                    "lines": ["#version " + v, "#annotation.spec gdc-1.0.1-protected"]})
    return out


def _valid(rng):
    keys = rng.sample(["version", "annotation.spec", "sort.order", "contigs"] + R.GEN_KEYS, rng.randint(0, 6))
    return [R.gen_good_line(rng, k) for k in keys]


def _lines(rng, stream):
    if stream == "valid":
        return _valid(rng)
    if stream == "defect":
        ls = _valid(rng)
        p = rng.randrange(len(ls) + 1)
        if rng.random() < 0.6 or not ls:
            ls.insert(p, R.gen_bad_line(rng))
        else:
            src = rng.choice(ls)
            key = src[1:].split(" ", 1)[0]
            ls.insert(p, src if rng.random() < 0.4 else R.gen_good_line(rng, key))
        return ls
    n = rng.randint(0, 7)
    ls = [(R.gen_good_line(rng) if rng.random() < 0.65 else R.gen_bad_line(rng)) for _ in range(n)]
    if rng.random() < 0.15 and ls:
        i = rng.randrange(len(ls))
        ls[i] = ls[i] + rng.choice(["\n", "\r", "\nx", "\r\n", "\n#k v"])
    return ls


MUT_KEYS = ["version", "annotation.spec", "sort.order", "contigs", "center", "k", "new"]


def _muts(rng):
    out = []
    for _ in range(rng.randint(0, 5)):
        k = rng.choice(MUT_KEYS)
        t = rng.choice(["set", "del", "value", "key", "append", "append", "contigs"])
        if t == "set":
            out.append(["set", k, rng.choice(["v2", "gdc-1.0.0", "z z"])])
        elif t == "del":
            out.append(["del", k])
        elif t == "value":
            out.append(["value", k, rng.choice(["changed", "gdc-9"])])
        elif t == "key":
            out.append(["key", k, rng.choice(["renamed", "version"])])
        elif t == "append":
            out.append(["append", rng.choice(["contigs", "sort.order", k]), rng.choice(["chrM", "extra"])])
        else:
            out.append(["contigs", rng.sample(["c1", "c2", "c3"], rng.randint(1, 3))])
    return out


OP_KEYS = ["version", "annotation.spec", "sort.order", "contigs", "center", "k"]


def _hops(rng, present):
    """0-6 operations through the MutableMapping API; values are ones str() prints and from_lines reads back"""
    out = []
    keys = list(present)
    for _ in range(rng.randint(1, 6)):
        r = rng.random()
        if r < 0.45 and keys:
            k = rng.choice(keys) if rng.random() < 0.85 else rng.choice(OP_KEYS)
            out.append([rng.choice(["del", "pop"]), k])
            if k in keys:
                keys.remove(k)
        elif r < 0.5:
            out.append(["clear"])
            keys = []
        elif r < 0.55:
            out.append(["popitem"])
            keys = keys[1:]
        elif r < 0.7:
            # edit the stored record object in place (text-valued keys only)
            k = rng.choice(["version", "annotation.spec", "center", "k"])
            v = (rng.choice(["gdc-1.0.0", "v9", "no-version"]) if k == "version"
                 else rng.choice(["gdc-1.0.0-public", "gdc-1.0.0", "junk"]) if k == "annotation.spec" else "edited")
            out.append(["value", k, v])
        else:
            k = rng.choice(OP_KEYS)
            if k == "version":
                v = ["t", rng.choice(["gdc-1.0.0", "gdc-1.0.0", "v9", "no-version"])]
            elif k == "annotation.spec":
                v = ["t", rng.choice(["gdc-1.0.0-public", "gdc-1.0.0-protected", "gdc-1.0.0", "junk"])]
            elif k == "sort.order":
                v = ["o", rng.choice(R.SORT_NAMES), rng.choice([None, None, ["c1", "c2"]])]
            elif k == "contigs":
                v = ["c", rng.sample(["chr1", "chr2", "chr3"], rng.randint(1, 3))]
            else:
                v = ["t", rng.choice(["x", "a b", "1.0"])]
            out.append(["set", k, v])
            if k not in keys:
                keys.append(k)
    return out


def _ops_case(rng):
    flavour = rng.choice(["basic", "annotated", "annotated", "unknown", "random"])
    if flavour == "basic":
        ls = ["#version gdc-1.0.0"]
    elif flavour == "annotated":
        ls = ["#version gdc-1.0.0", "#annotation.spec " + rng.choice(R.ANNOTS_OK)]
    elif flavour == "unknown":
        ls = ["#version v1", "#annotation.spec zz"]
    else:
        ls = []
    extra = [l for l in _valid(rng) if l.startswith("#") and "\n" not in l and "\r" not in l
             and l[1:].split(" ", 1)[0] not in [x[1:].split(" ", 1)[0] for x in ls]]
    ls = ls + extra[:rng.randint(0, 3)]
    rng.shuffle(ls)
    present = [l[1:].split(" ", 1)[0] for l in ls]
    return {"kind": "ops", "stream": "ops", "lines": ls, "derive": rng.random() < 0.4, "ops": _hops(rng, present)}


def _lr_case(rng):
    """LineReader over a text: a pragma block (possibly with malformed lines), then - sometimes - an empty line,
    a column line, data, further pragmas"""
    ls = _valid(rng) if rng.random() < 0.6 else _lines(rng, "defect")
    ls = [l for l in ls if "\n" not in l and "\r" not in l]
    r = rng.random()
    if r < 0.25 and ls:
        ls.insert(rng.randrange(len(ls) + 1), "")          # an empty line inside / around the pragma block
    tail = rng.choice([[], ["a\tb"], ["a\tb", "1\t2"], ["", "#late v"], ["x", "#late v", ""], ["#k2 v2", "", "a"]])
    # lines read with read_line() before the header: a preamble, or the first pragmas themselves
    pre = 0
    head = []
    r = rng.random()
    if r < 0.3:
        head = rng.choice([["preamble"], ["x", "y"], ["p1", "p2", "p3"], ["title", ""]])
        pre = rng.randint(0, len(head) + 1)
    elif r < 0.45:
        pre = rng.randint(1, 3)
    return {"kind": "linereader", "stream": "linereader", "lines": head + ls + tail,
            "mode": rng.choice(["Silent", "Lenient", "Strict", None]),
            "reads": rng.randint(0, 4), "last_eol": rng.random() < 0.8, "pre": pre}


def _hdr_report_case(rng):
    """a whole file with errors beyond the header (column line, data lines): the header's own report must stay
    the header's"""
    c = R.gen_reader_case(rng, rng.choice(["defect", "adversarial"]))
    return {"kind": "report", "stream": "report", "lines": c["lines"], "override": c["override"]}


def _args_case(rng):
    """from_defaults / from_reader with every combination of truthy and falsy arguments"""
    src = None
    if rng.random() < 0.6:
        src = [l for l in _valid(rng) if l.startswith("#") and "\n" not in l and "\r" not in l]
    version = rng.choice([None, "", "gdc-1.0.0", "v9"])
    annotation = rng.choice([None, None, "", "gdc-1.0.0-public", "junk"])
    contigs = rng.choice([None, None, [], ["chr1", "chr2"], ["c1"]])
    r = rng.random()
    if r < 0.35:
        so = None
    elif r < 0.5:
        so = ["name", rng.choice(R.SORT_NAMES + ["", "bogus"])]
    else:
        so = ["inst", rng.choice(R.SORT_NAMES), rng.choice([[], [], ["s1", "s2"]])]
    fai = None
    if rng.random() < 0.3:
        fai = rng.sample(["chr1", "chr2", "chrX", "1", "MT"], rng.randint(1, 4))      # a scratch .fai (never empty)
    return {"kind": "args", "stream": "args", "src": src, "version": version, "annotation": annotation,
            "so": so, "contigs": contigs, "fai": fai}


def corpus():
    return [
        # an empty line inside the pragma block ends the block (and the LineReader never gets past it)
        {"kind": "linereader", "stream": "corpus", "lines": ["#version gdc-1.0.0", "", "#k v", "a\tb"], "mode": "Silent",
         "reads": 3, "last_eol": True},
        # lines consumed before the header: its diagnostics carry the physical numbers 3 and 4
        {"kind": "linereader", "stream": "corpus", "lines": ["title", "#version v1", "#nosep", "#", "a\tb"],
         "mode": "Silent", "reads": 1, "last_eol": True, "pre": 1},
        # the header's own report while the reader records column-line and data-line errors
        {"kind": "report", "stream": "corpus", "lines": ["#k", "#version gdc-1.0.0", "a\tb", "1"], "override": None},
        {"kind": "args", "stream": "corpus", "src": None, "version": "gdc-1.0.0", "annotation": "gdc-1.0.0-public",
         "so": None, "contigs": None, "fai": None},
        {"kind": "args", "stream": "corpus", "src": ["#version v1"], "version": None, "annotation": None,
         "so": ["inst", "Coordinate", []], "contigs": ["ignored"], "fai": ["chr1", "chr2"]},
        {"kind": "args", "stream": "corpus", "src": None, "version": "gdc-1.0.0", "annotation": "", "so":
            ["inst", "Coordinate", ["s1", "s2"]], "contigs": None},
        {"kind": "args", "stream": "corpus", "src": ["#version v1", "#contigs a,b", "#sort.order Coordinate"],
         "version": "", "annotation": None, "so": None, "contigs": ["c1"]},
        # a cached scheme must not survive the deletion of the pragma it came from
        {"kind": "ops", "stream": "corpus", "lines": ["#version gdc-1.0.0", "#annotation.spec gdc-1.0.0-protected"],
         "derive": False, "ops": [["del", "annotation.spec"]]},
        {"kind": "ops", "stream": "corpus", "lines": ["#version gdc-1.0.0"], "derive": True,
         "ops": [["pop", "version"], ["set", "version", ["t", "gdc-1.0.0"]], ["clear"]]},
        # ... nor an in-place edit of a record's value
        {"kind": "ops", "stream": "corpus", "lines": ["#version gdc-1.0.0", "#annotation.spec gdc-1.0.0-public"],
         "derive": False, "ops": [["value", "annotation.spec", "gdc-1.0.0-protected"], ["value", "version", "v9"]]},
        {"kind": "header", "stream": "corpus", "mode": "Silent", "lines":
            ["#version gdc-1.0.0", "#annotation.spec gdc-1.0.0-public", "#sort.order Coordinate", "#contigs chr1,chr2", "#k a  b  "]},
        {"kind": "derive", "stream": "corpus", "lines": ["#version gdc-1.0.0", "#contigs chr1,chr2", "#sort.order Coordinate"],
         "mc": [["append", "contigs", "chrM"], ["value", "version", "v9"]], "ms": [["append", "sort.order", "chrZ"]]},
    ]


def focus(changed):
    R.set_focus(changed)


def generate(rng, n):
    out = []
    for b in BOUNDARY:
        for m in ("Silent", "Strict", "Lenient"):
            out.append({"kind": "header", "stream": "boundary", "mode": m, "lines": list(b)})
    # shares of the aimed streams; raised when the functions they exercise changed in the source
    ops_share = 3 if R.focused_fn("MafHeader.__setitem__", "MafHeader.__delitem__", "MafHeader.scheme",
                                  "MafHeader.validate", "MafHeaderRecord.") else 1
    lr_share = 3 if (R.focused("util.py") or R.focused_fn("from_line_reader")) else 1
    args_share = 3 if R.focused_fn("from_reader", "from_defaults", "MafHeaderSortOrderRecord", "MafHeaderContigRecord",
                                   "scheme_header_lines") else 1
    out += _documented_cases()
    for _ in range(max(40, n // 5) * ops_share // (2 if ops_share > 1 else 1)):
        out.append(_ops_case(rng))
    for _ in range(max(30, n // 10) * lr_share):
        out.append(_lr_case(rng))
    for _ in range(max(30, n // 10) * args_share):
        out.append(_args_case(rng))
    for ann in R.ANNOTS_OK + ["gdc-1.0.0"]:        # scheme_header_lines against from_defaults for built-in schemes
        out.append({"kind": "args", "stream": "args", "src": None, "version": "gdc-1.0.0", "annotation": ann,
                    "so": None, "contigs": None, "fai": None})
    for _ in range(max(30, n // 12) * (3 if R.focused("reader.py") else 1)):
        out.append(_hdr_report_case(rng))
    n = max(n, len(out) + n // 3)        # the pragma-grammar streams always keep at least a third of the budget
    nd = max(20, n // 8)
    for _ in range(nd):
        ls = [l for l in (_valid(rng) if rng.random() < 0.7 else _lines(rng, "defect")) if l.startswith("#")
              and "\n" not in l and "\r" not in l]
        out.append({"kind": "derive", "stream": "derive", "lines": ls, "mc": _muts(rng), "ms": _muts(rng)})
    while len(out) < n:
        stream = rng.choice(["valid", "defect", "defect", "adversarial"])
        out.append({"kind": "header", "stream": stream, "mode": rng.choice(["Silent", "Silent", "Lenient", "Strict", None]),
                    "lines": _lines(rng, stream)})
    return out


def shrink(case):
    if "lines" in case:
        yield from R.shrink_lines(case)
    if case.get("src"):
        yield from R.shrink_lines(case, key="src")
    if case["kind"] == "args":
        for k in ("version", "annotation", "so", "contigs"):
            if case[k] is not None:
                yield dict(case, **{k: None})
    for k in ("mc", "ms", "ops"):
        if case.get(k):
            for i in range(len(case[k])):
                yield dict(case, **{k: case[k][:i] + case[k][i + 1:]})


def to_model(case):
    if case["kind"] == "header":
        return R.wire_header(case["lines"], case["mode"])
    if case["kind"] == "ops":
        return R.wire_header_ops(case["lines"], case["ops"])
    if case["kind"] == "report":
        return R.wire_reader(case["lines"], "Silent", case["override"])
    if case["kind"] == "linereader":
        return R.wire_line_reader(case["lines"], case["mode"], case["reads"], case["last_eol"], case.get("pre", 0))
    if case["kind"] == "args":
        return R.wire_derive_args(case["src"], case["version"], case["annotation"], case["so"], case["contigs"],
                                  case.get("fai"))
    return R.wire_derive(case["lines"], case["mc"], case["ms"])


def run_impl(case):
    if case["kind"] == "header":
        return R.impl_header(case["lines"], case["mode"])
    if case["kind"] == "ops":
        return R.impl_header_ops(case["lines"], case["ops"], case["derive"])
    if case["kind"] == "report":
        return R.impl_reader_header_report(case["lines"], case["override"])
    if case["kind"] == "linereader":
        return R.impl_line_reader(case["lines"], case["mode"], case["reads"], case["last_eol"], case.get("pre", 0))
    if case["kind"] == "args":
        return R.impl_derive_args(case["src"], case["version"], case["annotation"], case["so"], case["contigs"],
                                  case.get("fai"))
    return R.impl_derive(case["lines"], case["mc"], case["ms"])


def from_model(case, sx):
    if case["kind"] == "header":
        return R.dec_header(sx)
    if case["kind"] == "ops":
        return R.dec_header_ops(sx)
    if case["kind"] == "report":
        r = R.dec_reader(sx)        # the model's reader: its header value is what the header reports, throughout
        if r["init"][0] != "ok":
            return {"opened": None}
        he = r["init"][1]["header"]["errs"]
        o = {"opened": he, "reader_opened": r["init"][1]["errs"], "read": he, "derived": he}
        if len(case["lines"]) % 2 == 0:
            o["reader_read"] = r["errs"]         # odd-length files are read through MafReader.next(): no order enforcement
        return o
    if case["kind"] == "linereader":
        return R.dec_line_reader(sx)
    if case["kind"] == "args":
        return R.dec_derive_args(sx)
    return R.dec_derive(sx)


def comparable(obs):
    return {k: v for k, v in obs.items() if not k.startswith("_")}


def _expected_value(key, value, kept):
    d = {k: v for (_, k, v) in kept}
    if key == "contigs":
        return ["c", value.split(",")]
    if key == "sort.order":
        cs = d.get("contigs")
        coord = value in ("Coordinate", "BarcodesAndCoordinate")
        return ["o", value, (cs.split(",") if (cs is not None and coord) else [])]
    return ["t", value]


def _ops_oracle(case, obs):
    """after every operation the accessors, scheme() and the header-level checks must be those of the same
    pragmas parsed afresh from str(header)"""
    out = []
    for i, (st, fr) in enumerate(zip(obs["steps"], obs["_fresh"])):
        h = st["h"]
        op = case["ops"][i][0]
        if h["print"] != fr["print"]:
            continue        # not a header str() round-trips (not generated); nothing to compare against
        for k in ("version", "annotation", "contigs", "scheme"):
            if h[k] != fr[k]:
                out.append("after-%s-%s %r but-the-pragmas-say %r" % (op, k, h[k], fr[k]))
        if h["order"][0] != fr["order"]:
            out.append("after-%s-sort-order %r but-the-pragmas-say %r" % (op, h["order"][0], fr["order"]))
        if h["errs"] != fr["errs"]:
            out.append("after-%s-checks %r but-the-pragmas-say %r" % (op, h["errs"], fr["errs"]))
    return out


def _lr_oracle(case, obs):
    """from_line_reader reads exactly the leading lines that start with '#': its header is the header of those
    lines, the reader has counted them and shows the line behind them"""
    out = []
    lines = case["lines"]
    start = 0                       # where the reader stands after the read_line() calls made before the header
    for _ in range(case.get("pre", 0)):
        if start < len(lines) and lines[start] != "":
            start += 1
    k = start
    while k < len(lines) and lines[k].startswith("#"):
        k += 1
    kept, diags = R.spec_header(lines[start:k])
    diags = [[c, n + start] for c, n in diags]      # numbered as lines of the reader's input: physical line numbers
    exp_errs = diags + R.spec_header_checks(kept)
    res = obs["header"]["res"]
    mode = case["mode"] or "Silent"
    if res[0] == "ok":
        if res[1]["errs"] != exp_errs:
            out.append("linereader-diagnostics %r expected %r" % (res[1]["errs"][:4], exp_errs[:4]))
        if [r[0] for r in res[1]["recs"]] != [key for (_, key, _) in kept]:
            out.append("linereader-records-are-not-the-leading-pragmas")
        if mode == "Strict" and exp_errs:
            out.append("linereader-strict-did-not-raise")
    elif mode != "Strict" or not exp_errs or res[1][1:] != exp_errs[0]:
        out.append("linereader-raised %r expected-first-error %r" % (res[1], exp_errs[:1]))
    if obs["lineno"] != k:
        out.append("linereader-line-number %r expected %d" % (obs["lineno"], k))
    behind = lines[k] if k < len(lines) else ""
    if obs["peek"] != behind:
        out.append("linereader-peek %r expected %r" % (obs["peek"], behind))
    # read_line steps over non-empty lines only; iterating (next(), .next(), for) yields the lines up to the next
    # empty line or the end; close() closes the handle
    pos = k
    for got in obs["reads"]:
        want = lines[pos] if pos < len(lines) else ""
        if want != "":
            pos += 1
        if got != [want, pos]:
            out.append("linereader-read_line %r expected %r" % (got, [want, pos]))
            return out
    expect = []
    while pos < len(lines) and lines[pos] != "":
        expect.append(lines[pos])
        pos += 1
    if obs["_iter"] != expect:
        out.append("linereader-iteration %r expected %r" % (obs["_iter"][:5], expect[:5]))
    elif obs["_lineno_after_iter"] != pos:
        out.append("linereader-line-number-after-iteration %r expected %d" % (obs["_lineno_after_iter"], pos))
    if not obs["_closed"]:
        out.append("linereader-close-left-the-handle-open")
    return out


def _args_oracle(case, obs):
    """the derived header prints the source's pragmas with exactly the given (truthy) arguments put in; the
    reader's own header prints as before"""
    out = []
    if obs.get("_src_before") != obs.get("_src_after"):
        out.append("from_reader-changed-the-readers-own-header")
    case = dict(case)
    if case.get("fai") is not None:
        case["contigs"] = list(case["fai"])      # fasta_index=path stands for contigs=[first column of each line]
    if "_scheme_lines" in obs and obs["res"][0] == "ok" and obs["res"][1]["print"] != obs["_scheme_lines"]:
        out.append("scheme_header_lines %r but-from_defaults-prints %r" % (obs["_scheme_lines"], obs["res"][1]["print"]))
    so = case["so"]
    so_name = None
    own = []
    if so is not None:
        so_name = so[1]
        if so[0] == "inst" and so[1] in ("Coordinate", "BarcodesAndCoordinate"):
            own = list(so[2])
    if so is not None and so[0] == "name" and so_name and so_name not in R.SORT_NAMES:
        if obs["res"][0] != "exc":
            out.append("unknown-sort-order-name-accepted")
        return out
    if obs["res"][0] != "ok":
        out.append("derive-raised %r" % (obs["res"][1],))
        return out
    exp = {}
    order = []
    for l in (obs.get("_src_before") or []):
        key = l[1:].split(" ", 1)[0]
        exp[key] = l
        order.append(key)

    def put(key, text):
        if key not in exp:
            order.append(key)
        exp[key] = "#" + key + " " + text

    if case["version"]:
        put("version", case["version"])
    if case["annotation"]:
        put("annotation.spec", case["annotation"])
    if case["contigs"]:
        put("contigs", ",".join(case["contigs"]))
    if so_name:
        put("sort.order", so_name)
        if not case["contigs"] and own:
            put("contigs", ",".join(own))
    expected = [exp[k] for k in order]
    if obs["res"][1]["print"] != expected:
        out.append("derived-header-prints %r expected %r" % (obs["res"][1]["print"], expected))
    return out


def _report_oracle(case, obs):
    """reader.header().validation_errors is the header's own report: what from_lines gives for the pragma lines -
    right after opening, after the records were read, and in a header derived with from_reader"""
    out = []
    for when in ("opened", "read", "derived"):
        if obs[when] != obs["_fresh"]:
            out.append("header-report-%s %r but-the-header-lines-give %r" % (when, obs[when][:6], obs["_fresh"][:6]))
    return out


def oracle(case, obs):
    out = []
    if case["kind"] == "report":
        return _report_oracle(case, obs)
    if case["kind"] == "ops":
        return _ops_oracle(case, obs)
    if case["kind"] == "linereader":
        return _lr_oracle(case, obs)
    if case["kind"] == "args":
        return _args_oracle(case, obs)
    if case["kind"] == "derive":
        p = obs["_prints"]
        if obs["_shared"]:
            out.append("derived-header-shares-objects %r" % (obs["_shared"],))
        if p[0] != p[1]:
            out.append("derived-header-prints-differently")
        if p[2] != p[0]:
            out.append("mutating-the-copy-changed-the-source")
        if p[5] != p[3]:
            out.append("mutating-the-source-changed-the-copy")
        return out
    lines = case["lines"]
    mode = case["mode"] or "Silent"
    kept, diags = R.spec_header(lines)
    checks = R.spec_header_checks(kept)
    exp_errs = diags + checks
    first = obs["first"]
    if first["res"][0] == "exc":
        e = first["res"][1]
        if mode != "Strict":
            out.append("raised-%s-in-%s" % (e[0], mode))
        elif not exp_errs or e[:1] != ["MafFormatException"] or e[1:] != exp_errs[0]:
            out.append("strict-raised %r expected %r" % (e, exp_errs[:1]))
        return out
    if mode == "Strict" and exp_errs:
        out.append("strict-did-not-raise expected %r" % (exp_errs[0],))
    h = first["res"][1]
    exp_recs = [[k, k, _expected_value(k, v, kept)] for (_, k, v) in kept]
    if h["recs"] != exp_recs:
        out.append("records %r expected %r" % (h["recs"][:3], exp_recs[:3]))
    if h["errs"] != exp_errs:
        out.append("diagnostics %r expected %r" % (h["errs"][:5], exp_errs[:5]))
    d = {k: v for (_, k, v) in kept}
    if h["version"] != d.get("version"):
        out.append("version-accessor %r" % (h["version"],))
    if h["annotation"] != d.get("annotation.spec"):
        out.append("annotation-accessor %r" % (h["annotation"],))
    exp_contigs = d["contigs"].split(",") if "contigs" in d else None
    if h["contigs"] != exp_contigs:
        out.append("contigs-accessor %r" % (h["contigs"],))
    # documented layouts (the pinned spec, not the library's schema files): the pragmas of a documented
    # (version, annotation) pair name that scheme and pass the header-level checks
    v, a = d.get("version"), d.get("annotation.spec")
    pinned = R.pinned_pairs()
    if v is not None and ((v, a) in pinned and a != v):
        if h["scheme"] != ["ok", [v, a, False]]:
            out.append("documented-layout-not-found %r scheme() gives %r" % ((v, a), h["scheme"]))
        if any(e[0] in (6, 7, 8, 9) for e in h["errs"]):
            out.append("documented-layout-diagnosed %r %r" % ((v, a), [e for e in h["errs"] if e[0] in (6, 7, 8, 9)]))
    if v is not None and a is None and (v, v) in pinned and h["scheme"] != ["ok", [v, v, False]]:
        out.append("documented-basic-layout-not-found %r" % (v,))
    if v is not None and v not in [pv for (pv, _) in pinned] and v != "no-version" and not any(e[0] == 7 for e in h["errs"]):
        out.append("undocumented-version-not-diagnosed %r" % (v,))
    exp_order = _expected_value("sort.order", d["sort.order"], kept)[1:] if "sort.order" in d else ["Unsorted", []]
    if h["order"] != exp_order:
        out.append("sort-order-accessor %r expected %r" % (h["order"], exp_order))
    # print then parse
    if not any(("\n" in l or "\r" in l) for l in lines):
        again = obs["again"]
        if again is None or again["res"][0] != "ok":
            out.append("reparse-failed")
        else:
            h2 = again["res"][1]
            if h2["recs"] != h["recs"]:
                out.append("round-trip-records %r vs %r" % (h2["recs"][:3], h["recs"][:3]))
            if h2["errs"] != checks:
                out.append("round-trip-diagnostics %r expected %r" % (h2["errs"][:4], checks[:4]))
            if h2["print"] != h["print"]:
                out.append("round-trip-print")
    return out


def signature(case, violation):
    return violation.split(" ")[0]


def classify(case, obs):
    if case["kind"] == "report":
        if obs is None:
            return "report/error"
        extra = len(obs.get("reader_read", obs.get("_reader_read", []))) - len(obs["read"])
        return "report/non-header-errors=%s" % ("0" if extra <= 0 else "1+")
    if case["kind"] == "linereader":
        return "linereader/%s/%s" % (case["mode"], "empty-line" if "" in case["lines"] else "no-empty-line")
    if case["kind"] == "args":
        return "args/%s/%s" % ("from_defaults" if case["src"] is None else "from_reader",
                               "+".join(k for k in ("version", "annotation", "so", "contigs") if case[k]) or "none")
    if case["kind"] == "ops":
        kinds = sorted({o[0] for o in case["ops"]})
        return "ops/%s/%s" % ("derived" if case["derive"] else "parsed", "+".join(kinds))
    if case["kind"] == "derive":
        return "derive/muts=%s" % ("0" if not (case["mc"] or case["ms"]) else "1+")
    if obs is None:
        return "header/%s/error" % case["stream"]
    r = obs["first"]["res"]
    if r[0] == "exc":
        return "header/%s/%s/raised" % (case["stream"], case["mode"])
    h = r[1]
    cats = sorted({e[0] for e in h["errs"] if e[0] in R.HEADER_LINE_CODES})
    return "header/%s/%s/recs=%s/diag=%s" % (case["stream"], case["mode"], min(len(h["recs"]), 3),
                                              ",".join(map(str, cats)) or "-")


def nontrivial(case, obs):
    if case["kind"] == "report":
        return len(obs.get("reader_read", obs.get("_reader_read", []))) > len(obs["read"])
    if case["kind"] == "linereader":
        return len(case["lines"]) >= 2
    if case["kind"] == "args":
        return any(case[k] for k in ("version", "annotation", "so", "contigs"))
    if case["kind"] == "ops":
        return any(s["exc"] is None for s in obs["steps"])
    if case["kind"] == "derive":
        return bool(case["mc"] or case["ms"])
    r = obs["first"]["res"]
    if r[0] == "exc":
        return True
    return len(r[1]["recs"]) >= 2 or any(e[0] in R.HEADER_LINE_CODES for e in r[1]["errs"])
