"""Shared helpers of the SortOrder cluster plugins (C08, C09, C10).

A *record description* (JSON-able) is one of
  {"kind": "typed",   "f": {"chrom","start","end","tumor","normal": text}}
      a line under the built-in scheme gdc-1.0.0 (34 columns, template below)
  {"kind": "untyped", "cols": [[name, text], ...]}
      a scheme-less line with exactly these column names (all values text)
  {"kind": "plain",   "c": v, "s": v, "e": v}     v: None | int | str
      a maflib.locatable.Locatable
"""
import re

from sexp import S, U, OPT

EXC = {"KeyError": 1, "ValueError": 2, "TypeError": 3, "IndexError": 4, "AssertionError": 5,
       "StopIteration": 6, "NotImplementedError": 7, "OSError": 8, "AttributeError": 9,
       "Exception": 9, "MafFormatException": 10}

N_CHROM, N_START, N_END = "Chromosome", "Start_Position", "End_Position"
N_TUMOR, N_NORMAL = "Tumor_Sample_Barcode", "Matched_Norm_Sample_Barcode"
FIVE = [N_TUMOR, N_NORMAL, N_CHROM, N_START, N_END]

GDC_NAMES = [
    "Hugo_Symbol", "Entrez_Gene_Id", "Center", "NCBI_Build", "Chromosome", "Start_Position",
    "End_Position", "Strand", "Variant_Classification", "Variant_Type", "Reference_Allele",
    "Tumor_Seq_Allele1", "Tumor_Seq_Allele2", "dbSNP_RS", "dbSNP_Val_Status", "Tumor_Sample_Barcode",
    "Matched_Norm_Sample_Barcode", "Match_Norm_Seq_Allele1", "Match_Norm_Seq_Allele2",
    "Tumor_Validation_Allele1", "Tumor_Validation_Allele2", "Match_Norm_Validation_Allele1",
    "Match_Norm_Validation_Allele2", "Verification_Status", "Validation_Status", "Mutation_Status",
    "Sequencing_Phase", "Sequence_Source", "Validation_Method", "Score", "BAM_File", "Sequencer",
    "Tumor_Sample_UUID", "Matched_Norm_Sample_UUID"]
GDC_TEMPLATE = {
    "Hugo_Symbol": "TP53", "Entrez_Gene_Id": "7157", "Center": "c", "NCBI_Build": "GRCh38",
    "Chromosome": "chr1", "Start_Position": "10", "End_Position": "11", "Strand": "+",
    "Variant_Classification": "Silent", "Variant_Type": "SNP", "Reference_Allele": "A",
    "Tumor_Seq_Allele1": "A", "Tumor_Seq_Allele2": "C", "Tumor_Sample_Barcode": "T1",
    "Matched_Norm_Sample_Barcode": "N1", "Mutation_Status": "Somatic",
    "Tumor_Sample_UUID": "3d1c5e50-3f51-4b6e-9f4b-0d0f6c8f1a11",
    "Matched_Norm_Sample_UUID": "3d1c5e50-3f51-4b6e-9f4b-0d0f6c8f1a12"}
F2N = {"chrom": N_CHROM, "start": N_START, "end": N_END, "tumor": N_TUMOR, "normal": N_NORMAL,
       "strand": "Strand", "vtype": "Variant_Type"}       # non-key columns a typed line may get wrong


def typed_line(f):
    d = dict(GDC_TEMPLATE)
    for k, v in f.items():
        d[F2N[k]] = v
    return "\t".join(d.get(n, "") for n in GDC_NAMES)


def untyped_line(cols):
    return "\t".join(v for _, v in cols)


def pad_cols(n):
    """n filler columns P0..P(n-1): they push the key columns to high column indexes"""
    return [["P%d" % i, "p"] for i in range(n or 0)]


def full_cols(desc):
    """the columns of a scheme-less description, fillers ("pad": n) first"""
    return pad_cols(desc.get("pad")) + desc["cols"]


def line_of(desc):
    return typed_line(desc["f"]) if desc["kind"] == "typed" else untyped_line(full_cols(desc))


# ------------------------------------------------------ FASTA index files
def write_fai(names):
    """a .fai file (name, length, offset, line bases, line width) under the check's work directory"""
    import os
    import tempfile

    os.makedirs("/verif/work", exist_ok=True)
    fd, path = tempfile.mkstemp(suffix=".fai", dir="/verif/work")
    with os.fdopen(fd, "w") as f:
        for i, n in enumerate(names):
            f.write("%s\t%d\t%d\t60\t61\n" % (n, 1000 + i, 7 + 1100 * i))
    return path


def remove_file(path):
    import os

    try:
        os.remove(path)
    except OSError:
        pass


# ------------------------------------------------------ python int() grammar
_INT_RE = re.compile(r"^[ \t\n\r\x0b\x0c]*[+-]?[0-9]+(_[0-9]+)*[ \t\n\r\x0b\x0c]*$")


def int_of_text(t):
    """int(text) for ASCII text, None when int() would raise (own grammar)"""
    if isinstance(t, str) and t.isascii() and _INT_RE.match(t):
        return int(t.replace("_", ""))
    return None


# ----------------------------- values the library's accessors are expected to return
def expected_columns(desc):
    """name -> python value for the columns a MafRecord built from `desc` holds
    (None value = column present with value None); plain -> None"""
    if desc["kind"] == "plain":
        return None
    if desc["kind"] == "untyped":
        out = {}
        if desc.get("pad"):
            out["P0"] = "p"             # one filler stands for all of them (the model only asks "any column?")
        for n, v in desc["cols"]:
            out[n] = v
        return out
    f = dict(chrom=GDC_TEMPLATE[N_CHROM], start=GDC_TEMPLATE[N_START], end=GDC_TEMPLATE[N_END],
             tumor=GDC_TEMPLATE[N_TUMOR], normal=GDC_TEMPLATE[N_NORMAL])
    f.update(desc["f"])
    out = {"Hugo_Symbol": "TP53"}
    c = int_of_text(f["chrom"])
    out[N_CHROM] = f["chrom"] if c is None else c
    for k in ("start", "end"):
        p = int_of_text(f[k])
        if p is not None and p >= 1:
            out[F2N[k]] = p
    if f["tumor"] != "":
        out[N_TUMOR] = f["tumor"]
    out[N_NORMAL] = f["normal"] if f["normal"] != "" else None
    return out


# ------------------------------------------------------------ model encoding
def m_pv(v):
    if v is None:
        return []
    if isinstance(v, bool):
        raise ValueError("bool is outside the modelled values")
    if isinstance(v, int):
        return [0, v]
    return [1, S(v)]


def m_loc(desc):
    if desc["kind"] == "plain":
        return [0, m_pv(desc["c"]), m_pv(desc["s"]), m_pv(desc["e"])]
    cols = expected_columns(desc)
    # dict semantics: a repeated name keeps its first position, last value
    return [1, [[S(n), m_pv(v)] for n, v in cols.items()]]


def d_pv(sx):
    if sx == []:
        return None
    if sx[0] == 0:
        return ["i", sx[1]]
    return ["s", U(sx[1])]


def d_res(sx, f=lambda x: x):
    return ["ok", f(sx[1])] if sx[0] == 0 else ["exc", sx[1][0]]


def d_echo(sx):
    return [d_res(x, d_pv) for x in sx[:5]] + [bool(sx[5])]


def d_unit(sx):
    return None if sx == [] else (sx[0] if sx[0] != 10 else ["maf", sx[1], (sx[2][0] if sx[2] else None)])


# ------------------------------------------------------------ implementation
def exc_code(e):
    n = type(e).__name__
    if n == "MafFormatException":
        return ["maf", getattr(getattr(e, "tpe", None), "name", "?"), getattr(e, "line_number", None)]
    return EXC.get(n, n)


def o_pv(v):
    if v is None:
        return None
    if isinstance(v, bool):
        return ["b", v]
    if isinstance(v, int):
        return ["i", v]
    if isinstance(v, str):
        return ["s", v]
    return ["?", type(v).__name__]


def build_obj(desc):
    """the real object for a description (public API only)"""
    from maflib.locatable import Locatable
    from maflib.record import MafRecord
    from maflib.validation import ValidationStringency

    if desc["kind"] == "plain":
        return Locatable(desc["c"], desc["s"], desc["e"])
    if desc["kind"] == "typed":
        from maflib.scheme_factory import find_scheme

        scheme = find_scheme(version="gdc-1.0.0", annotation=None)
        return MafRecord.from_line(typed_line(desc["f"]), scheme=scheme,
                                   validation_stringency=ValidationStringency.Silent)
    names = [n for n, _ in full_cols(desc)]
    return MafRecord.from_line(untyped_line(full_cols(desc)), column_names=names,
                               validation_stringency=ValidationStringency.Silent)


def echo_obj(r):
    out = []
    for attr in ("chromosome", "start", "end"):
        try:
            out.append(["ok", o_pv(getattr(r, attr))])
        except Exception as e:
            out.append(["exc", exc_code(e)])
    for name in (N_TUMOR, N_NORMAL):
        try:
            out.append(["ok", o_pv(r.value(name))])
        except Exception as e:
            out.append(["exc", exc_code(e)])
    out.append(bool(r))
    return out


# ------------------------------------- the documented order, recomputed independently
def documented_components(desc):
    """(tumor, normal, chromosome name, start, end) with None = missing, as the
    property text reads them: names are text, positions are numbers"""
    if desc["kind"] == "plain":
        c = desc["c"]
        pos = []
        for v in (desc["s"], desc["e"]):
            pos.append(v if isinstance(v, int) else int_of_text(v))
        return (None, None, None if c is None else str(c), pos[0], pos[1])
    if desc["kind"] == "untyped":
        d = {}
        for n, v in desc["cols"]:
            d[n] = v
        return (d.get(N_TUMOR), d.get(N_NORMAL), d.get(N_CHROM),
                int_of_text(d.get(N_START)), int_of_text(d.get(N_END)))
    cols = expected_columns(desc)
    c = cols.get(N_CHROM)
    return (cols.get(N_TUMOR), cols.get(N_NORMAL), None if c is None else str(c),
            cols.get(N_START), cols.get(N_END))


def _cmp_opt(a, b):
    if a is None and b is None:
        return 0
    if a is None:
        return 1
    if b is None:
        return -1
    return (a > b) - (a < b)


def documented_key(desc, by_barcodes, contigs):
    """tuple key or the string 'unlisted' (chromosome not in a supplied contig list)"""
    t, n, c, s, e = documented_components(desc)
    names = [str(x) for x in contigs] if contigs else []
    if names and c is not None:
        if c not in names:
            return "unlisted"
        c = names.index(c)
    key = (c, s, e)
    if by_barcodes:
        key = (t, n) + key
    return key


def documented_cmp(k1, k2):
    for a, b in zip(k1, k2):
        d = _cmp_opt(a, b)
        if d:
            return d
    return 0


# ------------------------------------------------------------------ generators
CHROM_SETS = [
    ["0", "1", "2", "10", "X"],          # "0": a typed scheme reads it as int 0 (falsy)
    ["1", "2", "10", "X"],
    ["chr1", "chr2", "chr10", "chrX"],
    ["1", "2", "10", "X", "MT", "GL000192.1"],
    # long lists: ranks 10 and up (two-digit ranks must still compare as numbers)
    [str(i) for i in range(1, 23)] + ["X", "Y", "MT"],
    ["chr%d" % i for i in range(1, 23)] + ["chrX", "chrY", "chrM"],
    ["c%02d" % i for i in range(30, 0, -1)],
]
LONG = [str(i) for i in range(1, 23)] + ["X", "Y", "MT"]
CHR_LONG = ["chr%d" % i for i in range(1, 23)] + ["chrX", "chrY", "chrM"]
POSITIONS = [0, 1, 2, 9, 10, 11, 99, 100, 1000]      # 0: falsy; invalid (missing) under a typed one-based column
TUMORS = ["T1", "T2", "T10", "TCGA-A", "", "7", "9", "10", "007"]   # digit-only barcodes are text: "10" < "9", "007" != "7"
TUMORS_OLD = ["T1", "T2", "T10", "TCGA-A", ""]      # "": falsy text (typed: rejected -> missing)
NORMALS = ["N1", "N2", "N10", "", "8", "10"]                # "": typed nullable -> None


def gen_contigs(rng, chroms, mode):
    """mode: none | lexical | karyotypic | reversed | partial | ints"""
    if mode == "none":
        return None
    if mode == "empty":
        return []
    if mode == "lexical":
        return sorted(chroms)
    if mode == "karyotypic":
        return list(chroms)
    if mode == "reversed":
        return list(reversed(chroms))
    if mode == "partial":
        k = rng.randrange(len(chroms))
        return [c for i, c in enumerate(chroms) if i != k]
    if mode == "ints":
        return [int(c) if c.isdigit() else c for c in chroms]
    raise ValueError(mode)


def gen_fields(rng, chroms, missing_p=0.0, odd_p=0.0):
    """the five documented components as text (or None = leave out)"""
    def pos():
        if rng.random() < missing_p:
            return None
        if rng.random() < odd_p:
            return rng.choice(["abc", "", "1.5", " 10", "1_0", "+9", "-3", "0", "1__0", "_1", "10 ", "1e3", "0x10",
                               "010", "\x0b7\x0c", "- 5", "5_"])
        return str(rng.choice(POSITIONS))
    f = {
        "tumor": None if rng.random() < missing_p else rng.choice(TUMORS),
        "normal": None if rng.random() < missing_p else rng.choice(NORMALS),
        "chrom": None if rng.random() < missing_p else rng.choice(chroms),
        "start": pos(), "end": pos(),
    }
    return f


def desc_from_fields(rng, f, kind):
    """turn documented components into a record description of the given kind"""
    if kind == "typed":
        g = {}
        for k, v in f.items():
            # a typed line cannot leave a column out: empty text = missing
            # (start/end/tumor fail validation, normal is nullable); an empty
            # chromosome stays the name ''
            g[k] = "" if v is None else v
        return {"kind": "typed", "f": g}
    if kind == "untyped":
        cols = [[F2N[k], v] for k, v in f.items() if v is not None]
        if rng.random() < 0.7:
            cols.append(["Other", "x"])
        rng.shuffle(cols)
        return {"kind": "untyped", "cols": cols}
    def num(v):
        if v is None:
            return None
        p = int_of_text(v)
        return p if (p is not None and rng.random() < 0.7) else v
    c = f["chrom"]
    if c is not None and c.isdigit() and rng.random() < 0.5:
        c = int(c)
    return {"kind": "plain", "c": c, "s": num(f["start"]), "e": num(f["end"])}


def vary(rng, f, chroms):
    """a neighbour of f: one or two components changed to equal/less/greater/missing"""
    g = dict(f)
    for k in rng.sample(list(g), rng.choice([1, 1, 2, 3])):
        r = rng.random()
        if r < 0.2:
            g[k] = None
        elif k in ("start", "end"):
            g[k] = str(rng.choice(POSITIONS))
        elif k == "chrom":
            g[k] = rng.choice(chroms)
        elif k == "tumor":
            g[k] = rng.choice(TUMORS)
        else:
            g[k] = rng.choice(NORMALS)
    return g
