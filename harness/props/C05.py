"""C05 - Public and masked schemes never let germline information through."""
import os
import sys

sys.path.insert(0, os.path.dirname(os.path.dirname(os.path.abspath(__file__))))
import colhost as H
import colspec as SP
import colgen as G

PID = "C05"
CLUSTER = "Columns"
PROPS = "props/C05.v"
N_QUICK = 700
N_THOROUGH = 12000
RULE = ("parse path: whole lines under the four public/masked layouts with each germline field set to valid-for-the-base non-null "
        "texts, invalid texts, '-', '0', blanks and the null spelling, three modes; writer path: API-built records (columns of the "
        "scheme class, of the un-mixed base class, of foreign classes, post-hoc values) offered to a Strict MafWriter; non-trivial = "
        "a germline position was perturbed; distinct by hash")
ASSUMPTIONS = ["column objects are instances of shipped classes or of classes synthesised for a built layout (the theorem's universe)"]
GERM_TEXTS = ["A", "ACGT", "-", "0", "5", "12", " ", "a", "Yes", "None", "null", "é", "", "", "T", "-1", "1.5"]


def _gen_line(rng):
    annot = rng.choice(SP.MASKED_LAYOUTS)
    cols = SP.layout(annot)["columns"]
    fields = [G.valid_text(rng, d) for _, d in cols]
    hit = []
    gl = [i for i, (n, _) in enumerate(cols) if n in SP.GERMLINE6]
    for i in rng.sample(gl, rng.choice([1, 1, 2, 6])):
        fields[i] = rng.choice(GERM_TEXTS)
        hit.append(i)
    return {"kind": "line", "annot": annot, "fields": fields, "trail": rng.choice(["", "\n"]), "mode": rng.choice([1, 2, 3]),
            "lineno": rng.choice([None, 3]), "stream": "germline", "hit": sorted(hit)}


PAIRS = [("gdc-1.0.0-aliquot-merged", "gdc-1.0.0-aliquot-merged-masked"), ("gdc-2.0.0-aliquot-merged", "gdc-2.0.0-aliquot-merged-masked"),
         ("gdc-1.0.0-aliquot-merged-masked", "gdc-1.0.0-aliquot-merged-masked"), (None, "gdc-1.0.0-aliquot-merged-masked"),
         ("gdc-1.0.0-unknown-annotation", "gdc-2.0.0-aliquot-merged-masked")]


def _gen_readov(rng):
    """a file whose pragmas name another (or no) scheme, read with scheme=<masked scheme>"""
    named, forced = rng.choice(PAIRS)
    cols = SP.layout(forced)["columns"]
    lines = []
    hit = []
    for _ in range(rng.randint(1, 3)):
        fields = [G.valid_text(rng, d) for _, d in cols]
        gl = [i for i, (n, _) in enumerate(cols) if n in SP.GERMLINE6]
        for i in rng.sample(gl, rng.choice([0, 1, 2])):
            fields[i] = rng.choice(["A", "ACGT", "7", "0", "-"])
            hit.append(i)
        lines.append([f.replace("\t", " ").replace("\n", " ").replace("\r", " ") for f in fields])
    return {"kind": "readov", "named": named, "forced": forced, "rows": lines, "mode": rng.choice([1, 2, 3]), "stream": "reader-override",
            "via": rng.choice(["lines", "lines", "path", "gz"]), "eol": rng.choice(["\n", "\r\n"]), "hit": sorted(set(hit))}


def _run_readov(case):
    from maflib.reader import MafReader
    from maflib.scheme_factory import find_scheme
    from maflib.validation import ValidationStringency, MafFormatException
    forced = find_scheme(version=SP.layout(case["forced"])["version"], annotation=case["forced"])
    names = forced.column_names()
    hdr = ["#version gdc-1.0.0"] + (["#annotation.spec %s" % case["named"]] if case["named"] else [])
    lines = hdr + ["\t".join(names)] + ["\t".join(r) for r in case["rows"]]
    mode = getattr(ValidationStringency, G.MODES[case["mode"]])
    out = {"raised": None, "exposed": [], "n": 0, "scheme_used": None}
    path = None
    try:
        if case.get("via", "lines") == "lines":
            rd = MafReader(lines=lines, validation_stringency=mode, scheme=forced)
        else:
            import gzip
            import os
            import tempfile
            fd, path = tempfile.mkstemp(suffix=".maf.gz" if case["via"] == "gz" else ".maf")
            os.close(fd)
            text = "".join(l + case.get("eol", "\n") for l in lines)
            if case["via"] == "gz":
                with gzip.open(path, "wt", newline="") as fh:
                    fh.write(text)
            else:
                with open(path, "w", newline="") as fh:
                    fh.write(text)
            rd = MafReader.reader_from(path, validation_stringency=mode, scheme=forced)
        out["scheme_used"] = rd.scheme().annotation_spec() if rd.scheme() is not None else None
        for rec in rd:
            out["n"] += 1
            for g in SP.GERMLINE6:
                v = rec.value(g)
                if v is not None:
                    out["exposed"].append([g, H.enc_value(v)])
    except MafFormatException as e:
        out["raised"] = "MafFormatException"
    except Exception as e:
        out["raised"] = type(e).__name__
    finally:
        if path is not None:
            try:
                rd.close()
            except Exception:
                pass
            import os
            os.unlink(path)
    return {"cmp": {"readov": True}, "extra": out}


HDR_PAIRS = [("gdc-1.0.0-protected", "gdc-1.0.0-public"), ("gdc-1.0.1-protected", "gdc-1.0.1-public"),
             ("gdc-1.0.0-aliquot-merged", "gdc-1.0.0-aliquot-merged-masked"),
             ("gdc-2.0.0-aliquot-merged", "gdc-2.0.0-aliquot-merged-masked")]


def _gen_hdredit(rng):
    """a header first read (and used) under an unmasked annotation, then re-labelled
    as the masked one -- by replacing the record, by editing it in place, or by
    building a second header -- and used by a Strict writer"""
    un, ma = rng.choice(HDR_PAIRS)
    cols = SP.layout(ma)["columns"]
    fields = [G.valid_text(rng, d).replace("\t", " ").replace("\n", " ").replace("\r", " ") for _, d in cols]
    gl = [i for i, (n, _) in enumerate(cols) if n in SP.GERMLINE6]
    hit = rng.sample(gl, rng.choice([1, 2, 3]))
    for i in hit:
        fields[i] = rng.choice(["A", "ACGT", "7", "1"])
    return {"kind": "hdredit", "from": un, "to": ma, "how": rng.choice(["inplace", "setitem", "fresh"]),
            "prime": rng.choice([True, True, False]), "row": fields, "hit": sorted(hit), "mode": 1, "stream": "header-relabel"}


def _run_hdredit(case):
    import os
    import tempfile
    from maflib.header import MafHeader, MafHeaderRecord
    from maflib.record import MafRecord
    from maflib.scheme_factory import find_scheme
    from maflib.validation import ValidationStringency, MafFormatException
    from maflib.writer import MafWriter
    ver = SP.layout(case["to"])["version"]
    out = {"raised": None, "scheme_after": None, "file_germline": [], "names_ok": None}
    masked = find_scheme(version=ver, annotation=case["to"])
    hdr = MafHeader.from_lines(["#version %s" % ver, "#annotation.spec %s" % case["from"]],
                               validation_stringency=ValidationStringency.Silent)
    if case["prime"]:
        hdr.scheme()
    key = MafHeader.AnnotationSpecKey
    if case["how"] == "inplace":
        hdr[key].value = case["to"]
    elif case["how"] == "setitem":
        hdr[key] = MafHeaderRecord.from_line("#annotation.spec %s" % case["to"])[0] \
            if hasattr(MafHeaderRecord, "from_line") else hdr[key]
        if hdr[key].value != case["to"]:
            hdr[key].value = case["to"]
    else:
        hdr = MafHeader.from_lines(["#version %s" % ver, "#annotation.spec %s" % case["to"]],
                                   validation_stringency=ValidationStringency.Silent)
    sch = hdr.scheme()
    out["scheme_after"] = sch.annotation_spec() if sch is not None else None
    fd, path = tempfile.mkstemp(suffix=".maf")
    os.close(fd)
    try:
        try:
            w = MafWriter.from_path(path=path, header=hdr, validation_stringency=ValidationStringency.Strict)
            try:
                rec = MafRecord.from_line("\t".join(case["row"]), column_names=masked.column_names(), scheme=masked,
                                          validation_stringency=ValidationStringency.Silent)
                w += rec
            finally:
                w.close()
        except MafFormatException:
            out["raised"] = "MafFormatException"
        except Exception as e:
            out["raised"] = type(e).__name__
        with open(path) as fh:
            body = [l.rstrip("\n") for l in fh if not l.startswith("#")]
        if body:
            names = body[0].split("\t")
            out["names_ok"] = names == masked.column_names()
            for l in body[1:]:
                fs = l.split("\t")
                for i, n in enumerate(names):
                    if n in SP.GERMLINE6 and i < len(fs) and fs[i] != "":
                        out["file_germline"].append([n, fs[i]])
    finally:
        os.unlink(path)
    return {"cmp": {"hdredit": True}, "extra": out}


PARENT = {"gdc-1.0.0-public": "gdc-1.0.0-protected", "gdc-1.0.1-public": "gdc-1.0.1-protected",
          "gdc-1.0.0-aliquot-merged-masked": "gdc-1.0.0-aliquot-merged", "gdc-2.0.0-aliquot-merged-masked": "gdc-2.0.0-aliquot-merged"}


def _warm_parent(case):
    """the same fields parsed first, in the same interpreter, under the unmasked layout the masked one derives from
    (what a pipeline does that reads the protected file and then the public one)"""
    from maflib.record import MafRecord
    from maflib.validation import ValidationStringency
    par = PARENT.get(case.get("annot"))
    if not par or case.get("kind") != "line":
        return
    ps = G._scheme_for(par)
    own = [n for n, _ in SP.layout(case["annot"])["columns"]]
    if len(case["fields"]) != len(own):
        return
    by = dict(zip(own, case["fields"]))
    line = "\t".join(by.get(n, "") for n in ps.column_names())
    try:
        MafRecord.from_line(line, scheme=ps, validation_stringency=ValidationStringency.Silent)
    except Exception:
        pass


def _gen_lenmut(rng):
    """a record read leniently (or silently) under a masked layout, one germline column then given a value in place,
    offered to a Strict writer under the same layout"""
    ma = rng.choice(sorted(PARENT))
    cols = SP.layout(ma)["columns"]
    fields = [G.valid_text(rng, d).replace("\t", " ").replace("\n", " ").replace("\r", " ") for _, d in cols]
    gl = [i for i, (n, _) in enumerate(cols) if n in SP.GERMLINE6]
    return {"kind": "lenmut", "annot": ma, "fields": fields, "read_mode": rng.choice([2, 2, 3, 1]), "col": rng.choice(gl),
            "value": rng.choice(["A", "ACGT", "7"]), "mode": 1, "stream": "lenient-read-then-mutated", "hit": [0]}


def _run_lenmut(case):
    from maflib.header import MafHeader
    from maflib.record import MafRecord
    from maflib.validation import ValidationStringency, MafFormatException
    from maflib.writer import MafWriter
    scheme = G._scheme_for(case["annot"])
    names = scheme.column_names()
    out = {"raised": None, "file_germline": [], "parsed": False}
    try:
        rec = MafRecord.from_line("\t".join(case["fields"]), scheme=scheme,
                                  validation_stringency=getattr(ValidationStringency, G.MODES[case["read_mode"]]))
    except Exception as e:
        out["raised"] = "parse:" + type(e).__name__
        return {"cmp": {"lenmut": True}, "extra": out}
    c = rec[case["col"]] if case["col"] < len(rec) else None
    if c is None:
        return {"cmp": {"lenmut": True}, "extra": out}
    out["parsed"] = True
    c.value = case["value"] if not case["value"].isdigit() or "count" not in names[case["col"]] else int(case["value"])
    ver = SP.layout(case["annot"])["version"]
    hdr = MafHeader.from_defaults(version=ver, annotation=case["annot"])
    buf = G._Buf()
    try:
        w = MafWriter.from_fd(buf, hdr, validation_stringency=ValidationStringency.Strict)
        try:
            w += rec
        finally:
            w.close()
    except MafFormatException:
        out["raised"] = "MafFormatException"
    except Exception as e:
        out["raised"] = type(e).__name__
    body = [l for l in buf.text().split("\n") if l and not l.startswith("#")]
    for l in body[1:]:
        fs = l.split("\t")
        for i, n in enumerate(names):
            if n in SP.GERMLINE6 and i < len(fs) and fs[i] != "":
                out["file_germline"].append([n, fs[i]])
    return {"cmp": {"lenmut": True}, "extra": out}


def generate(rng, n):
    out = []
    for _ in range(n):
        r = rng.random()
        if r < 0.03:
            out.append(_gen_lenmut(rng))
            continue
        if r < 0.07:
            out.append(_gen_hdredit(rng))
            continue
        if r < 0.12:
            out.append(_gen_readov(rng))
            continue
        if r < 0.2:
            out.append(G.gen_writeseq(rng, annots=SP.MASKED_LAYOUTS))
        elif r < 0.6:
            out.append(_gen_line(rng))
        else:
            c = G.gen_write(rng, annots=SP.MASKED_LAYOUTS, strict_share=0.9)
            out.append(c)
    return out


def corpus():
    return []


def skip_compare(case):
    return case["kind"] in ("readov", "hdredit", "lenmut") or G.model_dontcare(case)


def shrink(case):
    if case["kind"] in ("hdredit", "lenmut"):
        return
    if case["kind"] == "readov":
        for i in range(len(case["rows"])):
            if len(case["rows"]) > 1:
                yield dict(case, rows=case["rows"][:i] + case["rows"][i + 1:])
        return
    yield from G.shrink(case)


def to_model(case):
    return [4] if case["kind"] in ("readov", "hdredit", "lenmut") else G.to_model(case)


def from_model(case, sx):
    if case["kind"] in ("readov", "hdredit", "lenmut"):
        return {case["kind"]: True}
    return G.from_model(case, sx)


def run_impl(case):
    if case["kind"] == "hdredit":
        return _run_hdredit(case)
    if case["kind"] == "lenmut":
        return _run_lenmut(case)
    if case["kind"] == "readov":
        return _run_readov(case)
    _warm_parent(case)
    return G.run_impl(case)


def comparable(obs):
    return obs["cmp"]


def oracle(case, obs):
    if case["kind"] == "lenmut":
        ex = obs["extra"]
        out = []
        if ex["file_germline"]:
            out.append("strict-writer-emitted-germline-value | %s (record read in %s mode, then mutated)" % (ex["file_germline"][:2], G.MODES[case["read_mode"]]))
        if ex["parsed"] and ex["raised"] not in ("MafFormatException",):
            out.append("strict-writer-accepted-mutated-germline | raised=%s (record read in %s mode)" % (ex["raised"], G.MODES[case["read_mode"]]))
        return out
    if case["kind"] == "hdredit":
        ex = obs["extra"]
        out = []
        if ex["scheme_after"] != case["to"]:
            out.append("header-relabelled-masked-still-yields-unmasked-scheme | %s via %s" % (ex["scheme_after"], case["how"]))
        if ex["file_germline"]:
            out.append("germline-value-written-under-masked-annotation | %s via %s" % (ex["file_germline"][:2], case["how"]))
        if ex["names_ok"] is False:
            out.append("masked-header-written-with-other-columns | via %s" % case["how"])
        if ex["raised"] not in (None, "MafFormatException"):
            out.append("writer-raised-other-exception | %s" % ex["raised"])
        return out
    if case["kind"] == "readov":
        ex = obs["extra"]
        out = []
        if ex["scheme_used"] not in (case["forced"], None) :
            out.append("reader-ignored-the-forced-masked-scheme | used %s" % ex["scheme_used"])
        if ex["exposed"]:
            out.append("germline-value-exposed-through-reader | %s" % ex["exposed"][:2])
        if case["mode"] == 1 and case["hit"] and ex["raised"] != "MafFormatException":
            out.append("strict-reader-accepted-non-null-germline | raised=%s" % ex["raised"])
        if ex["raised"] not in (None, "MafFormatException"):
            out.append("reader-raised-other-exception | %s" % ex["raised"])
        return out
    if case["kind"] == "writeseq":
        out = []
        for per_line in obs["extra"].get("germline_nonnull", []):
            for g, v in per_line:
                out.append("strict-writer-emitted-germline-value | %s=%r (sequence)" % (g, v))
        return out
    out = list(G.oracle_c05_write(case, obs))
    if case["kind"] != "line":
        return out
    o, ex = obs["cmp"], obs.get("extra", {})
    names = ex.get("names", [])
    for v in SP.VCF_PROTECTED_ONLY:
        if "public" in case["annot"] and v in names:
            out.append("vcf-column-in-public-layout | %s" % v)
    cols = SP.layout(case["annot"])["columns"]
    if len(case["fields"]) != len(cols):
        return out
    bad = [(i, names[i]) for i in case["hit"] if case["fields"][i] != ""]
    if not bad:
        return out
    if case["mode"] == 1:
        if "raise" not in o or o["raise"][1] != 10:
            out.append("strict-accepted-non-null-germline | %s=%r" % (bad[0][1], case["fields"][bad[0][0]]))
        return out
    if "raise" in o:
        out.append("non-strict-mode-raised | %s" % o["raise"])
        return out
    for i, n in bad:
        if ex["values"][i] != [0]:
            out.append("germline-value-exposed-by-value() | %s=%s" % (n, ex["values"][i]))
        if i < len(o["slots"]) and o["slots"][i] is not None and o["slots"][i][2] != [0]:
            out.append("germline-value-exposed-in-slot | %s=%s" % (n, o["slots"][i][2]))
        if o["str"][0] == "ok" and i < len(o["slots"]) and o["slots"][i] is not None:
            f = o["str"][1].split("\t")
            if i < len(f) and f[i] == case["fields"][i]:
                out.append("germline-text-re-emitted | %s=%r" % (n, f[i]))
    return out


def signature(case, violation):
    return violation.split(" | ")[0]


def classify(case, obs):
    if case["kind"] == "lenmut":
        return "lenmut/%s/read=%s" % (case["annot"], G.MODES[case["read_mode"]])
    if case["kind"] == "hdredit":
        return "hdredit/%s/%s/prime=%s" % (case["to"], case["how"], case["prime"])
    if case["kind"] == "readov":
        return "readov/%s/%s->%s/mode=%s" % (case.get("via", "lines"), case["named"], case["forced"], G.MODES[case["mode"]])
    return G.classify(case, obs)


def nontrivial(case, obs):
    return bool(case.get("hit")) or case["kind"] in ("writeseq", "readov", "hdredit", "lenmut")


def focus(changed):
    G.set_focus(changed)
