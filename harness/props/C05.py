"""C05 - Public and masked schemes never let germline information through."""
import os
import sys

sys.path.insert(0, os.path.dirname(os.path.dirname(os.path.abspath(__file__))))
import colhost as H
import colspec as SP
import colgen as G

PID = "C05"
CLUSTER = "Columns"
PROPS = "props/C05.v"
N_QUICK = 700
N_THOROUGH = 12000
RULE = ("parse path: whole lines under the four public/masked layouts with each germline field set to valid-for-the-base non-null "
        "texts, invalid texts, '-', '0', blanks and the null spelling, three modes; writer path: API-built records (columns of the "
        "scheme class, of the un-mixed base class, of foreign classes, post-hoc values) offered to a Strict MafWriter; non-trivial = "
        "a germline position was perturbed; distinct by hash")
ASSUMPTIONS = ["column objects are instances of shipped classes or of classes synthesised for a built layout (the theorem's universe)"]
GERM_TEXTS = ["A", "ACGT", "-", "0", "5", "12", " ", "a", "Yes", "None", "null", "é", "", "", "T", "-1", "1.5"]


def _gen_line(rng):
    annot = rng.choice(SP.MASKED_LAYOUTS)
    cols = SP.layout(annot)["columns"]
    fields = [G.valid_text(rng, d) for _, d in cols]
    hit = []
    gl = [i for i, (n, _) in enumerate(cols) if n in SP.GERMLINE6]
    for i in rng.sample(gl, rng.choice([1, 1, 2, 6])):
        fields[i] = rng.choice(GERM_TEXTS)
        hit.append(i)
    return {"kind": "line", "annot": annot, "fields": fields, "trail": rng.choice(["", "\n"]), "mode": rng.choice([1, 2, 3]),
            "lineno": rng.choice([None, 3]), "stream": "germline", "hit": sorted(hit)}


def generate(rng, n):
    out = []
    for _ in range(n):
        r = rng.random()
        if r < 0.12:
            out.append(G.gen_writeseq(rng, annots=SP.MASKED_LAYOUTS))
        elif r < 0.6:
            out.append(_gen_line(rng))
        else:
            c = G.gen_write(rng, annots=SP.MASKED_LAYOUTS, strict_share=0.9)
            out.append(c)
    return out


def corpus():
    return []


skip_compare = G.model_dontcare
shrink = G.shrink
to_model = G.to_model
from_model = G.from_model
run_impl = G.run_impl


def comparable(obs):
    return obs["cmp"]


def oracle(case, obs):
    if case["kind"] == "writeseq":
        out = []
        for per_line in obs["extra"].get("germline_nonnull", []):
            for g, v in per_line:
                out.append("strict-writer-emitted-germline-value | %s=%r (sequence)" % (g, v))
        return out
    out = list(G.oracle_c05_write(case, obs))
    if case["kind"] != "line":
        return out
    o, ex = obs["cmp"], obs.get("extra", {})
    names = ex.get("names", [])
    for v in SP.VCF_PROTECTED_ONLY:
        if "public" in case["annot"] and v in names:
            out.append("vcf-column-in-public-layout | %s" % v)
    cols = SP.layout(case["annot"])["columns"]
    if len(case["fields"]) != len(cols):
        return out
    bad = [(i, names[i]) for i in case["hit"] if case["fields"][i] != ""]
    if not bad:
        return out
    if case["mode"] == 1:
        if "raise" not in o or o["raise"][1] != 10:
            out.append("strict-accepted-non-null-germline | %s=%r" % (bad[0][1], case["fields"][bad[0][0]]))
        return out
    if "raise" in o:
        out.append("non-strict-mode-raised | %s" % o["raise"])
        return out
    for i, n in bad:
        if ex["values"][i] != [0]:
            out.append("germline-value-exposed-by-value() | %s=%s" % (n, ex["values"][i]))
        if i < len(o["slots"]) and o["slots"][i] is not None and o["slots"][i][2] != [0]:
            out.append("germline-value-exposed-in-slot | %s=%s" % (n, o["slots"][i][2]))
        if o["str"][0] == "ok" and i < len(o["slots"]) and o["slots"][i] is not None:
            f = o["str"][1].split("\t")
            if i < len(f) and f[i] == case["fields"][i]:
                out.append("germline-text-re-emitted | %s=%r" % (n, f[i]))
    return out


def signature(case, violation):
    return violation.split(" | ")[0]


classify = G.classify


def nontrivial(case, obs):
    return bool(case.get("hit")) or case["kind"] == "writeseq"
