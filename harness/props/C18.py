"""C18 - The sorter leaves no spill files or descriptors behind, even when I/O fails."""
import errno
import io
import os
import shutil
import tempfile
import types

import C07 as G

PID = "C18"
CLUSTER = "Sorter"
PROPS = "props/C18.v"
N_QUICK = 300
N_THOROUGH = 8000
LEVEL_TEXT = ("partial only in what the model covers: Coq theorems about a model of the sorter's I/O protocol (files, "
              "descriptors, handles; every I/O call a step that may fail once), for all workloads/histories and all fault "
              "positions: the fault surfaces as OSError from the operation in progress (add / iteration / close / writer "
              "+= / writer close; ENOENT from os.remove in close tolerated), close() until it returns normally takes at "
              "most two calls and leaves no file, descriptor or handle, and a MafWriter.close that returns normally (at "
              "the first call or on retry) has written every record. The model is tied to /repo by running the real "
              "library with the same nine I/O entry points wrapped from outside and a fault injected at every call index "
              "of small workloads in turn, with the temp directory and the open descriptors inspected around each run")
LEVEL_NOTE = ("proved about the protocol model; NOT modelled (hence the partial label): the kernel (a failing close(2) is "
              "assumed to release the descriptor, as on Linux), the content of a half-written spill file and the stash "
              "after a failed spill (such a sorter is 'tainted': only its close() is modelled; add/iteration on it are "
              "reported as unmodelled and never as successful), garbage collection other than CPython reference "
              "counting, more than one fault per run, faults in the writer's own output handle. Known limitation of "
              "maf-lib outside the wording of the property: a sorting MafWriter whose sorter failed during a spill can "
              "never be closed (every close() raises), so its spill files stay until exit. Proved refutation (not part of "
              "the property as worded): when MafWriter.close succeeds only on retry after a failed os.remove, records of "
              "the file that stayed registered are written twice. Since /repo re-reads spilled records with the writer's own "
              "stringency, a Silent/Lenient writer whose spill failed at the data write of its first entry can be closed on "
              "retry: the output then holds every record plus one empty line decoded from the truncated entry (classified "
              "writer-output-has-junk-line-after-spill-fault; such tainted runs are judged by the oracle only)")
RULE = ("workloads = histories of add / iterate(k pulls, then abandon) / close on Sorter (generic codec, distinct integer "
        "keys, 0-7 records, capacity 1..n+1, both spill policies, re-iteration, adding after iterating, close in the middle, "
        "abandoning = generator.close(), or the caller keeping the half-consumed generator alive across close() with the "
        "descriptors counted while it is alive) "
        "and MafWriter with a sorting MafSorter (capacity lowered from outside, 0-6 records; some callers re-use ONE record "
        "object edited in place between writes, or go on adding/removing columns of the first record after handing it "
        "over - completeness is judged against the records as they were at hand-over); each case first runs "
        "fault-free, then once per I/O call of that run with that call failing (EIO; a second family with ENOENT; a third "
        "where a failing read raises EOFError, as GzipFile.read does on a spill file that lost its tail), "
        "plus oracle-only cases where a real spill file is cut on disk between spill and merge, "
        "either stopping at the first exception or continuing the history; every run ends with close() until it returns "
        "normally (at most 3 calls). Streams: valid (full iteration then close), defect (= the fault sweep itself), "
        "boundary (n multiple of cap, n=0, cap=1, pulls 0/1/n), adversarial (continue after the exception, close twice, "
        "reuse after close). About a third of the cases run with descriptor 0 closed around the workload, so that the first "
        "descriptor mkstemp returns is number 0; the descriptor census (/proc/self/fd read through a known descriptor) includes 0. Non-trivial: the fault-free run makes at least 8 I/O calls; distinct by hash of the case")
ASSUMPTIONS = [
    "single-shot fault schedule: exactly one I/O call of a run fails",
    "fault wrapper: mkstemp, gzip.open, write, read raise before doing anything; handle.close and os.close call the real "
    "function and then raise, because on Linux a failing close still releases the descriptor (and GzipFile.close closes "
    "its file object in a finally clause); os.remove failing with ENOENT means the file is really gone (the wrapper "
    "removes it first), with EIO the file stays",
    "abandoning an iteration is generator.close() (its finally clause closes the readers and reports a failure); a "
    "generator that is merely dropped runs the same cleanup in its finalizer, where Python ignores exceptions. Reference "
    "counting is relied on only for the readers of a _MergingIterator whose constructor raised. A generator the caller "
    "keeps alive across close() is modelled and measured (descriptors counted while it is alive)",
    "a spill file damaged between spill and merge is modelled by its symptom: the read that hits the damage raises "
    "EOFError (flavour 2 of the schedule); the cases that really truncate a file on disk are judged by the oracle only "
    "(raise, or return every record)",
    "after a failed spill (fault in gzip.open(w), write or the write handle's close) the stash is half written; further "
    "add/iteration on that sorter is not modelled (reported as unmodelled on both sides), close() is",
    "finding (not a violation of the property as worded, reported in the distribution table as "
    "writer-never-closes-after-spill-fault): after a failed spill reached through MafWriter every later MafWriter.close() "
    "raises (AttributeError / TypeError / MafFormatException), Sorter.close is never reached and there is no public way to "
    "close the writer's sorter, so its spill files and descriptors stay until the process exits; the conditional clause "
    "'if closing a sorting writer returns normally' is vacuous there",
    "descriptor numbers: 0 is a legitimate descriptor (mkstemp returns it to a process without a stdin); the model numbers "
    "descriptors from 0 and represents 'already closed' by None, never by 0",
    "the writer's MafSorter is built with max_objects_in_ram lowered by the harness (maflib.writer.MafSorter wrapped) "
    "and its spill files are directed to the case's private directory by the mkstemp wrapper",
]
TRUSTED_EXTRA = ["fault-injection wrappers installed on the names tempfile/gzip/os inside module maflib.sorter",
                 "/proc/self/fd and os.listdir as the measure of open descriptors and remaining files"]

WORK = "/verif/work"
CALLS = ["mkstemp", "gopen_w", "write", "hclose_w", "gopen_r", "read", "hclose_r", "osclose", "osremove"]
TAINTING = (1, 2, 3)
WCOLS = ["Chromosome", "Start_Position", "End_Position", "Id"]


# ------------------------------------------------------------ fault injection
def _fl(case):
    """flavour of the injected fault: 0 EIO, 1 ENOENT, 2 EOF (a failing read raises EOFError, as GzipFile.read does on
    a spill file that lost its tail; other calls fail with EIO)"""
    if "flavour" in case:
        return case["flavour"]
    return 1 if case.get("enoent") else 0


class Inj:
    def __init__(self, idx, flavour, tmp):
        self.n = 0
        self.idx = idx
        self.flavour = int(flavour)
        self.enoent = self.flavour == 1
        self.tmp = tmp
        self.log = []
        self.hit = None

    def tick(self, code):
        i = self.n
        self.n += 1
        self.log.append(code)
        if self.idx is not None and i == self.idx:
            self.idx = None
            self.hit = code
            return True
        return False

    def err(self, code=None):
        if self.flavour == 2 and code == 5:
            return EOFError("Compressed file ended before the end-of-stream marker was reached (injected)")
        return OSError(errno.ENOENT if self.enoent else errno.EIO, "injected fault")


class Handle:
    """stands for the GzipFile returned by gzip.open inside maflib.sorter"""

    def __init__(self, real, inj, writing):
        self._real = real
        self._inj = inj
        self._w = writing

    def write(self, data):
        if self._inj.tick(2):
            raise self._inj.err()
        return self._real.write(data)

    def read(self, size=-1):
        if self._inj.tick(5):
            raise self._inj.err(5)
        return self._real.read(size)

    def close(self):
        fail = self._inj.tick(3 if self._w else 6)
        self._real.close()
        if fail:
            raise self._inj.err()


def install(inj):
    import gzip as _gz
    import maflib.sorter as ms

    def mkstemp(suffix=None, prefix=None, dir=None, text=False):
        if inj.tick(0):
            raise inj.err()
        return tempfile.mkstemp(suffix=suffix, dir=inj.tmp)

    def gopen(path, mode="rb", **kw):
        writing = "w" in mode
        if inj.tick(1 if writing else 4):
            raise inj.err()
        return Handle(_gz.open(path, mode, **kw), inj, writing)

    def oclose(fd):
        fail = inj.tick(7)
        os.close(fd)
        if fail:
            raise inj.err()

    def oremove(path):
        if inj.tick(8):
            if inj.enoent:
                os.remove(path)
            raise inj.err()
        return os.remove(path)

    saved = (ms.tempfile, ms.gzip, ms.os)
    ms.tempfile = types.SimpleNamespace(mkstemp=mkstemp)
    ms.gzip = types.SimpleNamespace(open=gopen, GzipFile=_gz.GzipFile)
    ms.os = types.SimpleNamespace(close=oclose, remove=oremove)
    return saved


def uninstall(saved):
    import maflib.sorter as ms
    ms.tempfile, ms.gzip, ms.os = saved


def _fds():
    """census of open descriptors, 0 included.  /proc/self/fd is listed through a descriptor we open ourselves
    and leave out of the result (a plain os.listdir would take the lowest free descriptor for the duration of
    the listing - number 0 when stdin is closed - and hide a leaked descriptor 0)"""
    dfd = os.open("/proc/self/fd", os.O_RDONLY)
    try:
        names = os.listdir(dfd)          # lists through a duplicate of dfd, which is closed again
    finally:
        os.close(dfd)
    out = set()
    for n in names:
        try:
            os.fstat(int(n))             # drops dfd and its duplicate: both are closed by now
        except OSError:
            continue
        out.add(int(n))
    return out


class NoStdin:
    """runs the body with descriptor 0 closed (a daemon, a job started with <&-): the first descriptor the
    sorter gets from mkstemp is then number 0, a legitimate descriptor that close() has to release too"""

    def __init__(self, on):
        self.on = on
        self.saved = None

    def __enter__(self):
        if self.on:
            try:
                self.saved = os.dup(0)
            except OSError:
                self.saved = None        # already without a stdin
            else:
                os.close(0)
        return self

    def __exit__(self, *a):
        if self.on and self.saved is not None:
            os.dup2(self.saved, 0)
            os.close(self.saved)
        return False


# ------------------------------------------------------------ one run of a Sorter history
def _sorter_run(case, fault):
    os.makedirs(WORK, exist_ok=True)
    tmp = tempfile.mkdtemp(prefix="c18_", dir=WORK)
    inj = Inj(fault[0] if fault else None, fault[1] if fault else 0, tmp)
    saved = install(inj)
    nostdin = NoStdin(bool(case.get("nostdin")))
    try:
        nostdin.__enter__()
        before = _fds()
        raw = bool(case.get("raw"))       # str items stored as their own text: the empty string is a zero-byte record
        sorter, _, _ = G.make_generic({"flavour": "praw" if raw else "t/int"}, case["cap"], case["always"], tmp)
        obs, surfaced, tainted, stopped = [], [], False, False
        kept = []
        for o in case["ops"]:
            if stopped:
                break
            h0 = inj.hit
            out, items = None, []
            if o[0] in ("add", "iter") and tainted:
                obs.append([[-1], [], len(os.listdir(tmp)), len(_fds() - before)])
                continue
            if o[0] == "add":
                try:
                    sorter.add("a" * o[1] if raw else (o[1], o[2], 0, 0))
                except Exception as e:  # noqa: BLE001
                    out = G.exc_code(e)
            elif o[0] == "iter":
                it = iter(sorter)
                try:
                    for _ in range(o[1]):
                        items.append(next(it))
                except StopIteration:
                    pass
                except Exception as e:  # noqa: BLE001
                    out = G.exc_code(e)
                if len(o) > 2 and o[2]:
                    kept.append(it)          # the caller keeps the half-consumed generator alive
                elif out is None:
                    try:
                        it.close()           # abandoning = generator.close(): its cleanup may fail, and says so
                    except Exception as e:  # noqa: BLE001
                        out = G.exc_code(e)
                del it
            else:
                try:
                    sorter.close()
                except Exception as e:  # noqa: BLE001
                    out = G.exc_code(e)
            if inj.hit is not None and h0 is None:
                surfaced.append([o[0], inj.hit, out])
                if o[0] != "close" and inj.hit in TAINTING:
                    tainted = True
            obs.append([out or [], [([len(x), len(x), 1] if raw else [x[0], x[1], x[3]]) for x in items],
                        len(os.listdir(tmp)), len(_fds() - before)])
            if case["stop"] and out is not None:
                stopped = True
        closes = []
        for _ in range(3):
            h0 = inj.hit
            try:
                sorter.close()
                out = None
            except Exception as e:  # noqa: BLE001
                out = G.exc_code(e)
            if inj.hit is not None and h0 is None:
                surfaced.append(["close", inj.hit, out])
            closes.append([out] if out else [])
            if out is None:
                break
        after_close = [len(os.listdir(tmp)), len(_fds() - before)]       # generators still alive here
        drops = []
        while kept:
            g = kept.pop(0)
            h0 = inj.hit
            try:
                g.close()
                out = None
            except Exception as e:  # noqa: BLE001
                out = G.exc_code(e)
            if inj.hit is not None and h0 is None:
                surfaced.append(["drop", inj.hit, out])
            drops.append([out] if out else [])
            del g
        left = len(os.listdir(tmp))
        leak = len(_fds() - before)
        return {"obs": obs, "closes": closes, "after_close": after_close, "drops": [d for d in drops if d], "_n_kept": len(drops),
                "final": [left, leak],
                "log": inj.log, "hit": inj.hit,
                "_surfaced": surfaced, "_enoent": inj.enoent, "_flavour": inj.flavour, "_leaked_fds": sorted(_fds() - before)}
    finally:
        nostdin.__exit__()
        uninstall(saved)
        shutil.rmtree(tmp, ignore_errors=True)


# ------------------------------------------------------------ one run of a sorting MafWriter
class _Out(io.StringIO):
    final = None

    def close(self):
        self.final = self.getvalue()
        super().close()


def _writer_run(case, fault):
    import maflib.writer as mw
    from maflib.header import MafHeader
    from maflib.record import MafRecord
    from maflib.sorter import MafSorter
    from maflib.validation import ValidationStringency
    os.makedirs(WORK, exist_ok=True)
    tmp = tempfile.mkdtemp(prefix="c18w_", dir=WORK)
    inj = Inj(fault[0] if fault else None, fault[1] if fault else 0, tmp)
    saved = install(inj)
    saved_sorter = mw.MafSorter
    cap = case["cap"]
    mw.MafSorter = lambda **kw: MafSorter(max_objects_in_ram=cap, **kw)
    nostdin = NoStdin(bool(case.get("nostdin")))
    try:
        nostdin.__enter__()
        before = _fds()
        header = MafHeader.from_lines(["#sort.order Coordinate"], validation_stringency=ValidationStringency.Silent)
        out = _Out()
        writer = mw.MafWriter.from_fd(out, header, validation_stringency=ValidationStringency.Silent, assume_sorted=False)
        adds, surfaced, tainted = [], [], False
        written = []
        shared = None
        first = None
        for k, i in case["recs"]:
            h0 = inj.hit
            rec = MafRecord.from_line("\t".join(["chr1", str(k + 1), str(k + 1), "r%d" % i]), column_names=WCOLS,
                                      validation_stringency=ValidationStringency.Silent)
            if case.get("reuse"):
                # the caller fills ONE record object again and again, editing it in place between writes
                if shared is None:
                    shared = rec
                else:
                    for name in WCOLS:
                        shared[name].value = rec[name].value
                    rec = shared
            if first is not None and case.get("edit_first") and not case.get("reuse"):
                # ... or goes on editing the first record after it has been handed over (column added / removed)
                try:
                    if case["edit_first"] == "add":
                        from maflib.column import MafColumnRecord
                        first["Extra_%d" % i] = MafColumnRecord(key="Extra_%d" % i, value="x")
                    elif "Id" in first:
                        del first["Id"]
                except Exception:  # noqa: BLE001
                    pass
            if first is None:
                first = rec
            exc = None
            try:
                writer += rec
                written.append(i)
            except Exception as e:  # noqa: BLE001
                exc = G.exc_code(e)
            if inj.hit is not None and h0 is None:
                surfaced.append(["add", inj.hit, exc])
                tainted = tainted or inj.hit in TAINTING
            adds.append(exc or [])
            if exc is not None:
                break
        closes, real_closes = [], []
        for _ in range(3):
            h0 = inj.hit
            exc = None
            try:
                writer.close()
            except Exception as e:  # noqa: BLE001
                exc = G.exc_code(e)
            if inj.hit is not None and h0 is None:
                surfaced.append(["close", inj.hit, exc])
            real_closes.append(exc or [])
            if tainted and not (closes and closes[-1] == [-1]):
                closes.append([-1])
            elif not tainted or not closes:
                closes.append(exc or [])
            if inj.hit is not None and h0 is None and inj.hit in TAINTING:
                tainted = True
            if exc is None:
                break
        closed = out.final is not None
        text = out.final if closed else out.getvalue()
        ids, junk = [], 0
        for l in text.splitlines()[2:]:
            f = l.split("\t")
            if len(f) == 4 and f[3][1:].isdigit():
                ids.append(int(f[3][1:]))
            else:
                junk += 1                 # a line that is not one of the records written (see LEVEL_NOTE)
        keyof = {i: k for k, i in case["recs"]}
        left = len(os.listdir(tmp))
        leak = len(_fds() - before)
        was_tainted = [-1] in closes
        outrecs = [[keyof[i], i, 1] for i in ids]
        return {"adds": adds, "closes": closes, "out": None if was_tainted else outrecs,
                "closed": None if was_tainted else closed, "_out": outrecs, "_closed": closed, "_junk_lines": junk,
                "final": None if was_tainted else [left, leak], "log": None if was_tainted else inj.log, "hit": inj.hit,
                "_surfaced": surfaced, "_enoent": inj.enoent, "_flavour": inj.flavour, "_real_closes": real_closes, "_written": written,
                "_final": [left, leak], "_leaked_fds": sorted(_fds() - before)}
    finally:
        nostdin.__exit__()
        mw.MafSorter = saved_sorter
        uninstall(saved)
        shutil.rmtree(tmp, ignore_errors=True)


def _trunc_run(case):
    """no mocks for the damage: every spill file that exists before the merge is cut, on disk, to a shorter
    non-zero length (first to a half, then - in a second run - by its last 3 bytes); the iteration / MafWriter.close
    must raise or return every record"""
    import maflib.writer as mw
    from maflib.header import MafHeader
    from maflib.record import MafRecord
    from maflib.sorter import MafSorter
    from maflib.validation import ValidationStringency
    os.makedirs(WORK, exist_ok=True)
    runs = []
    for how in ("half", "tail"):
        tmp = tempfile.mkdtemp(prefix="c18t_", dir=WORK)
        inj = Inj(None, 0, tmp)
        saved = install(inj)                      # no fault: only redirects the spill files to tmp
        saved_sorter = mw.MafSorter
        cap = case["cap"]
        mw.MafSorter = lambda **kw: MafSorter(max_objects_in_ram=cap, **kw)
        try:
            want = list(range(len(case["keys"])))
            got, exc = [], None
            if case["writer"]:
                header = MafHeader.from_lines(["#sort.order Coordinate"], validation_stringency=ValidationStringency.Silent)
                out = _Out()
                obj = mw.MafWriter.from_fd(out, header, validation_stringency=ValidationStringency.Silent, assume_sorted=False)
                for i, k in enumerate(case["keys"]):
                    obj += MafRecord.from_line("\t".join(["chr1", str(k + 1), str(k + 1), "r%d" % i]), column_names=WCOLS,
                                               validation_stringency=ValidationStringency.Silent)
            else:
                obj, _, _ = G.make_generic({"flavour": "t/int"}, cap, True, tmp)
                for i, k in enumerate(case["keys"]):
                    obj.add((k, i, 0, 0))
            files = sorted(os.listdir(tmp))
            cut = size = 0
            for f in files[:1]:
                pth = os.path.join(tmp, f)
                size = os.path.getsize(pth)
                cut = max(1, size // 2) if how == "half" else max(1, size - 3)
                with open(pth, "r+b") as h:
                    h.truncate(cut)
            try:
                if case["writer"]:
                    obj.close()
                    text = out.final or ""
                    got = [int(l.split("\t")[3][1:]) for l in text.splitlines()[2:] if len(l.split("\t")) == 4]
                else:
                    got = [x[1] for x in obj]
            except Exception as e:  # noqa: BLE001
                exc = G.exc_code(e)
            if not case["writer"]:
                try:
                    obj.close()
                except Exception:  # noqa: BLE001
                    pass
            left = len(os.listdir(tmp)) if (exc is None or not case["writer"]) else 0
            if files:
                runs.append({"what": ("writer" if case["writer"] else "sorter") + "/" + how, "exc": exc, "got": got,
                             "want": want, "cut": cut, "size": size, "left": left})
        finally:
            mw.MafSorter = saved_sorter
            uninstall(saved)
            shutil.rmtree(tmp, ignore_errors=True)
    return {"trunc": True, "_runs": runs}


def _typedw_run(case):
    """a sorting MafWriter on the built-in typed scheme gdc-1.0.0, Lenient or Silent; the first record handed over is
    one column short (built through the API), the following ones are complete and valid.  No fault.  close() returning
    normally, the output has to hold every valid record as it was handed over."""
    import logging
    import maflib.writer as mw
    import so_common
    from maflib.header import MafHeader
    from maflib.record import MafRecord
    from maflib.scheme_factory import find_scheme
    from maflib.sorter import MafSorter
    from maflib.validation import ValidationStringency
    os.makedirs(WORK, exist_ok=True)
    tmp = tempfile.mkdtemp(prefix="c18g_", dir=WORK)
    inj = Inj(None, 0, tmp)
    saved = install(inj)
    saved_sorter = mw.MafSorter
    cap = case["cap"]
    mw.MafSorter = lambda **kw: MafSorter(max_objects_in_ram=cap, **kw)
    problems = []
    try:
        mode = ValidationStringency.Lenient if case["mode"] == "Lenient" else ValidationStringency.Silent
        scheme = find_scheme(version="gdc-1.0.0", annotation=None)
        header = MafHeader.from_lines(["#version gdc-1.0.0", "#sort.order Coordinate"], validation_stringency=ValidationStringency.Silent)
        out = _Out()
        writer = mw.MafWriter.from_fd(out, header, validation_stringency=mode, assume_sorted=False)
        names = list(so_common.GDC_NAMES)
        valid, exc = [], None
        try:
            for n, k in enumerate(case["keys"]):
                d = dict(so_common.GDC_TEMPLATE)
                d.update({"Start_Position": str(k + 1), "End_Position": str(k + 1), "Hugo_Symbol": "r%d" % n})
                vals = [d.get(x, "") for x in names]
                if n == 0 and case.get("short_first"):
                    rec = MafRecord.from_line("\t".join(vals[:-1]), column_names=names[:-1], scheme=scheme, validation_stringency=mode)
                else:
                    rec = MafRecord.from_line("\t".join(vals), scheme=scheme, validation_stringency=mode)
                    valid.append(str(rec))
                writer += rec
            writer.close()
        except Exception as e:  # noqa: BLE001
            exc = G.exc_code(e)
        if exc is None:
            lines = (out.final or "").splitlines()
            missing = [t for t in valid if t not in lines]
            if missing:
                problems.append("writer-lost-records typed scheme gdc-1.0.0, %s, first record one column short: close() returned "
                                "but %d of %d valid record(s) are not in the output (%d empty line(s))" % (
                                    case["mode"], len(missing), len(valid), sum(1 for l in lines if l == "")))
            if os.listdir(tmp):
                problems.append("spill-file-left typed writer: %d file(s)" % len(os.listdir(tmp)))
        return {"trunc": True, "_runs": [], "_typed": problems, "_typed_exc": exc, "_n": len(valid)}
    finally:
        logging.disable(logging.CRITICAL)
        mw.MafSorter = saved_sorter
        uninstall(saved)
        shutil.rmtree(tmp, ignore_errors=True)


def run_impl(case):
    if case["kind"] == "typedw":
        return _typedw_run(case)
    if case["kind"] == "trunc":
        return _trunc_run(case)
    one = _sorter_run if case["kind"] == "sorter" else _writer_run
    if case["fault"] == "sweep":
        base = one(case, None)
        runs = [one(case, [i, _fl(case)]) for i in range(len(base["log"] or []))]
        return {"base": base, "runs": runs}
    return {"base": one(case, case["fault"]), "runs": []}


def _cmp_run(r):
    return {k: v for k, v in r.items() if not k.startswith("_")}


def comparable(obs):
    if "trunc" in obs:
        return {"trunc": True}
    return {"base": _cmp_run(obs["base"]), "runs": [_cmp_run(r) for r in obs["runs"]]}


# ------------------------------------------------------------ model wire
def _wops(case):
    out = []
    for o in case["ops"]:
        if o[0] == "add":
            out.append([0, o[1], o[2], 0])
        elif o[0] == "iter":
            out.append([1, o[1], 1] if len(o) > 2 and o[2] else [1, o[1]])
        else:
            out.append([2])
    return out


def to_model(case):
    if case["kind"] in ("trunc", "typedw"):
        return [0, 1, 1, []]           # no model of a damaged file's content / of the typed codec: judged by the oracle only
    eno = _fl(case)
    if case["kind"] == "sorter":
        if case["fault"] == "sweep":
            return [3, case["cap"], 1 if case["always"] else 0, 1 if case["stop"] else 0, eno, _wops(case)]
        f = [] if case["fault"] is None else [case["fault"][0], case["fault"][1]]
        return [1, case["cap"], 1 if case["always"] else 0, 1 if case["stop"] else 0, f, _wops(case)]
    recs = [[k, i, 0] for k, i in case["recs"]]
    if case["fault"] == "sweep":
        return [4, case["cap"], eno, recs]
    f = [] if case["fault"] is None else [case["fault"][0], case["fault"][1]]
    return [2, case["cap"], f, recs]


def _m_out(o):
    return o        # () ok, (code ...) exception, (-1) unmodelled: the same shapes as on the python side


def _m_sorter(sx):
    obs, closes, counts, log, hit = sx
    fin = [counts[0], counts[1] + counts[2] + counts[3]]
    return {"obs": [[_m_out(o[0]), o[1], o[2], o[3]] for o in obs], "closes": closes,
            "after_close": fin, "drops": [],
            "final": [counts[0], counts[1] + counts[2] + counts[3]], "log": log, "hit": (hit[0] if hit else None)}


def _m_writer(sx):
    adds, closes, out, closed, counts, log, hit = sx
    tainted = [-1] in closes
    return {"adds": adds, "closes": closes, "out": None if tainted else out, "closed": None if tainted else bool(closed),
            "final": None if tainted else [counts[0], counts[1] + counts[2] + counts[3]],
            "log": None if tainted else log, "hit": (hit[0] if hit else None)}


def from_model(case, sx):
    if case["kind"] in ("trunc", "typedw"):
        return {"trunc": True}
    one = _m_sorter if case["kind"] == "sorter" else _m_writer
    if case["fault"] == "sweep":
        return {"base": one(sx[0]), "runs": [one(r) for r in sx[1]]}
    return {"base": one(sx), "runs": []}


# ------------------------------------------------------------ oracle: the property on the real library
def _judge(case, r, label):
    out = []
    eno = r["_enoent"]
    # (a) the failure reaches the caller
    for opname, hit, exc in r["_surfaced"]:
        tolerated = eno and hit == 8 and opname == "close"
        if tolerated:
            continue
        want = 9 if (r.get("_flavour") == 2 and hit == 5) else 8      # EOFError from a read, OSError otherwise
        if not exc or exc[0] != want:
            out.append("fault-not-surfaced %s: %s failed%s during %s, caller saw %r" % (
                label, CALLS[hit], " with EOFError" if want == 9 else "", opname, exc))
    if case["kind"] == "sorter":
        # (b) close() until it returns normally: at most twice, then nothing remains
        if r["closes"][-1] != []:
            out.append("close-never-returns %s: %r" % (label, r["closes"]))
        elif len(r["closes"]) > 2:
            out.append("close-needs-more-than-two-calls %s: %r" % (label, r["closes"]))
        else:
            if r["final"][0]:
                out.append("spill-file-left %s: %d file(s) after close() returned" % (label, r["final"][0]))
            if r["final"][1]:
                out.append("descriptor-left %s: descriptor(s) %r still open after close() returned%s" % (
                    label, r.get("_leaked_fds"), " (stdin closed during the run)" if case.get("nostdin") else ""))
        # once close() has returned normally nothing may be open, whether or not the caller still holds a generator
        if r["closes"][-1] == [] and len(r["closes"]) <= 2 and (r["after_close"][0] or r["after_close"][1]):
            out.append("descriptor-left-while-generator-alive %s: after close() returned: %d file(s), %d descriptor(s), "
                       "the caller still holding %d generator(s)" % (label, r["after_close"][0], r["after_close"][1], r.get("_n_kept", 0)))
        # without a fault, an iteration pulled beyond its end returns everything added so far
        if r["hit"] is None:
            n_added = 0
            for n, (op, o) in enumerate(zip(case["ops"], r["obs"])):
                if op[0] == "close":
                    break                       # close() discards what was spilled
                if op[0] == "add" and o[0] == []:
                    n_added += 1
                if op[0] == "iter" and o[0] == [] and op[1] > n_added and len(o[1]) != n_added:
                    out.append("silent-loss %s: iteration at op %d returned %d of %d records and no exception" % (label, n, len(o[1]), n_added))
        # while no fault has happened and no generator is kept, no gzip handle stays open between operations
        kept = False
        for n, (op, o) in enumerate(zip(case["ops"], r["obs"])):
            kept = kept or (op[0] == "iter" and len(op) > 2 and op[2])
            if o[0] != []:
                break
            if not kept and o[3] > o[2]:
                out.append("handle-left-open %s: after op %d %d descriptors for %d files" % (label, n, o[3], o[2]))
                break
    else:
        ok = [c for c in r["_real_closes"] if c == []]
        if ok:
            got = [x[1] for x in r["_out"]]
            missing = [i for i in r["_written"] if i not in got]
            if missing:
                out.append("writer-lost-records %s: close() returned but %d written record(s) are not in the output" % (label, len(missing)))
            if not r["_closed"]:
                out.append("writer-output-not-closed %s" % label)
            if r["_final"][0]:
                out.append("spill-file-left %s: %d file(s) after MafWriter.close() returned" % (label, r["_final"][0]))
            if r["_final"][1]:
                out.append("descriptor-left %s: descriptor(s) %r still open after MafWriter.close() returned%s" % (
                    label, r.get("_leaked_fds"), " (stdin closed during the run)" if case.get("nostdin") else ""))
    return out


def oracle(case, obs):
    if "trunc" in obs:
        out = list(obs.get("_typed") or [])
        for t in obs["_runs"]:
            if t["exc"] is None and sorted(t["got"]) != sorted(t["want"]):
                out.append("truncated-spill-file-silently-lost-records %s: file cut to %d of %d bytes, no exception, %d of %d records returned" % (
                    t["what"], t["cut"], t["size"], len(t["got"]), len(t["want"])))
            if t["left"]:
                out.append("spill-file-left %s: %d file(s) after close()" % (t["what"], t["left"]))
        return out
    out = _judge(case, obs["base"], "fault=%s" % ("none" if case["fault"] in (None, "sweep") else case["fault"]))
    for i, r in enumerate(obs["runs"]):
        out += _judge(case, r, "fault=[%d,%d](%s)" % (i, _fl(case), CALLS[r["hit"]] if r["hit"] is not None else "-"))
    return out


def signature(case, violation):
    return violation.split(" ")[0]


def classify(case, obs):
    if obs is None:
        return "%s/%s/error" % (case["stream"], case["kind"])
    if case["kind"] == "typedw":
        return "%s/typed-writer/%s/%s" % (case["stream"], case["mode"], "raised" if obs.get("_typed_exc") else "closed")
    if "trunc" in obs:
        return "%s/trunc/%s" % (case["stream"], "+".join(sorted(set("raised" if t["exc"] else "complete" for t in obs["_runs"]))) or "nospill")
    n = len(obs["base"]["log"] or [])
    size = "0" if n == 0 else ("1-15" if n < 16 else ("16-40" if n <= 40 else "41+"))
    allruns = [obs["base"]] + obs["runs"]
    unclosable = any(r.get("_real_closes") and r["_real_closes"][-1] != [] for r in allruns)
    dup = any(r.get("_written") is not None and r.get("_real_closes") and r["_real_closes"][-1] == []
              and len(r["_out"]) > len(r["_written"]) for r in allruns)
    junk = any(r.get("_junk_lines") for r in allruns)
    return "%s/%s/%s/calls=%s%s%s" % (case["stream"], case["kind"], "sweep" if case["fault"] == "sweep" else "single",
                                      size, ["", "/enoent", "/eof"][_fl(case)] + ("/nostdin" if case.get("nostdin") else "")
                                      + ("/reuse" if case.get("reuse") else "") + ("/edit-first-" + case["edit_first"] if case.get("edit_first") else ""),
                                      ("/writer-never-closes-after-spill-fault" if unclosable else "")
                                      + ("/writer-retry-duplicates-records" if dup else "")
                                      + ("/writer-output-has-junk-line-after-spill-fault" if junk else ""))


def nontrivial(case, obs):
    if case["kind"] == "typedw":
        return obs.get("_n", 0) >= 2
    if "trunc" in obs:
        return bool(obs["_runs"])
    return len(obs["base"]["log"] or []) >= 8


# ------------------------------------------------------------ generation
def _history(rng, stream):
    n = rng.choice([0, 1, 2, 3, 4, 5, 6, 7])
    keys = list(range(n))
    rng.shuffle(keys)
    cap = rng.randint(1, n + 1)
    ops = [["add", k, i] for i, k in enumerate(keys)]
    full = n + 2
    if stream == "boundary":
        if n:
            cap = rng.choice([1, n, max(1, n // 2), n + 1])
        ops.append(["iter", rng.choice([0, 1, n, n + 1, full])])
    elif stream == "adversarial":
        ops.append(["iter", rng.choice([1, max(1, n // 2), full])])
        extra = rng.choice(["reiter", "close-reuse", "add-more", "close-twice"])
        if extra == "reiter":
            ops.append(["iter", full])
        elif extra == "close-reuse":
            ops += [["close"], ["add", n, n], ["iter", full + 1]]
        elif extra == "add-more":
            ops += [["add", n, n], ["add", n + 1, n + 1], ["iter", full + 2]]
        else:
            ops += [["close"], ["close"]]
    else:
        ops.append(["iter", full])
        if rng.random() < 0.5:
            ops.append(["close"])
    raw = rng.random() < 0.15
    if raw:
        for o in ops:
            if o[0] == "add":
                o[2] = o[1]             # str items "a"*k: k = 0 is a record of zero bytes
    if rng.random() < 0.3:
        # the caller keeps a half-consumed generator alive across close()
        for o in ops:
            if o[0] == "iter" and rng.random() < 0.7:
                o.append(1)
                if o[1] > n and rng.random() < 0.8:
                    o[1] = rng.randint(1, max(1, n))
    return {"stream": stream, "kind": "sorter", "cap": cap, "always": rng.random() < 0.6,
            "stop": stream != "adversarial" or rng.random() < 0.4, "ops": ops, "fault": "sweep", "raw": raw,
            "flavour": rng.choice([0, 0, 0, 1, 2, 2]), "nostdin": rng.random() < 0.35}


def _wcase(rng, stream):
    n = rng.choice([0, 1, 2, 3, 4, 5, 6])
    keys = list(range(n))
    rng.shuffle(keys)
    cap = rng.randint(1, n + 1) if stream != "boundary" or not n else rng.choice([1, n, n + 1])
    edit = rng.choice([None, None, None, "add", "del"])
    return {"stream": stream, "kind": "writer", "cap": cap, "recs": [[k, i] for i, k in enumerate(keys)],
            "reuse": edit is None and rng.random() < 0.35, "edit_first": edit,
            "fault": "sweep", "flavour": rng.choice([0, 0, 0, 1, 2, 2]), "nostdin": rng.random() < 0.35}


def generate(rng, n):
    out = []
    for _ in range(n):
        stream = rng.choice(["valid", "defect", "boundary", "adversarial"])
        r = rng.random()
        if r < 0.04:
            n_ = rng.randint(2, 7)
            ks = list(range(n_))
            rng.shuffle(ks)
            out.append({"stream": stream, "kind": "typedw", "cap": rng.randint(1, n_ + 1), "keys": ks,
                        "mode": rng.choice(["Lenient", "Silent"]), "short_first": rng.random() < 0.7})
        elif r < 0.10:
            n_ = rng.randint(2, 9)
            ks = list(range(n_))
            rng.shuffle(ks)
            out.append({"stream": stream, "kind": "trunc", "cap": rng.randint(1, max(1, n_ // 2)), "keys": ks,
                        "writer": rng.random() < 0.4})
        elif r < 0.36:
            out.append(_wcase(rng, stream))
        else:
            out.append(_history(rng, stream))
    return out


def corpus():
    adds = [["add", 3, 0], ["add", 1, 1], ["add", 2, 2], ["add", 5, 3], ["add", 4, 4]]
    return [
        # pinned tree: a fault between mkstemp and the registration of the file orphaned one file and one descriptor
        {"stream": "corpus", "kind": "sorter", "cap": 2, "always": True, "stop": True, "ops": adds + [["iter", 7]],
         "fault": [1, 0]},
        {"stream": "corpus", "kind": "sorter", "cap": 2, "always": True, "stop": True, "ops": adds + [["iter", 7]],
         "fault": [4, 0]},
        # pinned tree: close() stopped at the first error and could not be retried (EBADF)
        {"stream": "corpus", "kind": "sorter", "cap": 2, "always": True, "stop": True, "ops": adds + [["iter", 7]],
         "fault": [38, 0]},
        {"stream": "corpus", "kind": "sorter", "cap": 2, "always": True, "stop": True, "ops": adds + [["iter", 7]],
         "fault": [39, 0]},
        {"stream": "corpus", "kind": "sorter", "cap": 2, "always": True, "stop": True, "ops": adds + [["iter", 7]],
         "fault": "sweep", "enoent": False},
        {"stream": "corpus", "kind": "sorter", "cap": 2, "always": True, "stop": False, "ops": adds + [["iter", 2], ["iter", 7]],
         "fault": "sweep", "enoent": True},
        {"stream": "corpus", "kind": "writer", "cap": 2, "recs": [[3, 0], [1, 1], [2, 2], [5, 3], [4, 4]], "fault": "sweep",
         "enoent": False},
        # seeded change `if desc:` for `if desc is not None:` in Sorter.close: descriptor 0 (what mkstemp returns
        # to a process without a stdin) was never closed; fault-free
        {"stream": "corpus", "kind": "sorter", "cap": 2, "always": True, "stop": True, "ops": adds[:2] + [["iter", 4]],
         "fault": None, "nostdin": True},
        {"stream": "corpus", "kind": "writer", "cap": 2, "recs": [[1, 0], [0, 1]], "fault": None, "nostdin": True},
        # witness of Coq theorem C18_writer_retry_duplicates_refuted: os.remove of the first spill file fails (EIO) in
        # the first MafWriter.close(); the retry returns normally and the output has 7 lines for 5 records
        {"stream": "corpus", "kind": "writer", "cap": 2, "recs": [[3, 0], [1, 1], [2, 2], [5, 3], [4, 4]], "fault": [39, 0]},
        {"stream": "corpus", "kind": "sorter", "cap": 2, "always": True, "stop": True, "ops": adds + [["iter", 7]],
         "fault": "sweep", "enoent": False, "nostdin": True},
        # seeded change `except EOFError:` in _SortedIterator.__advance: a spill file that lost its tail was taken
        # for an exhausted one and its records were silently dropped
        {"stream": "corpus", "kind": "sorter", "cap": 2, "always": True, "stop": True, "ops": adds + [["iter", 7]],
         "fault": [30, 2]},
        {"stream": "corpus", "kind": "sorter", "cap": 2, "always": True, "stop": True, "ops": adds + [["iter", 7]],
         "fault": "sweep", "flavour": 2},
        {"stream": "corpus", "kind": "writer", "cap": 2, "recs": [[3, 0], [1, 1], [2, 2], [5, 3], [4, 4]], "fault": "sweep",
         "flavour": 2},
        # seeded change: lazy serialisation (the sorter kept the caller's object and encoded it at spill time): a
        # caller re-using one record object lost records although close() returned normally
        {"stream": "corpus", "kind": "writer", "cap": 3, "recs": [[3, 0], [1, 1], [2, 2], [5, 3], [4, 4]], "fault": None,
         "reuse": True},
        {"stream": "corpus", "kind": "writer", "cap": 9, "recs": [[3, 0], [1, 1], [2, 2]], "fault": None, "reuse": True},
        # pinned tree before 22d153c: MafSorterCodec kept record.keys(), a live view of the FIRST record; adding or
        # removing a column of that record after hand-over made every spilled record fail to re-parse: blank lines
        {"stream": "corpus", "kind": "writer", "cap": 2, "recs": [[3, 0], [1, 1], [2, 2], [5, 3]], "fault": None,
         "edit_first": "add"},
        {"stream": "corpus", "kind": "writer", "cap": 2, "recs": [[3, 0], [1, 1], [2, 2], [5, 3]], "fault": None,
         "edit_first": "del"},
        # pinned tree before a9919d2: `it = iter(s); next(it); s.close()` with `it` kept alive left the read
        # descriptors of the abandoned iteration open after close()
        {"stream": "corpus", "kind": "sorter", "cap": 2, "always": True, "stop": False, "ops": adds + [["iter", 1, 1], ["close"]],
         "fault": None},
        {"stream": "corpus", "kind": "sorter", "cap": 2, "always": True, "stop": False, "ops": adds + [["iter", 2, 1]],
         "fault": "sweep", "flavour": 0},
        # pinned tree before 8becf44: with a scheme AND no explicit names the codec still took its names from the first
        # record; a first record one column short made every later valid record re-parse as empty
        # seeded change: `if not data` for the end-of-file test: a record of zero bytes ended its spill file
        {"stream": "corpus", "kind": "sorter", "cap": 3, "always": True, "stop": True, "raw": True,
         "ops": [["add", 2, 2], ["add", 0, 0], ["add", 1, 1], ["add", 4, 4], ["add", 3, 3], ["iter", 7]], "fault": None},
        {"stream": "corpus", "kind": "typedw", "cap": 2, "keys": [3, 1, 2, 5, 4], "mode": "Lenient", "short_first": True},
        {"stream": "corpus", "kind": "typedw", "cap": 9, "keys": [3, 1, 2], "mode": "Silent", "short_first": True},
        {"stream": "corpus", "kind": "trunc", "cap": 2, "keys": [3, 1, 2, 5, 4, 0], "writer": False},
        {"stream": "corpus", "kind": "trunc", "cap": 2, "keys": [3, 1, 2, 5, 4, 0], "writer": True},
    ]


def shrink(case):
    if case["kind"] in ("trunc", "typedw"):
        ks = case["keys"]
        for i in range(len(ks)):
            yield dict(case, keys=ks[:i] + ks[i + 1:])
        return
    if case["kind"] == "sorter":
        ops = case["ops"]
        for i in range(len(ops)):
            yield dict(case, ops=ops[:i] + ops[i + 1:])
    else:
        recs = case["recs"]
        for i in range(len(recs)):
            yield dict(case, recs=recs[:i] + recs[i + 1:])
    if case["fault"] == "sweep":
        yield dict(case, fault=None)
        for i in range(60):
            yield dict(case, fault=[i, _fl(case)])
