"""C08 - Sort keys form the documented total preorder; never fail on well-formed records."""
import so_common as C
from sexp import S, U, OPT

PID = "C08"
CLUSTER = "SortOrder"
PROPS = "props/C08.v"
N_QUICK = 1800
N_THOROUGH = 30000
RULE = ("2-3 objects (MafRecord parsed by MafRecord.from_line under the built-in scheme gdc-1.0.0, "
        "scheme-less MafRecord with any subset of the five key columns, plain Locatable) built as "
        "neighbours of one another over the component alphabet {missing, equal, less, greater} for "
        "tumor barcode, normal barcode, chromosome, start, end; Coordinate()/BarcodesAndCoordinate() "
        "with contigs None/[]/lexical/karyotypic/reversed/partial/int-valued; observed: accessor values, "
        "key construction outcome, __cmp__ and the six rich comparisons on every ordered pair; "
        "streams valid / single-defect (one unlisted chromosome or one non-numeric position) / boundary "
        "(ties, 9 vs 10, '2' vs '10', empty record, empty name) / adversarial (lenient int spellings, "
        "signs, big numbers, barcode order on a plain Locatable); contig lists of 4-6 and of 25-30 names "
        "(ranks 10 and up); for a share of the cases another sort order with a different contig list over the "
        "same names (reversed / rotated / one name dropped, either order class) first builds keys for the same "
        "objects in the same interpreter (\"warm\"), then the case's own sort order is observed; for another share the "
        "case's sort order instance is first handed to MafHeader.from_defaults(sort_order=instance, contigs=other list) "
        "once or twice (\"lend\": a header may not rewrite the caller's instance); for a share of the cases "
        "with contigs the sort order is built with fasta_index=<a .fai file written for the case> instead of "
        "contigs=[...]; also observed: str(key) of every built key, SortOrder.find(name) for a known or unknown name, "
        "and the key function applied to an object that is not a Locatable; non-trivial = at least two keys built "
        "and at least one ordered pair of distinct objects compared; distinct by hash of the case")
ASSUMPTIONS = [
    "values reaching a key are None, int or str (no float, bool, bytes, user classes)",
    "position text is ASCII; int() on non-ASCII digits/spaces and the 4300 digit limit are outside the modelled zone",
    "integer-like chromosome names under a typed scheme are canonical decimals (the scheme reads '01' as 1, whose name is '1')",
    "tumor / normal barcodes are text or missing (what every shipped scheme and scheme-less parsing deliver)",
    "a MafRecord is coherent (C15): len() == 0 iff it holds no column",
    "Coordinate(fasta_index=...) is equivalent to passing the first tab field of each line as contigs and is not modelled",
    "BarcodesAndCoordinate keys of a plain Locatable raise AttributeError (no value() method); reported as a generic exception",
    "str() of a BarcodesAndCoordinate key whose tumor or normal barcode is missing raises TypeError in the library "
    "(it joins the raw barcodes); modelled as such, not judged by the oracle (the library does not use it itself)",
]

ORDERS = {"C": 0, "B": 1}
CONTIG_MODES = ["none", "none", "empty", "lexical", "karyotypic", "karyotypic", "reversed", "partial", "ints"]


# ------------------------------------------------------------ generation
FIND_NAMES = ["Coordinate", "BarcodesAndCoordinate", "Unsorted", "Unknown", "Karyotypic", "coordinate", "", "Coordinate "]


def _case(stream, order, contigs, recs, warm=None, lend=None, fai=False, find="Coordinate"):
    return {"stream": stream, "order": order, "contigs": contigs, "recs": recs, "warm": warm, "lend": lend,
            "fai": fai, "find": find}


def _other_contigs(rng, contigs):
    """a different contig list over (mostly) the same names"""
    c = list(contigs)
    r = rng.random()
    if r < 0.4:
        c.reverse()
    elif r < 0.7:
        k = rng.randrange(1, len(c)) if len(c) > 1 else 0
        c = c[k:] + c[:k]
    elif r < 0.85:
        rng.shuffle(c)
    else:
        c = c[1:] + ["extra"]
    return c


def _gen_one(rng):
    stream = rng.choice(["valid", "valid", "defect", "boundary", "adv"])
    chroms = rng.choice(C.CHROM_SETS)
    order = rng.choice(["C", "B"])
    mode = rng.choice(CONTIG_MODES)
    if stream == "valid" and mode == "partial":
        mode = "karyotypic"
    if stream == "defect":
        mode = rng.choice(["partial", "partial", "karyotypic", "none"])
    contigs = C.gen_contigs(rng, chroms, mode)
    n = rng.choice([2, 3, 3])
    missing_p = {"valid": 0.08, "defect": 0.1, "boundary": 0.3, "adv": 0.2}[stream]
    odd_p = {"valid": 0.0, "defect": 0.0, "boundary": 0.05, "adv": 0.5}[stream]
    base = C.gen_fields(rng, chroms, missing_p, odd_p)
    fields = [base]
    for _ in range(n - 1):
        fields.append(C.vary(rng, rng.choice(fields), chroms))
    if stream == "defect" and rng.random() < 0.5:
        k = rng.randrange(n)
        fields[k] = dict(fields[k], **{rng.choice(["start", "end"]): rng.choice(["abc", "", "1.5", "x9"])})
    if stream == "boundary":
        r = rng.random()
        if r < 0.25:
            fields[-1] = dict(fields[0])                       # exact tie
        elif r < 0.45:
            fields[0] = dict(fields[0], start="9"); fields[-1] = dict(fields[0], start="10")
        elif r < 0.6 and "2" in chroms:
            fields[0] = dict(fields[0], chrom="2"); fields[-1] = dict(fields[0], chrom="10")
        elif r < 0.7:
            fields[0] = dict(fields[0], chrom="")
    rng.shuffle(fields)
    kinds = ["typed", "untyped", "plain"] if order == "C" else ["typed", "untyped"]
    if stream == "adv" and rng.random() < 0.08:
        kinds = ["typed", "untyped", "plain"]
    same = rng.random() < 0.5
    k0 = rng.choice(kinds)
    recs = []
    for f in fields:
        kind = k0 if same else rng.choice(kinds)
        d = C.desc_from_fields(rng, f, kind)
        recs.append(d)
    if rng.random() < 0.06:
        # wide scheme-less records: the key columns sit right of column index 256
        w = rng.choice([255, 256, 257, 258, 300])
        recs = [(dict(d, pad=w) if d["kind"] == "untyped" else d) for d in recs]
    if stream == "boundary" and rng.random() < 0.15:
        recs[rng.randrange(n)] = {"kind": "untyped", "cols": []}     # a record with no column
    if stream == "adv" and rng.random() < 0.3:
        recs[rng.randrange(n)] = {"kind": "plain", "c": rng.choice([None, 0, "", "0", 7, -1, "7", 10 ** 30]),
                                  "s": rng.choice([None, 0, -5, 2 ** 70, "2_0", " 3 "]),
                                  "e": rng.choice([None, 5, "x", "+4"])}
        if order == "B" and rng.random() < 0.7:
            order = "C"
    warm = None
    if contigs and rng.random() < 0.35:
        warm = [rng.choice(["C", "B"]), _other_contigs(rng, contigs)]
    lend = None
    if rng.random() < 0.25:
        base = [str(x) for x in contigs] if contigs else list(chroms)
        lend = [_other_contigs(rng, base) for _ in range(rng.choice([1, 1, 2]))]
    fai = bool(contigs) and all(isinstance(c, str) and c.strip() == c and c for c in contigs) and rng.random() < 0.3
    return _case(stream, order, contigs, recs, warm, lend, fai, rng.choice(FIND_NAMES))


def generate(rng, n):
    return [_gen_one(rng) for _ in range(n)]


def _u(**kw):
    return {"kind": "untyped", "cols": [[C.F2N[k], v] for k, v in kw.items()]}


def _t(**kw):
    return {"kind": "typed", "f": kw}


def corpus():
    return [
        # the three defects of the pinned tree (C08-keys): 1 vs 'X' under a typed scheme,
        # an int chromosome looked up in a str contig list, text positions '9' vs '10'
        _case("corpus", "C", None, [_t(chrom="1", start="5", end="5"), _t(chrom="X", start="5", end="5")]),
        _case("corpus", "C", ["1", "2", "10", "X"], [_t(chrom="2", start="5", end="5"), _t(chrom="10", start="5", end="5")]),
        _case("corpus", "C", None, [_u(chrom="1", start="9", end="9"), _u(chrom="1", start="10", end="10")]),
        _case("corpus", "B", ["chr1", "chr2", "chr10"],
              [_u(tumor="T1", normal="N1", chrom="chr2", start="9", end="9"),
               _u(tumor="T1", chrom="chr10", start="10", end="10"),
               _u(tumor="T1", normal="N1", chrom="chr10", start="10")]),
        _case("corpus", "C", ["chr1"], [_u(chrom="chr2", start="1", end="1"), _u(chrom="chr1", start="1", end="1")]),
        # falsy values: typed chromosome "0" is int 0 (truthiness instead of `is not None` leaves it an int)
        _case("corpus", "C", None, [_t(chrom="0", start="5", end="5"), _t(chrom="X", start="5", end="5"), _u(chrom="0", start="0", end="0")]),
        _case("corpus", "C", ["1", "0"], [_t(chrom="0", start="5", end="5"), _t(chrom="1", start="5", end="5")]),
        _case("corpus", "B", [1, 0], [_u(tumor="", normal="", chrom="0", start="0", end="0"), _u(tumor="T1", chrom="", start="0"),
                                       _t(tumor="T1", normal="", chrom="0", start="1", end="1")]),
        # two-digit contig ranks compare as numbers (3 before 11, 9 before 10)
        _case("corpus", "C", C.LONG, [_t(chrom="3", start="5", end="5"), _t(chrom="11", start="5", end="5"), _u(chrom="2", start="5", end="5")]),
        _case("corpus", "B", C.CHR_LONG, [_u(tumor="T1", chrom="chr10", start="1", end="1"), _u(tumor="T1", chrom="chr9", start="1", end="1"),
                                          _u(tumor="T1", chrom="chrX", start="1", end="1")]),
        # another sort order with another contig list used first in the same interpreter must not matter
        _case("corpus", "C", ["chr1", "chr2", "chr10"], [_u(chrom="chr2", start="1", end="1"), _u(chrom="chr10", start="1", end="1")],
              warm=["B", ["chr10", "chr2", "chr1"]]),
        _case("corpus", "C", ["chr1", "chr2"], [_u(chrom="chr2", start="1", end="1"), _u(chrom="chr10", start="1", end="1")],
              warm=["C", ["chr10", "chr2", "chr1"]]),
        # key columns beyond column index 256 of a scheme-less record are still found
        _case("corpus", "B", None, [dict(_u(tumor="10", normal="8", chrom="1", start="9", end="9"), pad=258),
                                     dict(_u(tumor="9", normal="8", chrom="1", start="10", end="10"), pad=258),
                                     _t(tumor="10", normal="8", chrom="1", start="9", end="9")]),
        # digit-only barcodes are text under the typed scheme too ("10" < "9", "007" != "7")
        _case("corpus", "B", None, [_t(tumor="9", chrom="1", start="5", end="5"), _t(tumor="10", chrom="1", start="5", end="5"),
                                     _t(tumor="T1", chrom="1", start="5", end="5")]),
        _case("corpus", "B", None, [_t(tumor="007", chrom="1", start="5", end="5"), _u(tumor="7", chrom="1", start="5", end="5")]),
        # contigs read from a .fai file behave like contigs=[first column]
        _case("corpus", "B", ["chr1", "chr2", "chr10"], [_u(tumor="T1", normal="N1", chrom="chr10", start="1", end="1"),
                                                        _u(tumor="T1", normal="N1", chrom="chr2", start="1", end="1"),
                                                        _u(tumor="T1", normal="N1", chrom="chrZ", start="1", end="1")], fai=True, find="Karyotypic"),
        # the caller's sort order instance is handed to a header with contigs and used afterwards: it must be unchanged
        _case("corpus", "C", None, [_u(chrom="chr2", start="1", end="1"), _u(chrom="chr10", start="1", end="1"), _u(chrom="chrZ", start="1", end="1")],
              lend=[["chr1", "chr2", "chr10"]]),
        _case("corpus", "B", ["chr1", "chr2", "chr10"], [_u(tumor="T1", chrom="chr2", start="1", end="1"), _u(tumor="T1", chrom="chr10", start="1", end="1")],
              lend=[["chr10", "chr2", "chr1"], ["chr10"]]),
        # exactly one start / with equal starts exactly one end missing: missing last, no exception
        _case("corpus", "C", None, [_u(chrom="1", start="5", end="7"), _u(chrom="1", end="7"), _u(chrom="1", start="5"), _u(chrom="1")]),
        _case("corpus", "C", None, [{"kind": "plain", "c": 0, "s": 0, "e": 0}, {"kind": "plain", "c": "", "s": "0", "e": None},
                                     {"kind": "plain", "c": "0", "s": None, "e": 0}]),
        _case("corpus", "C", None, [{"kind": "plain", "c": 1, "s": "9", "e": None}, {"kind": "plain", "c": "1", "s": 10, "e": 3},
                                     {"kind": "untyped", "cols": []}]),
    ]


def shrink(case):
    recs = case["recs"]
    if len(recs) > 2:
        for i in range(len(recs)):
            yield dict(case, recs=recs[:i] + recs[i + 1:])
    if case["contigs"]:
        for i in range(len(case["contigs"])):
            yield dict(case, contigs=case["contigs"][:i] + case["contigs"][i + 1:])
    for i, r in enumerate(recs):
        if r["kind"] == "untyped" and len(r["cols"]) > 0:
            for j in range(len(r["cols"])):
                yield dict(case, recs=recs[:i] + [dict(r, cols=r["cols"][:j] + r["cols"][j + 1:])] + recs[i + 1:])


# ------------------------------------------------------------ model wire
def to_model(case):
    contigs = case["contigs"]
    return [0, ORDERS[case["order"]], OPT(contigs, lambda l: [C.m_pv(x) for x in l]),
            [C.m_loc(r) for r in case["recs"]], S(case.get("find", "Coordinate"))]


def from_model(case, sx):
    if len(sx) == 1:
        return {"fatal": sx[0][0]}
    info, pairs, find = sx
    return {
        "find": ["ok", U(find[1])] if find[0] == 0 else ["exc", find[1][0]],
        "info": [[C.d_echo(e), C.d_unit(k), (C.d_res(st, U) if st else None)] for e, k, st in info],
        "pairs": [[([C.d_res(x) for x in p[:1]] + [C.d_res(x, bool) for x in p[1:]]) if p else None for p in row]
                  for row in pairs],
    }


# ------------------------------------------------------------ implementation
def run_impl(case):
    from maflib.sort_order import BarcodesAndCoordinate, Coordinate, SortOrder

    cls = Coordinate if case["order"] == "C" else BarcodesAndCoordinate
    contigs = case["contigs"]
    if case.get("fai") and contigs:
        path = C.write_fai(contigs)
        try:
            so = cls(fasta_index=path)
        finally:
            C.remove_file(path)
    else:
        so = cls(contigs=list(contigs)) if contigs is not None else cls()
    if case.get("lend"):
        # hand the instance to one or two headers that carry other contig lists
        from maflib.header import MafHeader

        for other in case["lend"]:
            MafHeader.from_defaults(sort_order=so, contigs=list(other))
    keyf = so.sort_key()
    objs = [C.build_obj(d) for d in case["recs"]]
    if case.get("warm"):
        # another sort order, with a different contig list, keys the same objects first
        wcls = Coordinate if case["warm"][0] == "C" else BarcodesAndCoordinate
        wkey = wcls(contigs=list(case["warm"][1])).sort_key()
        for o in objs:
            try:
                wkey(o)
            except Exception:
                pass
    info, keys = [], []
    for o in objs:
        try:
            k = keyf(o)
            keys.append(k)
            try:
                text = ["ok", str(k)]
            except Exception as e:
                text = ["exc", C.exc_code(e)]
            info.append([C.echo_obj(o), None, text])
        except Exception as e:
            keys.append(None)
            info.append([C.echo_obj(o), C.exc_code(e), None])
    # SortOrder.find, and the key function on something that is not a Locatable
    misc = {}
    try:
        found = SortOrder.find(case.get("find", "Coordinate"))
        find = ["ok", found.name()]
        misc["find_is_class"] = isinstance(found, type) and issubclass(found, SortOrder)
    except Exception as e:
        find = ["exc", C.exc_code(e)]
        misc["find_message_lists_names"] = all(c.name() in str(e) for c in SortOrder.all())
    try:
        keyf(object())
        misc["non_locatable"] = None
    except Exception as e:
        misc["non_locatable"] = C.exc_code(e)
    import operator as op

    def res(f, conv=lambda x: x):
        try:
            v = f()
            if conv is bool and not isinstance(v, bool):
                return ["ok", ["nonbool", repr(v)]]
            return ["ok", conv(v)]
        except Exception as e:
            return ["exc", C.exc_code(e)]

    pairs = []
    for a in keys:
        row = []
        for b in keys:
            if a is None or b is None:
                row.append(None)
                continue
            row.append([res(lambda: a.__cmp__(b))] +
                       [res(lambda f=f: f(a, b), bool) for f in (op.lt, op.le, op.gt, op.ge, op.eq, op.ne)])
        pairs.append(row)
    return {"find": find, "info": info, "pairs": pairs, "_misc": misc}


def comparable(obs):
    return {k: v for k, v in obs.items() if k != "_misc"}


# ------------------------------------------------------------ oracle
OPS = ["cmp", "<", "<=", ">", ">=", "==", "!="]


def oracle(case, obs):
    out = []
    by_bar = case["order"] == "B"
    contigs = case["contigs"]
    recs = case["recs"]
    dkeys = []
    for i, d in enumerate(recs):
        if by_bar and d["kind"] == "plain":
            dkeys.append(None)         # barcode order on an object without barcodes: outside the property
            continue
        dk = C.documented_key(d, by_bar, contigs)
        dkeys.append(dk)
        got = obs["info"][i][1]
        if dk == "unlisted":
            if got != C.EXC["ValueError"]:
                out.append("unlisted-chromosome-not-reported rec %d: key outcome %r" % (i, got))
        elif got is not None:
            out.append("key-construction-failed rec %d: %r" % (i, got))
    n = len(recs)
    for i in range(n):
        for j in range(n):
            a, b = dkeys[i], dkeys[j]
            if a is None or b is None or a == "unlisted" or b == "unlisted":
                continue
            p = obs["pairs"][i][j]
            if p is None:
                continue            # already reported as key-construction-failed
            want = C.documented_cmp(a, b)
            exp = [want, want < 0, want <= 0, want > 0, want >= 0, want == 0, want != 0]
            for name, e, g in zip(OPS, exp, p):
                if g[0] != "ok":
                    out.append("comparison-raised %s on (%d,%d): %r" % (name, i, j, g[1]))
                elif g[1] != e:
                    out.append("order-differs-from-documented %s on (%d,%d): got %r want %r" % (name, i, j, g[1], e))
    out += _oracle_extra(case, obs)
    # preorder laws on the observed `<=` alone (independent of the documented key)
    ok = [i for i in range(n) if dkeys[i] not in (None, "unlisted") and obs["info"][i][1] is None]

    def le(i, j):
        p = obs["pairs"][i][j]
        return p is not None and p[2] == ["ok", True]

    for i in ok:
        if not le(i, i):
            out.append("not-reflexive rec %d" % i)
        for j in ok:
            if not le(i, j) and not le(j, i):
                out.append("not-total (%d,%d)" % (i, j))
            for k in ok:
                if le(i, j) and le(j, k) and not le(i, k):
                    out.append("not-transitive (%d,%d,%d)" % (i, j, k))
    return out


def _oracle_extra(case, obs):
    out = []
    known = ["Unknown", "Unsorted", "BarcodesAndCoordinate", "Coordinate"]
    name = case.get("find", "Coordinate")
    m = obs.get("_misc", {})
    if name in known:
        if obs["find"] != ["ok", name] or not m.get("find_is_class"):
            out.append("find-known-name-failed %r: %r" % (name, obs["find"]))
    else:
        if obs["find"] != ["exc", C.EXC["ValueError"]]:
            out.append("find-unknown-name-not-an-error %r: %r" % (name, obs["find"]))
        elif not m.get("find_message_lists_names"):
            out.append("find-error-does-not-list-the-orders %r" % name)
    # coordinate order: the documented ValueError; barcode order asks the object for value() first (AttributeError)
    if m.get("non_locatable") not in ([C.EXC["ValueError"]] if case["order"] == "C" else [C.EXC["ValueError"], C.EXC["AttributeError"]]):
        out.append("non-locatable-not-reported: %r" % (m.get("non_locatable"),))
    # str(key): the components, tab separated; never an exception for coordinate keys
    by_bar = case["order"] == "B"
    for i, d in enumerate(case["recs"]):
        inf = obs["info"][i]
        if inf[1] is not None or inf[2] is None or (by_bar and d["kind"] == "plain"):
            continue
        dk = C.documented_key(d, by_bar, case["contigs"])
        if dk == "unlisted":
            continue
        if by_bar and (dk[0] is None or dk[1] is None):
            continue        # a missing barcode: the library's __str__ raises (reported, not judged)
        want = "\t".join(str(x) for x in dk)
        if inf[2] != ["ok", want]:
            out.append("key-text-wrong rec %d: %r want %r" % (i, inf[2], want))
    return out


def signature(case, violation):
    return violation.split(" ")[0]


def classify(case, obs):
    if obs is None:
        return case["stream"] + "/error"
    kinds = sorted(set(r["kind"] for r in case["recs"]))
    failed = sum(1 for i in obs["info"] if i[1] is not None)
    nc = len(case["contigs"] or [])
    return "%s/%s/contigs=%s%s/%s/keyfail=%s" % (
        case["stream"], case["order"], "no" if nc == 0 else ("short" if nc <= 10 else "long"),
        ("+warm" if case.get("warm") else "") + ("+lend" if case.get("lend") else ""), "+".join(kinds), "0" if failed == 0 else "1+")


def nontrivial(case, obs):
    built = [i for i, x in enumerate(obs["info"]) if x[1] is None]
    return len(built) >= 2
