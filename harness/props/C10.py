"""C10 - A sorting writer's output obeys the order and contigs its own header declares."""
import functools

import so_common as C
from sexp import S, U, OPT

PID = "C10"
CLUSTER = "SortOrder"
PROPS = "props/C10.v"
N_QUICK = 900
N_THOROUGH = 12000
RULE = ("MafWriter.from_fd(handle that survives close, header, Silent, assume_sorted=False/True) fed a random "
        "permutation of a record multiset (0-7 records, ties, several chromosomes/barcodes, multi-digit "
        "positions), then close(); header from MafHeader.from_lines (both sortable orders, Unsorted/Unknown/none, "
        "contigs absent/lexical/karyotypic chr1,chr2,chr10/reversed, pragmas in any order) or from "
        "MafHeader.from_defaults (sort order object carrying its own contigs); typed (gdc-1.0.0, 34 columns) or "
        "scheme-less records; the produced text is then read back with MafReader; streams valid / boundary "
        "(empty, single, all ties, already sorted, reversed) / defect (unlisted chromosome, sort requested "
        "without a sortable order); for a share of the sorting cases the writer's MafSorter is built with "
        "max_objects_in_ram = 1..3 (constructor wrapped) and 4-10 records with pairwise distinct keys in random "
        "order, so that several spill runs with interleaving key ranges are merged; scheme-less records put their "
        "extra column first or last and may leave it (or the last key column) empty, so that lines end in empty "
        "columns; for a share of the scheme-less cases the caller re-uses ONE MafRecord object, editing its values in "
        "place between writes (\"reuse\"), or edits the first record after handing it over (drops its last column / "
        "adds a column: \"edit_first\"); API-built headers come from MafHeader.from_defaults or from "
        "MafHeader.from_reader(reader over a header-only text, ...), with the contig list passed as contigs=[...] or as "
        "fasta_index=<a .fai file written for the case>, and the sort-order object itself may be built from a .fai; records are handed over with `+=` or "
        "writer.write(); the destination is a caller's handle (from_fd) or, for a share, a plain or .gz path under the "
        "check's work directory (from_path); writer.header() must be the header given; a share of the scheme-less cases is wide (255-300 filler columns "
        "before the key columns); barcodes include digit-only texts, which stay text under the typed scheme; non-trivial = sorting on, at least two records with distinct keys; "
        "distinct by hash of the case")
ASSUMPTIONS = [
    "iterating the MafSorter returns a permutation of the added records sorted by the key function it was built with, "
    "and decoding re-renders identically (C07 with C04; the extracted model uses a stable insertion sort in its place)",
    "records handed to the writer validate (Silent stringency here; what a Strict writer refuses is C06)",
    "the header validates or the stringency is not Strict; printing and re-reading header lines is C13",
    "values reaching a key are None, int or str; position text is ASCII; integer-like typed chromosome names are canonical "
    "(a float position such as 5.7 set through the API on a scheme-less record is keyed as 5 by the writer and, once written "
    "as text, as missing by the reader: outside the modelled values)",
    "the writer builds its MafSorter with the default max_objects_in_ram=10000; to reach the merge of several spill "
    "runs with small inputs the harness lowers the capacity by wrapping the constructor maflib.writer.MafSorter "
    "(functools.partial(MafSorter, max_objects_in_ram=k), k in 1..3) for the cases that carry \"cap\"; those cases "
    "have pairwise distinct keys (the order of equal keys across runs is heapq's choice, the model sorts stably)",
]
ORDER_NAMES = {"C": "Coordinate", "B": "BarcodesAndCoordinate"}


# ------------------------------------------------------------ generation
def _gen_one(rng):
    stream = rng.choice(["valid", "valid", "valid", "boundary", "defect"])
    typed = rng.random() < 0.4
    chroms = rng.choice(C.CHROM_SETS)
    sort = rng.random() < 0.8
    order = rng.choice(["C", "B"])
    if stream == "defect" and rng.random() < 0.4:
        order = rng.choice(["Unsorted", "Unknown", None])
    if not sort and rng.random() < 0.4:
        order = rng.choice(["C", "B", "Unsorted", None])
    mode = rng.choice(["none", "lexical", "karyotypic", "karyotypic", "reversed"])
    if stream == "defect" and rng.random() < 0.5:
        mode = "partial"
    contigs = C.gen_contigs(rng, chroms, mode)
    want_cap = sort and order in ("C", "B") and rng.random() < 0.45
    n = rng.choice([0, 1, 2, 3, 5, 7]) if stream == "boundary" else rng.randint(2, 7)
    if want_cap:
        n = rng.randint(5, 10)
    fields = []
    if n:
        fields.append(C.gen_fields(rng, chroms, 0.0 if typed else 0.08, 0.0))
    while len(fields) < n:
        fields.append(C.vary(rng, rng.choice(fields), chroms) if rng.random() < 0.8 else dict(rng.choice(fields)))
    names = [[C.F2N[k], k] for k in ("tumor", "normal", "chrom", "start", "end")]
    if not typed:
        rng.shuffle(names)
    rows = []
    other_first = (not typed) and rng.random() < 0.35      # then a key column is the last one
    empty_other = (not typed) and rng.random() < 0.25      # lines ending in an empty column
    pad = rng.choice([255, 256, 257, 258, 300]) if ((not typed) and rng.random() < 0.08) else 0   # wide records
    for f in fields:
        if stream == "valid" and f["chrom"] is None:
            f = dict(f, chrom=chroms[0])
        if typed:
            g = {k: ("" if v is None else v) for k, v in f.items()}
            if g["tumor"] == "":
                g["tumor"] = "T0"
            if g["chrom"] == "":
                g["chrom"] = chroms[0]
            for k in ("start", "end"):
                if g[k] in ("", "0"):       # a typed one-based position cannot be empty or 0
                    g[k] = "1"
            rows.append({"kind": "typed", "f": g})
        else:
            other = ["Other", "" if empty_other else "x%d" % len(rows)]
            cols = [[nm, ("" if f[k] is None else f[k])] for nm, k in names]
            rows.append({"kind": "untyped", "cols": C.pad_cols(pad) + (([other] + cols) if other_first else (cols + [other]))})
    if stream == "boundary" and n >= 2:
        r = rng.random()
        if r < 0.3:
            rows = [rows[0]] * n
    rng.shuffle(rows)
    if rng.random() < 0.3:
        hdr = {"api": {"version": "gdc-1.0.0" if typed else None,
                       "order": ORDER_NAMES.get(order, order),
                       "contigs": contigs if rng.random() < 0.6 else None,
                       "so_contigs": None}}
        if hdr["api"]["contigs"] is None and contigs and order in ("C", "B") and rng.random() < 0.7:
            hdr["api"]["so_contigs"] = contigs
        hdr["api"]["via"] = rng.choice(["defaults", "defaults", "reader"])
        hdr["api"]["fai"] = rng.random() < 0.4          # contig lists travel through a .fai file
        eff = hdr["api"]["contigs"] or hdr["api"]["so_contigs"] or None
        declared = [hdr["api"]["order"], eff]
    else:
        lines = ["#version gdc-1.0.0"] if typed else []
        so = []
        if order is not None:
            so.append("#sort.order " + ORDER_NAMES.get(order, order))
        if contigs:
            so.append("#contigs " + ",".join(contigs))
        rng.shuffle(so)
        lines += so
        if rng.random() < 0.3:
            lines.insert(rng.randrange(len(lines) + 1), "#center somewhere")
        hdr = {"lines": lines}
        declared = [ORDER_NAMES.get(order, order), contigs or None]
    colnames = C.GDC_NAMES if typed else [nm for nm, _ in C.pad_cols(pad)] + (
        (["Other"] + [nm for nm, _ in names]) if other_first else ([nm for nm, _ in names] + ["Other"]))
    reuse = edit_first = None
    if not typed and rows:
        r = rng.random()
        if r < 0.2:
            reuse = True
        elif r < 0.4:
            edit_first = rng.choice(["drop_last", "drop_last", "add_col"])
    cap = None
    if want_cap and declared[0] in ("Coordinate", "BarcodesAndCoordinate"):
        # several spill runs: keep records with pairwise distinct (and listed) keys, in random order
        by_bar = declared[0] == "BarcodesAndCoordinate"
        seen, uniq = set(), []
        for d in rows:
            k = C.documented_key(d, by_bar, declared[1])
            if k == "unlisted" or k in seen:
                continue
            seen.add(k)
            uniq.append(d)
        if len(uniq) >= 4:
            rows, cap = uniq, rng.choice([1, 2, 2, 3])
    return {"stream": stream, "typed": typed, "sort": sort, "cap": cap, "hdr": hdr, "declared": declared,
            "names": colnames, "rows": rows, "reuse": reuse, "edit_first": edit_first,
            "call": rng.choice(["iadd", "iadd", "write"]), "dest": rng.choice([None, None, None, None, "path", "gz"])}


def generate(rng, n):
    return [_gen_one(rng) for _ in range(n)]


def _ucase(lines, declared, rows, sort=True, cap=None):
    names = [C.N_CHROM, C.N_START, C.N_END]
    return {"stream": "corpus", "typed": False, "sort": sort, "cap": cap, "hdr": {"lines": lines}, "declared": declared,
            "names": names, "rows": [{"kind": "untyped", "cols": [[n, v] for n, v in zip(names, r)]} for r in rows]}


def corpus():
    return [
        # wide scheme-less records keep all their columns through the sorter
        {"stream": "corpus", "typed": False, "sort": True, "cap": None, "hdr": {"lines": ["#sort.order Coordinate"]},
         "declared": ["Coordinate", None], "names": [n for n, _ in C.pad_cols(258)] + [C.N_CHROM, C.N_START, C.N_END],
         "rows": [{"kind": "untyped", "cols": C.pad_cols(258) + [[C.N_CHROM, "chr1"], [C.N_START, s], [C.N_END, s]]} for s in ("9", "10", "2")]},
        # digit-only barcodes under the typed scheme are text
        {"stream": "corpus", "typed": True, "sort": True, "cap": None,
         "hdr": {"lines": ["#version gdc-1.0.0", "#sort.order BarcodesAndCoordinate"]},
         "declared": ["BarcodesAndCoordinate", None], "names": C.GDC_NAMES,
         "rows": [{"kind": "typed", "f": dict(tumor=t, chrom="1", start="5", end="5")} for t in ("9", "T1", "10", "007", "7")]},
        # write() instead of +=, a path / a .gz path instead of a handle
        dict(_ucase(["#sort.order Coordinate", "#contigs chr1,chr2,chr10"], ["Coordinate", ["chr1", "chr2", "chr10"]],
                    [["chr10", "1", "2"], ["chr2", "1", "1"], ["chr1", "5", "6"]]), call="write", dest="gz"),
        dict(_ucase(["#sort.order Coordinate"], ["Coordinate", None], [["chr1", "10", "10"], ["chr1", "9", "9"]], sort=False), call="write", dest="path"),
        # header built from a .fai file (from_defaults / from_reader): the sorting writer obeys its contig order
        {"stream": "corpus", "typed": False, "sort": True, "cap": None,
         "hdr": {"api": {"version": None, "order": "Coordinate", "contigs": ["chr1", "chr2", "chr10"], "so_contigs": None,
                         "via": "defaults", "fai": True}},
         "declared": ["Coordinate", ["chr1", "chr2", "chr10"]], "names": [C.N_CHROM, C.N_START, C.N_END],
         "rows": [{"kind": "untyped", "cols": [[C.N_CHROM, c], [C.N_START, s], [C.N_END, s]]} for c, s in (("chr10", "1"), ("chr2", "9"), ("chr1", "5"), ("chr2", "10"))]},
        {"stream": "corpus", "typed": True, "sort": True, "cap": None,
         "hdr": {"api": {"version": "gdc-1.0.0", "order": "BarcodesAndCoordinate", "contigs": ["X", "10", "2", "1"], "so_contigs": None,
                         "via": "reader", "fai": True}},
         "declared": ["BarcodesAndCoordinate", ["X", "10", "2", "1"]], "names": C.GDC_NAMES,
         "rows": [{"kind": "typed", "f": dict(chrom=c, start=s, end=s)} for c, s in (("1", "5"), ("10", "7"), ("X", "10"), ("2", "9"))]},
        {"stream": "corpus", "typed": False, "sort": True, "cap": None,
         "hdr": {"api": {"version": None, "order": "Coordinate", "contigs": None, "so_contigs": ["chr10", "chr2", "chr1"],
                         "via": "reader", "fai": True}},
         "declared": ["Coordinate", ["chr10", "chr2", "chr1"]], "names": [C.N_CHROM, C.N_START, C.N_END],
         "rows": [{"kind": "untyped", "cols": [[C.N_CHROM, c], [C.N_START, s], [C.N_END, s]]} for c, s in (("chr1", "1"), ("chr2", "9"), ("chr10", "5"))]},
        # pinned-tree defect (C10-writer-contigs): the sorter ignored the header's contigs
        _ucase(["#sort.order Coordinate", "#contigs chr1,chr2,chr10"], ["Coordinate", ["chr1", "chr2", "chr10"]],
               [["chr10", "1", "2"], ["chr2", "1", "1"], ["chr1", "5", "6"]]),
        _ucase(["#contigs chr10,chr2,chr1", "#sort.order BarcodesAndCoordinate"], ["BarcodesAndCoordinate", ["chr10", "chr2", "chr1"]],
               [["chr1", "5", "6"], ["chr2", "10", "10"], ["chr2", "9", "9"], ["chr10", "1", "2"]]),
        {"stream": "corpus", "typed": True, "sort": True,
         "hdr": {"api": {"version": "gdc-1.0.0", "order": "Coordinate", "contigs": None, "so_contigs": ["1", "2", "10", "X"]}},
         "declared": ["Coordinate", ["1", "2", "10", "X"]], "names": C.GDC_NAMES,
         "rows": [{"kind": "typed", "f": dict(chrom=c, start=s, end=s)} for c, s in (("X", "5"), ("10", "7"), ("2", "10"), ("2", "9"), ("1", "100"))]},
        _ucase(["#sort.order Coordinate"], ["Coordinate", None], [["chr1", "10", "10"], ["chr1", "9", "9"]]),
        _ucase(["#sort.order Coordinate"], ["Coordinate", None], [["chr1", "10", "10"], ["chr1", "9", "9"]], sort=False),
        # falsy values: typed chromosome "0" (int 0) with contigs 1,0 ; untyped position 0
        {"stream": "corpus", "typed": True, "sort": True, "hdr": {"lines": ["#version gdc-1.0.0", "#sort.order Coordinate", "#contigs 1,0"]},
         "declared": ["Coordinate", ["1", "0"]], "names": C.GDC_NAMES,
         "rows": [{"kind": "typed", "f": dict(chrom=c, start=s, end=s)} for c, s in (("0", "5"), ("1", "7"), ("0", "1"), ("X", "1"))][:3]},
        {"stream": "corpus", "typed": True, "sort": True, "hdr": {"lines": ["#version gdc-1.0.0", "#sort.order Coordinate"]},
         "declared": ["Coordinate", None], "names": C.GDC_NAMES,
         "rows": [{"kind": "typed", "f": dict(chrom=c, start=s, end=s)} for c, s in (("X", "5"), ("0", "7"), ("1", "1"), ("0", "1"))]},
        _ucase(["#sort.order Coordinate", "#contigs 0,1"], ["Coordinate", ["0", "1"]], [["1", "0", "0"], ["0", "5", "5"], ["0", "0", "1"], ["0", "0", "0"]]),
        _ucase([], [None, None], [["chr1", "10", "10"], ["chr1", "9", "9"]]),
        # several spill runs whose key ranges interleave (capacity 2: runs {1,3} {5,7} {4,6} {2}; capacity 3; capacity 1)
        _ucase(["#sort.order Coordinate"], ["Coordinate", None],
               [["chr1", p, p] for p in ("3", "1", "7", "5", "6", "4", "2")], cap=2),
        _ucase(["#sort.order Coordinate", "#contigs chr10,chr2,chr1"], ["Coordinate", ["chr10", "chr2", "chr1"]],
               [["chr2", "9", "9"], ["chr1", "1", "1"], ["chr10", "10", "10"], ["chr2", "10", "10"], ["chr10", "9", "9"], ["chr1", "2", "2"],
                ["chr2", "1", "1"]], cap=3),
        _ucase(["#sort.order Coordinate"], ["Coordinate", None], [["chr1", p, p] for p in ("2", "3", "1", "4")], cap=1),
        # the caller re-uses one record object, editing it in place between writes (text and key are taken at hand-over)
        dict(_ucase(["#sort.order Coordinate"], ["Coordinate", None], [["chr1", "9", "9"], ["chr1", "5", "5"], ["chr1", "7", "7"]]), reuse=True),
        dict(_ucase(["#sort.order Coordinate"], ["Coordinate", None], [["chr2", "1", "1"], ["chr1", "5", "5"], ["chr1", "3", "3"], ["chr1", "4", "4"]], cap=2),
             reuse=True),
        # the caller edits the first record after handing it over (the sorter may not keep a live view of its names)
        dict(_ucase(["#sort.order Coordinate"], ["Coordinate", None], [["chr1", "9", "9"], ["chr1", "5", "5"], ["chr1", "7", "7"]]), edit_first="drop_last"),
        dict(_ucase(["#sort.order Coordinate"], ["Coordinate", None], [["chr1", "9", "9"], ["chr1", "5", "5"]]), edit_first="add_col"),
        # records whose last column is empty keep their trailing tab through the sorter
        _ucase(["#sort.order Coordinate"], ["Coordinate", None], [["chr10", "9", ""], ["chr2", "3", ""], ["chr1", "5", "5"]]),
        _ucase(["#sort.order Coordinate"], ["Coordinate", None], [["chr10", "", ""], ["chr2", "", ""]], cap=1),
        # two-digit contig ranks on the writer path
        _ucase(["#sort.order Coordinate", "#contigs " + ",".join(C.CHR_LONG)], ["Coordinate", C.CHR_LONG],
               [["chr11", "1", "1"], ["chrX", "1", "1"], ["chr3", "5", "5"], ["chr10", "2", "2"], ["chr9", "7", "7"], ["chr2", "1", "1"]]),
        _ucase(["#contigs " + ",".join(C.CHR_LONG), "#sort.order BarcodesAndCoordinate"], ["BarcodesAndCoordinate", C.CHR_LONG],
               [["chr21", "1", "1"], ["chr3", "1", "1"], ["chr12", "5", "5"], ["chr2", "2", "2"]], cap=2),
    ]


def shrink(case):
    rows = case["rows"]
    for i in range(len(rows)):
        yield dict(case, rows=rows[:i] + rows[i + 1:])


# ------------------------------------------------------------ model wire
def _api_text(a):
    t = []
    if a["version"]:
        t.append("#version " + a["version"])
    ct = a["contigs"] or None
    if ct:
        t.append("#contigs " + ",".join(ct))
    if a["order"]:
        t.append("#sort.order " + a["order"])
        if not ct and a["so_contigs"] and a["order"] in ("Coordinate", "BarcodesAndCoordinate"):
            t.append("#contigs " + ",".join(a["so_contigs"]))
    return t


def _m_hdr(case):
    scheme = OPT(C.GDC_NAMES if case["typed"] else None, lambda l: [S(x) for x in l])
    h = case["hdr"]
    if "lines" in h:
        return [0, [S(l) for l in h["lines"]], scheme]
    a = h["api"]
    order = a["order"]
    cls = {"Coordinate": 0, "BarcodesAndCoordinate": 1, "Unknown": 2}.get(order, -1)
    ct = a["contigs"] or None
    # MafHeaderSortOrderRecord(value=<instance>, contigs=...): re-instantiated with contigs when given
    soc = ct if ct else (a["so_contigs"] or None)
    hc = ct if ct else (a["so_contigs"] if (order in ("Coordinate", "BarcodesAndCoordinate") and a["so_contigs"]) else None)
    enc = lambda l: OPT(l, lambda x: [C.m_pv(v) for v in x])
    return [1, [S(l) for l in _api_text(a)], cls, enc(soc), enc(hc), scheme]


def to_model(case):
    recs = []
    for d in case["rows"]:
        names = [n for n, _ in d["cols"]] if d["kind"] == "untyped" else C.GDC_NAMES
        recs.append([C.m_loc(d), S(C.line_of(d)), [S(n) for n in names]])
    return [2, _m_hdr(case), 1 if case["sort"] else 0, recs]


def from_model(case, sx):
    out, fin, closed = sx
    return {"out": [U(l) for l in out], "end": C.d_unit(fin), "closed": bool(closed)}


# ------------------------------------------------------------ implementation
def _header(case):
    from maflib.header import MafHeader
    from maflib.sort_order import BarcodesAndCoordinate, Coordinate, Unknown, Unsorted
    from maflib.validation import ValidationStringency

    h = case["hdr"]
    if "lines" in h:
        return MafHeader.from_lines(list(h["lines"]), validation_stringency=ValidationStringency.Silent)
    a = h["api"]
    cls = {"Coordinate": Coordinate, "BarcodesAndCoordinate": BarcodesAndCoordinate, "Unknown": Unknown,
           "Unsorted": Unsorted}.get(a["order"])
    fai = bool(a.get("fai"))
    paths = []
    try:
        so = None
        if cls is not None:
            if a["so_contigs"] and cls in (Coordinate, BarcodesAndCoordinate):
                if fai:
                    paths.append(C.write_fai(a["so_contigs"]))
                    so = cls(fasta_index=paths[-1])
                else:
                    so = cls(contigs=list(a["so_contigs"]))
            else:
                so = cls()
        kw = {}
        if a["contigs"]:
            if fai:
                paths.append(C.write_fai(a["contigs"]))
                kw["fasta_index"] = paths[-1]
            else:
                kw["contigs"] = list(a["contigs"])
        if a.get("via") == "reader":
            # a header derived from a reader's header (here: the version pragma at most)
            from maflib.reader import MafReader

            text = (["#version " + a["version"]] if a["version"] else []) + ["\t".join(case["names"])]
            reader = MafReader(lines=iter(text), validation_stringency=ValidationStringency.Silent)
            return MafHeader.from_reader(reader, sort_order=so, **kw)
        return MafHeader.from_defaults(version=a["version"], sort_order=so, **kw)
    finally:
        for p in paths:
            C.remove_file(p)


def run_impl(case):
    import io

    from maflib.reader import MafReader
    from maflib.record import MafRecord
    from maflib.scheme_factory import find_scheme
    from maflib.validation import ValidationStringency
    from maflib.writer import MafWriter

    class Handle(io.StringIO):
        closed_by_writer = False

        def close(self):
            self.closed_by_writer = True

    import maflib.writer as mw

    silent = ValidationStringency.Silent
    fd = Handle()
    end = None
    original_sorter = mw.MafSorter
    if case.get("cap"):
        # several spill runs with few records: lower the capacity the writer's sorter is built with
        mw.MafSorter = functools.partial(original_sorter, max_objects_in_ram=case["cap"])
    path = None
    header_kept = True
    writer = rec = shared = None
    try:
        header = _header(case)
        if case.get("dest"):
            import os
            import tempfile

            os.makedirs("/verif/work", exist_ok=True)
            tfd, path = tempfile.mkstemp(suffix=".maf.gz" if case["dest"] == "gz" else ".maf", dir="/verif/work")
            os.close(tfd)
            writer = MafWriter.from_path(path, header, validation_stringency=silent, assume_sorted=not case["sort"])
        else:
            writer = MafWriter.from_fd(fd, header, validation_stringency=silent, assume_sorted=not case["sort"])
        header_kept = writer.header() is header
        scheme = find_scheme(version="gdc-1.0.0", annotation=None) if case["typed"] else None
        shared = None
        for i, d in enumerate(case["rows"]):
            if case["typed"]:
                rec = MafRecord.from_line(C.typed_line(d["f"]), scheme=scheme, validation_stringency=silent)
            elif case.get("reuse") and shared is not None:
                # the caller's one record object, edited in place
                rec = shared
                for n, v in d["cols"]:
                    rec[n].value = v
            else:
                rec = MafRecord.from_line(C.untyped_line(d["cols"]), column_names=[n for n, _ in d["cols"]],
                                          validation_stringency=silent)
                shared = rec
            if case.get("call") == "write":
                writer.write(rec)
            else:
                writer += rec
            if i == 0 and case.get("edit_first") and not case["typed"]:
                # the caller goes on editing the record it has handed over
                if case["edit_first"] == "drop_last":
                    del rec[d["cols"][-1][0]]
                else:
                    from maflib.column import MafColumnRecord

                    rec.add(MafColumnRecord(key="Extra", value="z"))
        writer.close()
    except Exception as e:
        end = C.exc_code(e)
    finally:
        mw.MafSorter = original_sorter
    if path is not None and end is not None:
        # the writer was abandoned after an exception: dropping it lets python flush and close its own handle
        import gc

        writer = rec = shared = header = None
        gc.collect()
    text = fd.getvalue()
    if path is not None:
        import gzip

        try:
            with (gzip.open(path, "rt") if case["dest"] == "gz" else open(path)) as f:
                text = f.read()
            fd.closed_by_writer = end is None        # a path's handle is the writer's own; a complete file was read back
        except Exception as e:
            end = end if end is not None else C.exc_code(e)
        C.remove_file(path)
    lines = text.split("\n")
    trailing_ok = lines[-1] == ""
    lines = lines[:-1] if trailing_ok else lines
    reread = None
    if end is None:
        n, rend = 0, None
        try:
            for _ in MafReader(lines=iter(lines), validation_stringency=silent):
                n += 1
        except Exception as e:
            rend = C.exc_code(e)
        reread = [n, rend]
    return {"out": lines, "end": end, "closed": fd.closed_by_writer, "reread": reread, "nl": trailing_ok or text == "",
            "header_kept": header_kept}


def comparable(obs):
    return {"out": obs["out"], "end": obs["end"], "closed": obs["closed"]}


# ------------------------------------------------------------ oracle
def _data_descs(case):
    return list(case["rows"])


def oracle(case, obs):
    order, contigs = case["declared"]
    rows = case["rows"]
    sortable = order in ("Coordinate", "BarcodesAndCoordinate")
    by_bar = order == "BarcodesAndCoordinate"
    in_lines = [C.line_of(d) for d in rows]
    if case["sort"] and not sortable:
        return []            # asked to sort without a sortable order: outside the property
    keys = [C.documented_key(d, by_bar, contigs) for d in rows] if sortable else []
    if case["sort"] and any(k == "unlisted" for k in keys):
        if obs["end"] != C.EXC["ValueError"]:
            return ["unlisted-chromosome-not-reported: writer ended with %r" % (obs["end"],)]
        return []
    out = []
    if obs["end"] is not None:
        return ["writer-failed: %r" % (obs["end"],)]
    if not obs["closed"]:
        out.append("handle-not-closed:")
    if not obs.get("header_kept", True):
        out.append("writer-header-is-not-the-header-given:")
    if not obs["nl"]:
        out.append("last-line-unterminated:")
    lines = obs["out"]
    colline = "\t".join(case["names"])
    if not rows and not case["typed"]:
        head, data = lines, []
        if any(not l.startswith("#") for l in lines):
            out.append("unexpected-line-in-empty-file:")
    else:
        if colline not in lines:
            return out + ["column-line-missing:"]
        k = lines.index(colline)
        head, data = lines[:k], lines[k + 1:]
        if any(not l.startswith("#") for l in head):
            out.append("non-pragma-before-column-line:")
    if sortable and ("#sort.order " + order) not in head:
        out.append("sort-order-pragma-missing:")
    if contigs and ("#contigs " + ",".join(contigs)) not in head:
        out.append("contigs-pragma-missing:")
    if sorted(data) != sorted(in_lines):
        out.append("records-lost-or-duplicated: wrote %d got %d" % (len(in_lines), len(data)))
        return out
    if case["sort"]:
        # the data lines, in the order found, must be non-decreasing under the header's own order+contigs
        by_line = {}
        for l, kk in zip(in_lines, keys):
            by_line[l] = kk
        for i in range(1, len(data)):
            if C.documented_cmp(by_line[data[i]], by_line[data[i - 1]]) < 0:
                out.append("output-not-in-declared-order: line %d sorts before line %d" % (i, i - 1))
                break
        if obs["reread"] != [len(rows), None]:
            out.append("own-reader-rejects-output: read %r of %d" % (obs["reread"], len(rows)))
    else:
        if data != in_lines:
            out.append("write-order-not-kept:")
    return out


def signature(case, violation):
    return violation.split(":")[0]


def classify(case, obs):
    if obs is None:
        return case["stream"] + "/error"
    order = case["declared"][0]
    o = {"Coordinate": "C", "BarcodesAndCoordinate": "B"}.get(order, "nosort")
    return "%s/%s/%s/sort=%s%s/%s/contigs=%s/%s" % (
        case["stream"], "typed" if case["typed"] else "untyped",
        ("api-" + case["hdr"]["api"].get("via", "defaults") + ("-fai" if case["hdr"]["api"].get("fai") else "")) if "api" in case["hdr"] else "lines",
        "on" if case["sort"] else "off", (("/cap=%d" % case["cap"]) if case.get("cap") else "")
        + ("/reuse" if case.get("reuse") else "") + (("/" + case["edit_first"]) if case.get("edit_first") else ""), o, "yes" if case["declared"][1] else "no",
        "ok" if obs["end"] is None else "raised")


def nontrivial(case, obs):
    if not case["sort"] or obs["end"] is not None:
        return False
    return len(set(C.line_of(d) for d in case["rows"])) >= 2
