"""C11 - Overlap iteration partitions its inputs into exact overlap groups.

Also hosts the helpers shared by the overlap cluster's plugins (C12, C19):
case encoding, the implementation runner with counting input iterators, the
independent overlap-chain oracle."""
import itertools

from sexp import OPT, S

PID = "C11"
CLUSTER = "Overlap"
PROPS = "props/C11.v"
N_QUICK = 2500
N_THOROUGH = 30000
RULE = ("1-4 inputs (sometimes 0) of intervals drawn from touching/nested/chained/identical/disjoint "
        "families on a 1..12 line over chromosomes chr1,chr2,chr10 (karyotypic vs lexical order differ) and "
        "barcode pairs T1/T2 x N1/N2; both grouping modes; contig list absent / karyotypic / permuted / 11-30 contigs "
        "with records on both sides of position 10; plain Locatable objects, scheme-less MafRecords and gdc-1.0.0 "
        "MafRecords read under Silent from lines in the published column order, and MafReader inputs whose header "
        "declares a sort order; missing barcodes (None, ordered last); positions beyond 2**53; four streams: valid (each input sorted by the chosen "
        "order), single defect (one adjacent descent, name-sorted under a contig list, missing contig), "
        "boundary (end==start touching, end+1==start, one-point, empty inputs, long chains), adversarial "
        "(start>end, false records, shuffled); a long-sparse case (1100+ consecutive groups). The public API is "
        "driven through next(it), it.next() or both within one run; arguments equal to their documented defaults "
        "are passed or left out; a quarter of the contig cases run another iterator with the reversed contig list "
        "first in the same process. Thorough tier adds the exhaustive enumeration of all layouts "
        "of up to 5 intervals on a 6-point line over 2 inputs (batched). A case is non-trivial when at least "
        "two groups are emitted or an out-of-order report is produced, with >= 3 records; distinct by hash.")
ASSUMPTIONS = [
    "records are truthy (a MafRecord with zero columns - a malformed line under Silent/Lenient - is false: the iterator treats it as exhaustion and silently drops the rest of that input; modelled, compared and shown as Example demo_false_record_ends_its_input, but outside the theorems' hypotheses)",
    "intervals have start <= end (with start > end the real code emits all-empty groups for ever; modelled, compared, outside the property's quantifier)",
    "chromosome is text, barcodes are text or missing (None), start/end are integers of any size",
    "when a contig list is supplied every chromosome of the inputs occurs in it (otherwise ValueError, modelled and compared)",
    "input iterators are list-backed: once exhausted they stay exhausted and never yield None",
]

EXC = {"KeyError": 1, "ValueError": 2, "TypeError": 3, "IndexError": 4, "AssertionError": 5,
       "StopIteration": 6, "NotImplementedError": 7, "Exception": 9}
CHROMS = ["chr1", "chr2", "chr10"]
KARYO = ["chr1", "chr2", "chr10"]
COLS = ["Tumor_Sample_Barcode", "Matched_Norm_Sample_Barcode", "Chromosome", "Start_Position",
        "End_Position", "Reference_Allele", "Tumor_Seq_Allele2", "Id"]

GDC_COLS = None
GDC_VALS = {"Hugo_Symbol": "TP53", "Entrez_Gene_Id": "7157", "Center": "BI", "NCBI_Build": "GRCh38", "Chromosome": "chr1",
            "Start_Position": "10", "End_Position": "11", "Strand": "+", "Variant_Classification": "Missense_Mutation",
            "Variant_Type": "SNP", "Reference_Allele": "A", "Tumor_Seq_Allele1": "A", "Tumor_Seq_Allele2": "C",
            "dbSNP_RS": "novel", "Tumor_Sample_Barcode": "T1", "Matched_Norm_Sample_Barcode": "N1",
            "Verification_Status": "Unknown", "Validation_Status": "Untested", "Mutation_Status": "Somatic",
            "Sequencer": "Illumina HiSeq 2000", "Tumor_Sample_UUID": "6e8d6b4c-3b1f-4c1e-9c3a-0a1b2c3d4e5f"}


# the column order of gdc-1.0.0 as published (files in the wild are written in this order); kept here
# independently of the tree under check, whose shipped scheme must agree with it
GDC_PUBLISHED = ['Hugo_Symbol', 'Entrez_Gene_Id', 'Center', 'NCBI_Build', 'Chromosome', 'Start_Position', 'End_Position',
                 'Strand', 'Variant_Classification', 'Variant_Type', 'Reference_Allele', 'Tumor_Seq_Allele1',
                 'Tumor_Seq_Allele2', 'dbSNP_RS', 'dbSNP_Val_Status', 'Tumor_Sample_Barcode', 'Matched_Norm_Sample_Barcode',
                 'Match_Norm_Seq_Allele1', 'Match_Norm_Seq_Allele2', 'Tumor_Validation_Allele1', 'Tumor_Validation_Allele2',
                 'Match_Norm_Validation_Allele1', 'Match_Norm_Validation_Allele2', 'Verification_Status', 'Validation_Status',
                 'Mutation_Status', 'Sequencing_Phase', 'Sequence_Source', 'Validation_Method', 'Score', 'BAM_File',
                 'Sequencer', 'Tumor_Sample_UUID', 'Matched_Norm_Sample_UUID']


def gdc_cols():
    """column names of the built-in scheme gdc-1.0.0, read from the tree under check
    (never import maflib here: generation runs in the framework's main process)"""
    global GDC_COLS
    if GDC_COLS is None:
        import json
        import os
        path = os.path.join(os.environ.get("VERIF_REPO", "/repo"), "maflib", "schemas", "gdc-1.0.0.json")
        GDC_COLS = [c[0] for c in json.load(open(path))["columns"]]
    return GDC_COLS


# record layout inside a case: [id, truthy, tumor, normal, chrom, start, end, ref, alts]
ID, TRU, TUM, NOR, CHR, ST, EN, REF, ALTS = range(9)


# ---------------------------------------------------------------- ordering (oracle side)
def okey(case, r):
    """the documented order: (barcodes,) contig rank or name, start, end"""
    ctg = case.get("contigs")
    c = ctg.index(r[CHR]) if ctg else r[CHR]
    pre = (_bk(r[TUM]), _bk(r[NOR])) if case["by_barcodes"] else ()
    return pre + (c, r[ST], r[EN])


def _bk(b):
    """a missing barcode (None) sorts after every text"""
    return (1, "") if b is None else (0, b)


def oclass(case, r):
    return ((r[TUM], r[NOR]) if case["by_barcodes"] else ()) + (r[CHR],)


def in_domain(case):
    ctg = case.get("contigs")
    for inp in case["inputs"]:
        for r in inp:
            if not r[TRU] or r[ST] is None or r[EN] is None or r[ST] > r[EN]:
                return False
            if ctg and r[CHR] not in ctg:
                return False
    return True


def first_descent(case, inp):
    for j in range(len(inp) - 1):
        if okey(case, inp[j + 1]) < okey(case, inp[j]):
            return j + 1
    return None


def chain_classes(case, recs):
    """overlap-chain classes by union-find over closed-interval overlap inside a class"""
    parent = {r[ID]: r[ID] for r in recs}

    def find(x):
        while parent[x] != x:
            parent[x] = parent[parent[x]]
            x = parent[x]
        return x

    for a, b in itertools.combinations(recs, 2):
        if oclass(case, a) == oclass(case, b) and a[ST] <= b[EN] and b[ST] <= a[EN]:
            parent[find(a[ID])] = find(b[ID])
    out = {}
    for r in recs:
        out.setdefault(find(r[ID]), set()).add(r[ID])
    return set(frozenset(v) for v in out.values())


# ---------------------------------------------------------------- implementation side
class Counting:
    """list-backed iterator that counts the items it has handed out"""

    def __init__(self, xs):
        self.xs = xs
        self.n = 0

    def __iter__(self):
        return self

    def __next__(self):
        if self.n >= len(self.xs):
            raise StopIteration
        v = self.xs[self.n]
        self.n += 1
        return v


def build_objects(case):
    """python objects of every input; the kind of object is chosen per input:
    loc = plain LocatableByAllele, maf = scheme-less MafRecord, gdc = gdc-1.0.0 MafRecord read under Silent
    from a file in the published column order, reader = a MafReader (scheme-less lines, header declaring a
    sort order) handed to the iterator as it is"""
    from maflib.locatable import LocatableByAllele
    from maflib.reader import MafReader
    from maflib.record import MafRecord
    from maflib.validation import ValidationStringency as VS

    before = dict((k, v) for k, v in case.get("ref_before", []))

    def ref0(r):
        return before.get(r[ID], r[REF])

    def gdc_line(r):
        vals = dict(GDC_VALS, Hugo_Symbol="G%d" % r[ID], Chromosome=r[CHR], Start_Position=str(r[ST]),
                    End_Position=str(r[EN]), Reference_Allele=ref0(r), Tumor_Seq_Allele2=(r[ALTS][0] if r[ALTS] else ""),
                    Tumor_Sample_Barcode=r[TUM], Matched_Norm_Sample_Barcode=(r[NOR] or ""))
        return "\t".join(vals.get(c, "") for c in GDC_PUBLISHED)

    def maf_line(r):
        if not r[TRU]:
            return "malformed"            # wrong number of columns: a zero-column (false) record under Silent
        alt = r[ALTS][0] if r[ALTS] else ""
        pos = ["" if v is None else str(v) for v in (r[ST], r[EN])]     # None: an empty position cell
        return "\t".join([r[TUM], r[NOR], r[CHR], pos[0], pos[1], ref0(r), alt, str(r[ID])])

    def mk_loc(r):
        if not r[TRU]:
            return MafRecord()          # zero columns: the false record
        if case.get("setters"):
            # the same locatable, filled in through the public property setters
            o = LocatableByAllele(None, None, None, r[REF], list(r[ALTS]))
            o.chromosome = r[CHR]
            o.start = r[ST]
            o.end = r[EN]
        else:
            o = LocatableByAllele(r[CHR], r[ST], r[EN], r[REF], list(r[ALTS]))
        o.rid = r[ID]
        vals = {"Tumor_Sample_Barcode": r[TUM], "Matched_Norm_Sample_Barcode": r[NOR]}
        o.value = vals.get
        return o

    out = []
    for inp, rt in zip(case["inputs"], rectypes_of(case)):
        if rt == "gdc":
            lines = ["#version gdc-1.0.0", "\t".join(GDC_PUBLISHED)] + [gdc_line(r) for r in inp if r[TRU]]
            recs = iter(list(MafReader(lines=lines, validation_stringency=VS.Silent)))
            out.append([next(recs) if r[TRU] else MafRecord() for r in inp])
        elif rt == "reader":
            hdr = ["#sort.order " + case.get("reader_order", "Coordinate")]
            if case.get("reader_contigs"):
                hdr.append("#contigs " + ",".join(case["reader_contigs"]))
            out.append(MafReader(lines=hdr + ["\t".join(COLS)] + [maf_line(r) for r in inp],
                                 validation_stringency=VS.Silent))
        elif rt == "maf":
            out.append([MafRecord.from_line(maf_line(r), column_names=COLS) if r[TRU] else MafRecord() for r in inp])
        else:
            out.append([mk_loc(r) for r in inp])
    return out


def rid_of(o):
    if hasattr(o, "rid"):
        return o.rid
    v = o.value("Id")
    if v is None:
        v = o.value("Hugo_Symbol")[1:]      # gdc records carry their tag in Hugo_Symbol
    return int(v)


def exc_code(e):
    return EXC.get(type(e).__name__, type(e).__name__)


def run_overlap(case):
    from maflib.overlap_iter import (AlleleOverlapType, LocatableByAlleleOverlapIterator,
                                     LocatableOverlapIterator)

    objs = build_objects(case)
    if case.get("ref_before"):
        # an earlier allele-aware pass over the same record objects, then Reference_Allele edited in place
        try:
            list(LocatableByAlleleOverlapIterator([iter(x) for x in objs], contigs=case.get("contigs"),
                                                  by_barcodes=case["by_barcodes"]))
        except Exception:
            pass
        final = dict((r[ID], r[REF]) for inp in case["inputs"] for r in inp)
        for x in objs:
            for o in x:
                if len(o):
                    o["Reference_Allele"].value = final[rid_of(o)]
    cnt = [x if not isinstance(x, list) else Counting(x) for x in objs]
    # documented defaults: contigs=None, by_barcodes=True, overlap_type=Equality, the stock PeekableIterator;
    # with "defaults" every argument that has its default value is left out of the call
    dflt = bool(case.get("defaults"))
    kw = {}
    if not (dflt and case.get("contigs") is None):
        kw["contigs"] = case.get("contigs")
    if not (dflt and case["by_barcodes"] is True):
        kw["by_barcodes"] = case["by_barcodes"]
    akw = {}
    if not (dflt and case["otype"] == 0):
        akw["overlap_type"] = AlleleOverlapType(case["otype"])
    if case.get("peek_sub") and case["kind"] == 0:
        from maflib.util import PeekableIterator

        style = int(case["peek_sub"])

        class ViaNext:
            """adapter a caller's filter may put around the iterator it is handed: python-2 style .next()"""

            def __init__(self, inner):
                self.inner = inner

            def __iter__(self):
                return self

            def __next__(self):
                return self.inner.next()

        class FilteringPeekable(PeekableIterator):
            """the documented extension point: a caller's own PeekableIterator subclass; style 2 takes
            iter() of the iterator it is handed, style 3 reads it through its .next() method"""

            def __init__(self, _iter):
                if style == 2:
                    _iter = iter(_iter)
                elif style == 3:
                    _iter = ViaNext(_iter)
                super().__init__(_iter)

        kw["peekable_iterator_class"] = FilteringPeekable
    if case.get("warmup"):
        # another iterator with another contig list, used earlier in the same process
        from maflib.locatable import Locatable
        try:
            list(LocatableOverlapIterator([iter([Locatable(c, 1, 2) for c in case["warmup"]])],
                                          contigs=list(case["warmup"]), by_barcodes=False))
        except Exception:
            pass
    try:
        if case["kind"] == 0:
            it = LocatableOverlapIterator(cnt, **kw)
        else:
            it = LocatableByAlleleOverlapIterator(cnt, **akw, **kw)
    except Exception as e:
        return {"init": [1, exc_code(e)], "steps": []}

    def pulled():
        return [getattr(c, "n", None) for c in cnt]

    obs = {"init": [0, pulled()], "steps": []}
    via = case.get("via", 0)            # 0: next(it)   1: it.next()   2: alternating
    for ncall in range(case["calls"]):
        try:
            g = it.next() if (via == 1 or (via == 2 and ncall % 2 == 1)) else next(it)
            out = [0, [[rid_of(o) for o in slot] for slot in g]]
        except StopIteration:
            obs["steps"].append([[1, 6], pulled()])
            break
        except Exception as e:
            out = [1, exc_code(e)]
        obs["steps"].append([out, pulled()])
    return obs


def run_impl(case):
    if "exh" in case:
        return {"batch": [run_overlap(c) for c in expand_batch(case)]}
    return run_overlap(case)


# ---------------------------------------------------------------- model wire
def m_rec(r):
    return [r[ID], 1 if r[TRU] else 0, OPT(r[TUM], S), OPT(r[NOR], S), S(r[CHR]), r[ST], r[EN], S(r[REF]),
            [S(a) for a in r[ALTS]]]


def m_overlap(case):
    return [0, case["kind"], case["otype"], 1 if case["by_barcodes"] else 0,
            [S(c) for c in (case.get("contigs") or [])],
            [[m_rec(r) for r in inp] for inp in case["inputs"]], case["calls"]]


def to_model(case):
    if "exh" in case:
        return [4, [m_overlap(c) for c in expand_batch(case)]]
    return m_overlap(case)


def d_overlap(sx):
    init = sx[0]
    if init[0] == 1:
        return {"init": [1, init[1][0]], "steps": []}
    obs = {"init": [0, init[1]], "steps": []}
    for o, cons in sx[1:]:
        if o[0] == 0:
            out = [0, o[1]]
        elif o[0] == 1:
            out = [1, o[1][0]]
        else:
            out = [2]
        obs["steps"].append([out, cons])
    return obs


def mask_consumed(case, obs):
    """pull counts of inputs that are MafReaders are counts of lines, which the model does not have"""
    rts = rectypes_of(case)
    if "reader" not in rts:
        return obs

    def m(cons):
        return [None if rts[i] == "reader" else c for i, c in enumerate(cons)]

    if obs["init"][0] == 0:
        obs["init"][1] = m(obs["init"][1])
    for st in obs["steps"]:
        st[1] = m(st[1])
    return obs


def rectypes_of(case):
    return case.get("rectypes") or [case["rectype"]] * len(case["inputs"])


def from_model(case, sx):
    if "exh" in case:
        return {"batch": [d_overlap(x) for x in sx]}
    return mask_consumed(case, d_overlap(sx))


# ---------------------------------------------------------------- the property oracle
def judge(case, obs):
    """C11 judged on the implementation's observable behaviour only"""
    if case["kind"] != 0 or not in_domain(case):
        return []
    out = []
    inputs = case["inputs"]
    desc = [first_descent(case, inp) for inp in inputs]
    sorted_all = all(d is None for d in desc)
    if obs["init"][0] != 0:
        # a report at construction time is still a report
        return ["constructor-raised-on-sorted-inputs"] if sorted_all else []
    steps = obs["steps"]
    groups = []
    first_exc = None
    for out_, _ in steps:
        if out_[0] == 0:
            groups.append(out_[1])
        else:
            first_exc = out_[1]
            break
    if sorted_all:
        if first_exc is None:
            return ["sorted-input-run-did-not-finish"]
        if first_exc != 6:
            return ["sorted-input-reported-as-error exc=%s" % first_exc]
        universe = [r for inp in inputs for r in inp]
        trunc = inputs
    else:
        if first_exc is None or first_exc == 6:
            out.append("unsorted-input-not-reported")
        # what the iterator can have seen before the report: the sorted prefixes
        trunc = [inp if d is None else inp[:d] for inp, d in zip(inputs, desc)]
        universe = [r for inp in trunc for r in inp]
        bad = set(r[ID] for inp, d in zip(inputs, desc) if d is not None for r in inp[d:])
        for g in groups:
            if any(x in bad for slot in g for x in slot):
                out.append("descending-record-emitted-in-a-group")
                break
    # shape
    for g in groups:
        if len(g) != len(inputs):
            return out + ["group-has-wrong-number-of-slots"]
    # partition: slot i over all groups is input i (a prefix of it when a report cut the run short)
    for i, inp in enumerate(trunc):
        got = [x for g in groups for x in g[i]]
        want = [r[ID] for r in inp]
        if sorted_all:
            if got != want:
                out.append("slots-do-not-reproduce-input")
        elif got != want[:len(got)]:
            out.append("slots-not-a-prefix-of-input")
    if any(all(len(s) == 0 for s in g) for g in groups):
        out.append("empty-group")
    # same group iff linked
    classes = chain_classes(case, universe)
    gsets = [frozenset(x for s in g for x in s) for g in groups]
    for gs in gsets:
        if gs and gs not in classes:
            out.append("group-is-not-an-overlap-chain-class")
            break
    if sorted_all and set(g for g in gsets if g) != classes:
        out.append("groups-differ-from-overlap-chain-classes")
    # ascending
    byid = {r[ID]: r for r in universe}
    prev = None
    for gs in gsets:
        if not gs or any(x not in byid for x in gs):
            continue
        ks = [okey(case, byid[x]) for x in gs]
        if prev is not None and not (prev < min(ks)):
            out.append("groups-not-in-key-order")
            break
        prev = max(ks)
    return sorted(set(out))


def oracle(case, obs):
    if "exh" in case:
        out = []
        for n, (c, o) in enumerate(zip(expand_batch(case), obs["batch"])):
            out.extend("%s @layout %d" % (v, n) for v in judge(c, o))
        return out
    return judge(case, obs)


def signature(case, violation):
    return violation.split(" ")[0]


def classify(case, obs):
    if "exh" in case:
        return "exhaustive-batch"
    if obs is None:
        return case["stream"] + "/error"
    dom = "dom" if in_domain(case) else "outside"
    srt = "-"
    if dom == "dom":
        srt = "sorted" if all(first_descent(case, i) is None for i in case["inputs"]) else "unsorted"
    nctg = len(case.get("contigs") or [])
    if "reader" in rectypes_of(case):
        return "%s/MafReader-inputs/%s" % (case["stream"], "dom" if in_domain(case) else "outside")
    mode = ("bar" if case["by_barcodes"] else "coord") + ("+ctg>10" if nctg > 10 else "+ctg" if nctg else "")
    return "%s/%s/%s/%s/n=%d" % (case["stream"], mode, dom, srt, len(case["inputs"]))


def nontrivial(case, obs):
    if "exh" in case:
        return True
    nrec = sum(len(i) for i in case["inputs"])
    ngroups = sum(1 for o, _ in obs["steps"] if o[0] == 0)
    reported = any(o[0] == 1 and o[1] != 6 for o, _ in obs["steps"])
    return nrec >= 3 and (ngroups >= 2 or reported)


# ---------------------------------------------------------------- generation
def fix_ids(case):
    n = 0
    for inp in case["inputs"]:
        for r in inp:
            r[ID] = n
            n += 1
    tot = n
    case["calls"] = tot + 3
    return case


def _interval(rng, family):
    if family == "point":
        a = rng.randint(1, 12)
        return a, a
    if family == "short":
        a = rng.randint(1, 11)
        return a, a + rng.randint(0, 2)
    a = rng.randint(1, 10)
    return a, a + rng.randint(0, 6)


def _alts(rng):
    pool = ["A", "C", "G", "T"]
    r = rng.random()
    if r < 0.15:
        return []
    if r < 0.6:
        return [rng.choice(pool)]
    return [rng.choice(pool) for _ in range(rng.randint(2, 3))]


def _records(rng, n, nchrom, nbar, family, pool=None):
    out = []
    for _ in range(n):
        a, b = _interval(rng, family)
        out.append([0, True, rng.choice(["T1", "T2"][:nbar]), rng.choice(["N1", "N2"][:nbar]),
                    rng.choice(pool or CHROMS[:nchrom]), a, b, rng.choice(["A", "C", "G"]), _alts(rng)])
    return out


def drop_barcodes(rng, case):
    """some records have no matched-normal (or no tumor) barcode: tumor-only calls, absent column"""
    for inp in case["inputs"]:
        for r in inp:
            if rng.random() < 0.3:
                r[NOR] = None
            if rng.random() < 0.1:
                r[TUM] = None
    return case


def long_contigs(rng):
    """a contig list with 11-30 entries and a pool of chromosomes on both sides of position 10
    (ranks whose decimal spellings order differently from the numbers)"""
    n = rng.randint(11, 30)
    names = ["chr%d" % i for i in range(1, n + 1)]
    if rng.random() < 0.3:
        rng.shuffle(names)
    low = rng.sample(names[1:10], rng.choice([1, 2]))
    high = rng.sample(names[10:], min(len(names) - 10, rng.choice([1, 2])))
    return names, low + high


def _mkcase(rng, stream, recs_per_input, by_barcodes, contigs, rectype, kind=0, otype=0):
    case = {"stream": stream, "kind": kind, "otype": otype, "by_barcodes": by_barcodes,
            "contigs": contigs, "rectype": rectype, "inputs": recs_per_input, "calls": 0}
    for inp in recs_per_input:
        for r in inp:
            if rectype == "maf":           # scheme-less text: a missing barcode is the empty text
                r[TUM] = r[TUM] or ""
                r[NOR] = r[NOR] or ""
            elif rectype == "gdc":         # typed: the tumor barcode is mandatory, an empty normal barcode is None
                r[TUM] = r[TUM] or "T1"
    if rectype in ("maf", "gdc"):
        # MafRecord.alts is always the one-element list [Tumor_Seq_Allele2]; scheme-less an empty cell is the
        # allele ""; under gdc-1.0.0 an empty DnaString cell is rejected and the column dropped (alts then
        # raises KeyError), so the deletion allele "-" stands in there
        for inp in recs_per_input:
            for r in inp:
                r[ALTS] = r[ALTS][:1] if r[ALTS] else ([""] if rectype == "maf" else ["-"])
                if rectype == "gdc" and r[ALTS] == [""]:
                    r[ALTS] = ["-"]
    return case


def _sort_inputs(case):
    for inp in case["inputs"]:
        inp.sort(key=lambda r: okey(case, r))
    return case


def gen_base(rng, stream, kind=0, otype=0):
    nin = rng.choice([1, 2, 2, 3, 3, 4])
    nchrom = rng.choice([1, 2, 3, 3])
    by_barcodes = rng.random() < 0.5
    nbar = rng.choice([1, 2]) if by_barcodes else rng.choice([1, 1, 2])
    family = rng.choice(["point", "short", "any", "any"])
    pool = None
    longc = None
    if rng.random() < 0.25:
        longc, pool = long_contigs(rng)
    inputs = [_records(rng, rng.choice([0, 1, 2, 3, 4, 5]), nchrom, nbar, family, pool) for _ in range(nin)]
    if rng.random() < 0.2:
        drop_barcodes(rng, {"inputs": inputs})
    if rng.random() < 0.08:
        # positions beyond 2**53: they must stay exact integers
        base = rng.choice([2 ** 53, 2 ** 53 + 1, 2 ** 63, 10 ** 20])
        for inp in inputs:
            for rec in inp:
                rec[ST] += base
                rec[EN] += base
    r = rng.random()
    if longc:
        contigs = longc
    elif r < 0.35:
        contigs = None
    elif r < 0.7:
        contigs = list(KARYO)
    else:
        contigs = list(KARYO)
        rng.shuffle(contigs)
    if rng.random() < 0.1 and contigs:
        contigs = contigs + ["chrX", contigs[0]]      # unused and duplicated entries
    q = rng.random()
    rectype = "maf" if q < 0.3 else "gdc" if q < 0.42 else "loc"
    case = _mkcase(rng, stream, inputs, by_barcodes, contigs, rectype, kind, otype)
    vary_call(rng, case)
    return _sort_inputs(case)


def vary_call(rng, case):
    """how the public API is driven: next(it) / it.next() / both in one run; arguments that have their
    documented default value passed or left out; another iterator with another contig order used before"""
    case["via"] = rng.choice([0, 0, 0, 1, 1, 2])
    case["defaults"] = rng.random() < 0.35
    case["setters"] = rng.random() < 0.3
    if case["kind"] == 0 and rng.random() < 0.15:
        case["peek_sub"] = rng.choice([1, 2, 3])
    ctg = case.get("contigs")
    if ctg and rng.random() < 0.25:
        w = list(dict.fromkeys(ctg))
        w.reverse()
        case["warmup"] = w
    return case


def gen_long_sparse(rng, kind=1, otype=0, n=None):
    """n consecutive positional groups holding records of the second input only, then one group with a
    first-input record (tiny records; the allele-aware iterator has to skip n groups inside one call)"""
    n = n or rng.randint(1100, 3000)
    second = [[0, True, "T1", "N1", "chr1", 3 * i + 1, 3 * i + 1, "A", ["C"]] for i in range(n)]
    first = [[0, True, "T1", "N1", "chr1", 3 * n + 5, 3 * n + 6, "A", ["C"]]]
    second.append([0, True, "T1", "N1", "chr1", 3 * n + 6, 3 * n + 6, "A", rng.choice([["C"], ["G"]])])
    case = _mkcase(rng, "long-sparse", [first, second], False, None, "loc", kind, otype)
    case["via"] = rng.choice([0, 1])
    case["defaults"] = rng.random() < 0.5
    fix_ids(case)
    if kind == 1:
        case["calls"] = 4
    return case


def as_readers(rng, case):
    """the same scheme-less records handed over as MafReaders whose header declares a sort order
    (the reader's own order check is not the iterator's business: the chosen order is the supplied one)"""
    if case["rectype"] != "maf" or case.get("peek_sub") or any(
            (not r[TRU]) or r[ST] is None for inp in case["inputs"] for r in inp):
        return case
    case["rectypes"] = [rng.choice(["reader", "reader", "maf"]) for _ in case["inputs"]]
    case["reader_order"] = rng.choice(["Coordinate", "BarcodesAndCoordinate"])
    if rng.random() < 0.3:
        case["reader_contigs"] = sorted(set(KARYO + (case.get("contigs") or [])))
    return case


def gen_valid(rng, kind=0, otype=0):
    return fix_ids(gen_base(rng, "valid", kind, otype))


def gen_defect(rng, kind=0, otype=0):
    for _ in range(20):
        case = gen_base(rng, "defect", kind, otype)
        r = rng.random()
        if r < 0.6:
            cands = [(i, j) for i, inp in enumerate(case["inputs"]) for j in range(len(inp) - 1)
                     if okey(case, inp[j]) != okey(case, inp[j + 1])]
            if not cands:
                continue
            i, j = rng.choice(cands)
            inp = case["inputs"][i]
            inp[j], inp[j + 1] = inp[j + 1], inp[j]
        elif r < 0.85:
            if not case.get("contigs"):
                case["contigs"] = list(KARYO)
            for inp in case["inputs"]:                  # sorted by name although a contig list is given
                inp.sort(key=lambda r: ((_bk(r[TUM]), _bk(r[NOR])) if case["by_barcodes"] else ()) + (r[CHR], r[ST], r[EN]))
        else:
            used = sorted(set(r[CHR] for inp in case["inputs"] for r in inp))
            if not used:
                continue
            drop = rng.choice(used)
            case["contigs"] = [c for c in KARYO if c != drop]
            _sort_inputs_partial(case)
        return fix_ids(case)
    return fix_ids(case)


def _sort_inputs_partial(case):
    ctg = case["contigs"]
    for inp in case["inputs"]:
        inp.sort(key=lambda r: ((_bk(r[TUM]), _bk(r[NOR])) if case["by_barcodes"] else ()) +
                 (ctg.index(r[CHR]) if r[CHR] in ctg else 99, r[ST], r[EN]))


def gen_boundary(rng, kind=0, otype=0):
    """chains of touching / just-not-touching intervals dealt over the inputs"""
    nin = rng.choice([1, 2, 3, 4])
    by_barcodes = rng.random() < 0.4
    inputs = [[] for _ in range(nin)]
    pos = rng.randint(1, 3)
    chrom = 0
    for _ in range(rng.randint(2, 9)):
        ln = rng.choice([0, 0, 1, 2, 5])
        a, b = pos, pos + ln
        rec = [0, True, "T1", "N1", CHROMS[chrom], a, b, rng.choice(["A", "C"]), _alts(rng)]
        inputs[rng.randrange(nin)].append(rec)
        step = rng.choice(["touch", "gap1", "same", "nested", "far", "chrom"])
        if step == "touch":
            pos = b
        elif step == "gap1":
            pos = b + 1
        elif step == "same":
            pos = a
        elif step == "nested":
            pos = a + (1 if ln > 1 else 0)
        elif step == "far":
            pos = b + 3
        else:
            chrom = min(chrom + 1, 2)
            pos = rng.randint(1, 3)
    contigs = rng.choice([None, list(KARYO), ["chr10", "chr2", "chr1"]])
    case = _mkcase(rng, "boundary", inputs, by_barcodes, contigs, rng.choice(["loc", "maf"]), kind, otype)
    vary_call(rng, case)
    return fix_ids(_sort_inputs(case))


def gen_adversarial(rng, kind=0, otype=0):
    case = gen_base(rng, "adversarial", kind, otype)
    r = rng.random()
    allrecs = [(i, j) for i, inp in enumerate(case["inputs"]) for j in range(len(inp))]
    if r < 0.3 and allrecs and kind == 0:
        i, j = rng.choice(allrecs)                     # an inverted interval
        rec = case["inputs"][i][j]
        rec[ST], rec[EN] = rec[EN] + 1, rec[ST]
    elif r < 0.55 and allrecs:
        i, j = rng.choice(allrecs)                     # a record that is false
        case["inputs"][i][j][TRU] = False
    elif r < 0.8:
        for inp in case["inputs"]:
            rng.shuffle(inp)
    elif r < 0.9:
        case["inputs"] = []
    else:
        case["contigs"] = []
    fix_ids(case)
    if r < 0.3:
        case["calls"] = min(case["calls"], 8)
    return case


def generate(rng, n):
    out = []
    for k in range(n):
        r = k % 10
        if k % 1200 == 11:
            out.append(gen_long_sparse(rng, 0, 0, rng.randint(1100, 1600)))
        elif r < 4:
            out.append(as_readers(rng, gen_valid(rng)) if k % 3 == 0 else gen_valid(rng))
        elif r < 6:
            out.append(as_readers(rng, gen_defect(rng)) if k % 4 == 1 else gen_defect(rng))
        elif r < 8:
            out.append(gen_boundary(rng))
        else:
            out.append(gen_adversarial(rng))
    if n >= N_THOROUGH:
        out.extend(exhaustive_batches())
    return out


# ---------------------------------------------------------------- exhaustive enumeration (thorough)
LINE = 6
MAXIV = 5
_IVS = [(a, b) for a in range(1, LINE + 1) for b in range(a, LINE + 1)]
BATCH = 2000


_CWR = {}


def _cwr(k):
    if k not in _CWR:
        _CWR[k] = list(itertools.combinations_with_replacement(_IVS, k))
    return _CWR[k]


def _blocks():
    """(k1, k2, first index, size) of the blocks of the enumeration, ordered by (k1, k2)"""
    out = []
    lo = 0
    for k1 in range(MAXIV + 1):
        for k2 in range(MAXIV + 1 - k1):
            n = len(_cwr(k1)) * len(_cwr(k2))
            out.append((k1, k2, lo, n))
            lo += n
    return out


def _layout_count():
    b = _blocks()[-1]
    return b[2] + b[3]


def _layout(idx):
    """the idx-th pair of sorted interval lists with at most MAXIV intervals in total"""
    for k1, k2, lo, n in _blocks():
        if idx < lo + n:
            a, b = divmod(idx - lo, len(_cwr(k2)))
            return _cwr(k1)[a], _cwr(k2)[b]
    raise IndexError(idx)


def exhaustive_batches():
    n = _layout_count()
    return [{"stream": "exhaustive", "exh": [lo, min(lo + BATCH, n)]} for lo in range(0, n, BATCH)]


def _layout_case(a, b):
    inputs = [[[0, True, "T1", "N1", "chr1", s, e, "A", ["C"]] for s, e in a],
              [[0, True, "T1", "N1", "chr1", s, e, "A", ["C"]] for s, e in b]]
    return fix_ids({"stream": "exhaustive", "kind": 0, "otype": 0, "by_barcodes": False, "contigs": None,
                    "rectype": "loc", "inputs": inputs, "calls": 0})


def expand_batch(case):
    lo, hi = case["exh"]
    return [_layout_case(*_layout(i)) for i in range(lo, hi)]


# ---------------------------------------------------------------- corpus and shrinking
def _r(i, chrom, s, e, t="T1", n="N1", ref="A", alts=("C",)):
    return [i, True, t, n, chrom, s, e, ref, list(alts)]


def corpus():
    out = []
    # the defect repaired by 9f77a2b: a contig list was ignored without barcode grouping
    out.append(fix_ids({"stream": "corpus", "kind": 0, "otype": 0, "by_barcodes": False, "contigs": list(KARYO),
                        "rectype": "loc", "inputs": [[_r(0, "chr2", 1, 2), _r(0, "chr10", 1, 2)]], "calls": 0}))
    out.append(fix_ids({"stream": "corpus", "kind": 0, "otype": 0, "by_barcodes": False,
                        "contigs": ["chr10", "chr2", "chr1"], "rectype": "maf",
                        "inputs": [[_r(0, "chr10", 5, 6), _r(0, "chr1", 1, 9)], [_r(0, "chr2", 1, 1), _r(0, "chr1", 9, 9)]],
                        "calls": 0}))
    # the docstring example, touching ends, a chain that extends the running end through a second sweep
    out.append(fix_ids({"stream": "corpus", "kind": 0, "otype": 0, "by_barcodes": False, "contigs": None, "rectype": "loc",
                        "inputs": [[_r(0, "chr1", 1, 10), _r(0, "chr1", 15, 15), _r(0, "chr1", 30, 40)],
                                   [_r(0, "chr1", 5, 25), _r(0, "chr1", 50, 60)]], "calls": 0}))
    out.append(fix_ids({"stream": "corpus", "kind": 0, "otype": 0, "by_barcodes": True, "contigs": None, "rectype": "maf",
                        "inputs": [[_r(0, "chr1", 1, 3), _r(0, "chr1", 7, 9)], [_r(0, "chr1", 3, 5), _r(0, "chr1", 10, 10)],
                                   [_r(0, "chr1", 5, 7), _r(0, "chr1", 9, 9, t="T2")]], "calls": 0}))
    # r2: ranks compared as text go wrong from the 11th contig on (chr3 before chr11 in a 25-contig list)
    c25 = ["chr%d" % i for i in range(1, 26)]
    for bb in (False, True):
        out.append(fix_ids({"stream": "corpus", "kind": 0, "otype": 0, "by_barcodes": bb, "contigs": list(c25), "rectype": "loc",
                            "inputs": [[_r(0, "chr3", 1, 5), _r(0, "chr11", 1, 5)], [_r(0, "chr2", 4, 4), _r(0, "chr10", 2, 9), _r(0, "chr11", 5, 6)]],
                            "calls": 0}))
    # r4: MafReader inputs whose header declares an order other than the supplied one; a missing normal barcode
    # sorts after every text; positions beyond 2**53 stay exact
    out.append(fix_ids({"stream": "corpus", "kind": 0, "otype": 0, "by_barcodes": False, "contigs": ["chr2", "chr10", "chr1"],
                        "rectype": "maf", "rectypes": ["reader", "reader"], "reader_order": "Coordinate",
                        "inputs": [[_r(0, "chr2", 1, 5), _r(0, "chr10", 1, 5), _r(0, "chr1", 3, 3)], [_r(0, "chr10", 5, 6), _r(0, "chr1", 1, 2)]],
                        "calls": 0}))
    out.append(fix_ids({"stream": "corpus", "kind": 0, "otype": 0, "by_barcodes": True, "contigs": None, "rectype": "loc",
                        "inputs": [[_r(0, "chr1", 1, 5, n="N1"), _r(0, "chr1", 1, 5, n=None)], [_r(0, "chr1", 2, 2, n="N2"), _r(0, "chr1", 5, 6, n=None)]],
                        "calls": 0}))
    out.append(fix_ids({"stream": "corpus", "kind": 0, "otype": 0, "by_barcodes": True, "contigs": None, "rectype": "gdc",
                        "inputs": [[_r(0, "chr1", 1, 5, n="N1"), _r(0, "chr1", 1, 5, n=None)]], "calls": 0}))
    P = 2 ** 53
    out.append(fix_ids({"stream": "corpus", "kind": 0, "otype": 0, "by_barcodes": False, "contigs": None, "rectype": "maf",
                        "inputs": [[_r(0, "chr1", P, P), _r(0, "chr1", P + 1, P + 1)], [_r(0, "chr1", P + 2, P + 3)]], "calls": 0}))
    out.append(fix_ids({"stream": "corpus", "kind": 0, "otype": 0, "by_barcodes": False, "contigs": None, "rectype": "loc",
                        "inputs": [[_r(0, "chr1", P + 1, P + 1), _r(0, "chr1", P, P)]], "calls": 0}))
    # an adjacent descent
    out.append(fix_ids({"stream": "corpus", "kind": 0, "otype": 0, "by_barcodes": False, "contigs": None, "rectype": "loc",
                        "inputs": [[_r(0, "chr1", 1, 2), _r(0, "chr1", 8, 9), _r(0, "chr1", 4, 5)], [_r(0, "chr1", 2, 3)]],
                        "calls": 0}))
    return out


def shrink(case):
    if "exh" in case:
        for c in expand_batch(case):
            yield c
        return
    ins = case["inputs"]
    for i in range(len(ins)):
        if len(ins) > 1:
            c2 = dict(case, inputs=[[list(r) for r in x] for k, x in enumerate(ins) if k != i])
            if case.get("rectypes"):
                c2["rectypes"] = [t for k, t in enumerate(case["rectypes"]) if k != i]
            yield fix_ids(c2)
        for j in range(len(ins[i])):
            yield fix_ids(dict(case, inputs=[[list(r) for jj, r in enumerate(x) if not (k == i and jj == j)]
                                            for k, x in enumerate(ins)]))
    if case.get("rectypes"):
        yield dict({k: v for k, v in case.items() if k != "rectypes"})
    if case.get("rectype") in ("maf", "gdc"):
        yield dict(case, rectype="loc")
