"""C17 - Reported line numbers point at the offending line.

A case is a whole file (list of lines, optional overriding scheme); the
implementation side reads it once in Silent mode (all errors collected) and
once in Strict mode (the first error raised) through MafReader's public API:
either MafReader(lines=...) or, for files without CR/LF inside a line, the
lines written to a scratch file (plain or .gz, LF or CRLF endings) under
/verif/work and opened with MafReader.reader_from(path).
Oracle (independent of the model): the physical line numbers are recomputed in
python from the file shape - pragma line k is line k and its category is
re-derived from the text by a classifier written from the property statement;
column-line errors and "missing column names" carry H+1; the errors of the
record parsed from the j-th data line carry H+1+j; a Strict exception carries
the number of the line it stopped at."""
import rd_common as R
from C16 import split_file

PID = "C17"
CLUSTER = "Reader"
PROPS = "props/C17.v"
N_QUICK = 1900
N_THOROUGH = 20000
RULE = ("file shapes H in 0..4 pragma lines x column line absent/last/followed by 0..5 data lines, with one defect at "
        "every position (each pragma line: missing separator, empty key, empty value, duplicate of an earlier key, "
        "unknown sort order; the column line: duplicated/dropped/renamed name, also under the 34-column gdc-1.0.0 "
        "scheme; each data line: wrong field count, CR inside a field, blank line, pragma text), plus the random "
        "valid/defect/adversarial file stream shared with C16; files with two and three defects (pragma lines: every ordered "
        "pair of missing separator/empty key/empty value/unknown sort order/duplicate key at adjacent and distant "
        "positions, triples; data lines: two defective lines, the same bad line twice; pragma and data defects together); each file read in Silent and in Strict mode; "
        "non-trivial: at least one error with a line number was reported; distinct by hash of (lines, override)")
ASSUMPTIONS = [
    "hypothesis of the theorems: every scheme (registry entry or override) has distinct column names - schemes keep "
    "their columns in a dict; checked on the imported registry each run (generated obligation)",
    "typed column classes are represented in the extracted run by an oracle table from the real classes (see C16)",
    "the scheme registry is read from all_schemes() of the imported library",
    "an error 'refers to a line' when its type is one of the pragma-line categories, a column-name error, "
    "'missing column names', or when it was produced while parsing a data line",
]

PRAGMAS = ["#version v1", "#center c", "#sort.order Unsorted", "#contigs chr1,chr2"]
HDR_DEFECTS = ["#nosep", "# v", "#k  ", "#sort.order bogus", "DUP"]


def _grid():
    out = []
    for H in range(5):
        base = PRAGMAS[:H]
        for col in (None, "a\tb"):
            for nd in ([0] if col is None else range(6)):
                data = ["%d\t%d" % (j, j) for j in range(nd)]
                tail = ([] if col is None else [col]) + data
                shape = {"stream": "grid", "H": H, "col": col is not None, "data": nd}
                out.append({"lines": base + tail, "override": None, "shape": dict(shape, defect=None)})
                # one defect at every pragma position
                for p in range(H + 1):
                    for d in HDR_DEFECTS:
                        if d == "DUP":
                            if p == 0:
                                continue
                            line = base[0]
                        else:
                            line = d
                        hl = base[:p] + [line] + base[p:]
                        out.append({"lines": hl + tail, "override": None,
                                    "shape": dict(shape, H=H + 1, defect="hdr@%d" % (p + 1))})
                if col is not None:
                    for c2 in ("a\ta", "a", "a\tb\tc"):
                        out.append({"lines": base + [c2] + data, "override": None, "shape": dict(shape, defect="col")})
                    for j in range(nd):
                        for bad in ("x", "1\t2\t3", "", "1\ta\rb", "#late pragma"):
                            d2 = data[:j] + [bad] + data[j + 1:]
                            out.append({"lines": base + [col] + d2, "override": None,
                                        "shape": dict(shape, defect="data@%d" % (j + 1))})
    return out


def _multi_defect():
    """two and three defects per file: pragma lines (malformed + malformed, malformed + duplicate key, malformed +
    unknown sort order, in every order, adjacent and not) and data lines (two defective lines, the same bad line twice)"""
    import itertools
    out = []
    good = ["#version v1", "#center c", "#sort.order Unsorted", "#k v", "#j w"]
    bads = {"nosep": "#nosep", "emptykey": "# v", "emptyval": "#k2  ", "badorder": "#sort.order bogus", "dup": "#version v1"}
    tails = ([], ["a\tb"], ["a\tb", "1\t2", "3"])
    # pairs and triples of defects inserted at chosen positions among the good pragmas
    for kinds in list(itertools.permutations(bads, 2)) + [("nosep", "nosep"), ("emptyval", "emptyval"),
                                                          ("nosep", "emptykey", "dup"), ("dup", "nosep", "badorder"),
                                                          ("badorder", "emptyval", "nosep"), ("nosep", "dup", "dup")]:
        for positions in ((1, 2), (1, 3), (1, 5), (2, 4), (0, 1), (0, 5)) if len(kinds) == 2 else ((1, 2, 3), (0, 2, 5), (1, 3, 5)):
            if "dup" in kinds and kinds[0] == "dup" and positions[0] == 0:
                pass        # a "duplicate" placed first is simply the first version line: still a valid file
            hl = list(good)
            for kind, pos in sorted(zip(kinds, positions), key=lambda kp: -kp[1]):
                hl.insert(pos, bads[kind])
            tail = tails[(len(out)) % 3]
            out.append({"lines": hl + tail, "override": None,
                        "shape": {"stream": "multi", "H": len(hl), "col": bool(tail), "data": max(0, len(tail) - 1),
                                  "defect": "hdr+hdr" + ("+hdr" if len(kinds) == 3 else "")}})
    # data lines: two defective lines among five, and the same bad line twice
    base = ["#version v1", "a\tb"]
    data = ["%d\t%d" % (j, j) for j in range(5)]
    for b1, b2 in itertools.product(("x", "1\t2\t3", "", "1\ta\rb"), repeat=2):
        for i, j in ((0, 1), (0, 4), (1, 3), (3, 4)):
            d = list(data)
            d[i], d[j] = b1, b2
            out.append({"lines": base + d, "override": None,
                        "shape": {"stream": "multi", "H": 1, "col": True, "data": 5, "defect": "data+data"}})
    # pragma defects and data defects together
    for kind in bads:
        out.append({"lines": ["#nosep", "#version v1", bads[kind], "a\tb", "1", "1\t2", "1\t2\t3"], "override": None,
                    "shape": {"stream": "multi", "H": 3, "col": True, "data": 3, "defect": "hdr+hdr+data"}})
    return out


def _typed_grid():
    sch = R.builtin_scheme("gdc-1.0.0")
    names = sch.column_names()
    import random
    rng = random.Random(5)
    out = []
    for hl in (["#version gdc-1.0.0"], ["#k v", "#version gdc-1.0.0", "#sort.order Coordinate"]):
        good = [R.valid_line(rng, sch, chrom="chr1", start=10 + j) for j in range(3)]
        for nd in (0, 1, 3):
            shape = {"stream": "typed-grid", "H": len(hl), "col": True, "data": nd}
            renamed = names[:]
            renamed[5] = "Start"
            for col in ("\t".join(names), "\t".join(renamed), "\t".join(names[:-1])):
                out.append({"lines": hl + [col] + good[:nd], "override": None, "shape": dict(shape, defect="col")})
            for j in range(nd):
                f = good[j].split("\t")
                f[5] = "zero"
                d2 = good[:j] + ["\t".join(f)] + good[j + 1:nd]
                out.append({"lines": hl + ["\t".join(names)] + d2, "override": None,
                            "shape": dict(shape, defect="data@%d" % (j + 1))})
    return out


def EXTRA_OBLIGATIONS(ctx):
    return [R.schemes_wf_obligation()]


def corpus():
    return [
        {"lines": ["#version gdc-1.0.0", "a\tb"], "override": None, "shape": {"stream": "corpus", "defect": "col-last"}},
        {"lines": ["a\ta"], "override": None, "shape": {"stream": "corpus", "defect": "col-last"}},
        {"lines": ["#version gdc-1.0.0", "#k", "a\tb", "1"], "override": None, "shape": {"stream": "corpus", "defect": "mix"}},
        {"lines": ["#a b"], "override": None, "shape": {"stream": "corpus", "defect": "no-col"}},
    ]


def _blank_line_files():
    """files with empty lines in every region, to be read back from disk"""
    out = []
    for hl in ([], ["#version v1"], ["#version v1", "#k"]):
        for tail in (["a\tb", "", "1\t2", "3"], ["a\tb", "1\t2", "", "", "3\t4\t5"], ["", "a\tb", "1"],
                     ["a\tb", "1\t2", ""], ["a\tb", "", ""], ["a\ta", "", "1"]):
            out.append({"lines": hl + tail, "override": None,
                        "shape": {"stream": "blank-lines", "H": len(hl), "col": True, "data": len(tail) - 1,
                                  "defect": "data+blank"}})
    return out


def _with_channel(cases):
    """every file that survives being written to disk is read through one of the three channels"""
    out = []
    for k, c in enumerate(cases):
        ch = "lines"
        if R.file_safe(c["lines"]) and c.get("override") is None:
            ch = ("lines", "path", "gz")[k % 3]
            if R.focused_fn("reader_from") and k % 3 == 0 and k % 2 == 0:
                ch = "path"         # the path entry point changed: read more files through it
        if c["shape"].get("stream") in ("blank-lines", "linebreak-like"):
            ch = ("path", "gz")[k % 2]
        if "switch_at" in c or "lr" in c:
            ch = "lines"
        out.append(dict(c, channel=ch))
    return out


def focus(changed):
    R.set_focus(changed)


def _switch_cases():
    """files read in Silent mode up to record k, then with reader.validation_stringency = Strict"""
    out = []
    data = ["1\t2", "3", "4\t5", "6\t7\t8", "9\t9"]
    for hl in ([], ["#version v1"], ["#nosep", "#version v1"], ["#version v1", "#k", "# v"]):
        for k in range(0, 5):
            out.append({"lines": hl + ["a\tb"] + data, "override": None, "switch_at": k,
                        "shape": {"stream": "switch", "H": len(hl), "col": True, "data": 5, "defect": "data+data"}})
        out.append({"lines": hl + ["a\ta"] + data[:2], "override": None, "switch_at": 0,
                    "shape": {"stream": "switch", "H": len(hl), "col": True, "data": 2, "defect": "col"}})
    return out


def _line_reader_cases():
    """LineReader over a text (io.StringIO or a real file handle): k lines consumed with read_line(), then
    MafHeader.from_line_reader - every pragma-line error must carry the line's number in the reader's input"""
    out = []
    blocks = (["#nosep", "#version v1"], ["#version v1", "#", "#version v1"], ["# v", "#k ", "#sort.order bogus"],
              ["#k v", "#k w", "#nosep"])
    for i, block in enumerate(blocks):
        for head in ([], ["title"], ["p1", "p2", "p3"], ["#pre v", "#pre2"]):
            for pre in sorted({0, len(head), max(0, len(head) - 1), len(head) + 1}):
                for tail in ([], ["a\tb", "1"]):
                    out.append({"lines": head + block + tail, "override": None,
                                "lr": {"pre": pre, "handle": ("stringio", "file")[(i + pre + len(tail)) % 2]},
                                "shape": {"stream": "linereader", "H": len(block), "col": bool(tail),
                                          "data": max(0, len(tail) - 1), "defect": "hdr+hdr"}})
    return out


def generate(rng, n):
    out = (_line_reader_cases() + _switch_cases() + R.linebreak_like_cases() + _blank_line_files() + _multi_defect() + _grid() + _typed_grid()
           + [c for c in R.typed_special_cases() if c["shape"]["defect"] in ("format-text", "cr-text")])
    while len(out) < n:
        out.append(R.gen_reader_case(rng, rng.choice(["valid", "defect", "defect", "adversarial"])))
    return _with_channel(out)


def shrink(case):
    yield from R.shrink_lines(case)


def to_model(case):
    if "lr" in case:
        return R.wire_line_reader(case["lines"], "Silent", 0, True, case["lr"]["pre"])
    return [9] + [R.wire_reader(case["lines"], m, case["override"]) for m in ("Silent", "Strict")]


def run_impl(case):
    if "lr" in case:
        o = R.impl_line_reader(case["lines"], "Silent", 0, True, case["lr"]["pre"], case["lr"]["handle"])
        return {"lr": {k: v for k, v in o.items() if not k.startswith("_")}}
    ch = case.get("channel", "lines")
    if ch != "lines" and not R.file_safe(case["lines"]):
        ch = "lines"        # a shrunk or edited case that no longer fits a file
    obs = {m: R.impl_reader(case["lines"], m, case["override"], ch) for m in ("Silent", "Strict")}
    if "switch_at" in case:
        obs["_switch"] = R.impl_reader_switch(case["lines"], case["override"], case["switch_at"])
    return obs


def comparable(obs):
    return {k: v for k, v in obs.items() if not k.startswith("_")}


def from_model(case, sx):
    if "lr" in case:
        return {"lr": R.dec_line_reader(sx)}
    return {"Silent": R.dec_reader(sx[0]), "Strict": R.dec_reader(sx[1])}


def _lr_oracle(case, obs):
    out = []
    lines = case["lines"]
    start = 0
    for _ in range(case["lr"]["pre"]):
        if start < len(lines) and lines[start] != "":
            start += 1
    k = start
    while k < len(lines) and lines[k].startswith("#"):
        k += 1
    _, diags = R.spec_header(lines[start:k])
    expected = [[c, n + start] for c, n in diags]       # physical: the line's 1-based number in the reader's input
    res = obs["lr"]["header"]["res"]
    if res[0] != "ok":
        return ["linereader-silent-failed %r" % (res[1],)]
    got = [e for e in res[1]["errs"] if e[0] in R.HEADER_LINE_CODES]
    if got != expected:
        out.append("linereader-pragma-line-errors %r expected %r" % (got[:4], expected[:4]))
    if obs["lr"]["lineno"] != k:
        out.append("linereader-line-number %r expected %d" % (obs["lr"]["lineno"], k))
    return out


def oracle(case, obs):
    if "lr" in case:
        return _lr_oracle(case, obs)
    out = []
    hl, col, data = split_file(case["lines"])
    H = len(hl)
    kept, diags = R.spec_header([l.rstrip("\r\n") for l in hl])
    s = obs["Silent"]
    if s["init"][0] != "ok":
        return ["silent-open-failed %s" % s["init"][1][0]]
    init_errs = s["init"][1]["errs"]
    got_hdr = [e for e in init_errs if e[0] in R.HEADER_LINE_CODES]
    if got_hdr != diags:
        out.append("pragma-line-errors %r expected %r" % (got_hdr[:4], diags[:4]))
    for e in init_errs:
        if e[0] in (22, 23):
            if e[1] != H + 1:
                out.append("column-line-error-number %r expected %d" % (e, H + 1))
        elif e[0] == 12:
            if e[1] != H + 1 or col is not None:
                out.append("missing-column-names-number %r expected %d" % (e, H + 1))
        elif e[0] not in R.HEADER_LINE_CODES and e[1] is not None:
            out.append("header-level-error-with-number %r" % (e,))
    if col is None and not any(e[0] == 12 for e in init_errs):
        out.append("missing-column-names-not-reported")
    total = list(init_errs)
    # the j-th record is the parse of the j-th data line (otherwise its number is the number of some other text)
    if s["end"] is None and len(s["recs"]) != len(data):
        out.append("records-do-not-match-data-lines %d records for %d lines" % (len(s["recs"]), len(data)))
    for j, r in enumerate(s["recs"]):
        if j < len(data):
            fields = data[j].rstrip("\r\n").split("\t")
            texts = [sl[2] for sl in r["slots"] if sl is not None]
            bad_count = any(e[0] == 17 for e in r["errs"])
            if bad_count and len(fields) == len((s["init"][1]["scheme"] or [0, 0, 0, []])[3]):
                out.append("count-error-numbered-%s-but-that-line-has-the-right-count" % (r["errs"][0][1],))
            if (not r["errs"]) and s["init"][1]["scheme"] and s["init"][1]["scheme"][2] and texts != fields:
                out.append("record-%d-is-not-the-parse-of-data-line-%d" % (j + 1, j + 1))
        phys = H + 1 + (j + 1)
        for e in r["errs"]:
            if e[1] != phys:
                out.append("data-line-error-number %r expected %d" % (e, phys))
        total += r["errs"]
    tail = s["errs"][len(total):]
    if s["errs"][:len(total)] != total:
        out.append("reader-errors-not-init-plus-records")
    phys = H + 1 + len(s["recs"]) + 1
    for e in tail:        # the record that was parsed but not yielded (ordering error)
        if e[1] != phys:
            out.append("data-line-error-number %r expected %d" % (e, phys))
    # stringency switched to Strict after k records: a failure is about the line being read, not an older one
    sw = obs.get("_switch")
    if sw is not None and sw["init"] is None:
        for j, st in enumerate(sw["steps"]):
            phys = H + 1 + (j + 1)
            want = s["recs"][j]["errs"] if j < len(s["recs"]) else None
            if st[0] == "exc" and st[1][0] == "MafFormatException":
                if want is None or not want or [st[1][1], st[1][2]] != want[0] or st[1][2] != phys:
                    out.append("switched-strict-exception %r at-record-%d expected %r" % (st[1][1:], j + 1, (want or [None])[0]))
            elif st[0] == "rec" and j >= case["switch_at"] and st[1]:
                out.append("switched-strict-returned-a-record-with-errors at-record-%d" % (j + 1))
    # Strict: the exception stops at a physical line
    t = obs["Strict"]
    if t["end"] is not None and t["end"][0] == "MafFormatException":
        tpe, ln = t["end"][1], t["end"][2]
        if t["init"][0] != "ok":
            if tpe in R.HEADER_LINE_CODES:
                if [tpe, ln] not in diags:
                    out.append("strict-pragma-line-number %r" % ([tpe, ln],))
            elif tpe in (12, 22, 23):
                if ln != H + 1:
                    out.append("strict-column-line-number %r expected %d" % ([tpe, ln], H + 1))
            elif ln is not None:
                out.append("strict-header-level-error-with-number %r" % ([tpe, ln],))
        else:
            phys = H + 1 + len(t["recs"]) + 1
            if ln != phys:
                out.append("strict-data-line-number %r expected %d" % ([tpe, ln], phys))
    return out


def signature(case, violation):
    return violation.split(" ")[0]


def classify(case, obs):
    if "lr" in case:
        return "linereader/%s/pre=%d" % (case["lr"]["handle"], min(case["lr"]["pre"], 3))
    sh = case.get("shape", {})
    if obs is None:
        return "%s/error" % sh.get("stream")
    d = sh.get("defect")
    kind = "none" if d is None else d.split("@")[0].split("+")[0]
    return "%s/%s/H=%s/col=%s/data=%s/defect=%s" % (case.get("channel", "lines"), sh.get("stream"), sh.get("H"), sh.get("col"),
                                                  "0" if not sh.get("data") else ("1-2" if sh.get("data") < 3 else "3+"), kind)


def nontrivial(case, obs):
    if "lr" in case:
        r = obs["lr"]["header"]["res"]
        return r[0] == "ok" and any(e[1] is not None for e in r[1]["errs"])
    return any(e[1] is not None for e in obs["Silent"]["errs"])
