"""C03 - Validation stringency changes how problems are reported, never what is parsed.

Every case is one input run under Strict, Lenient, Silent and the default (None,
which must behave as Silent) through one of
the five public entry points that take a stringency:
  header   MafHeader.from_lines(lines, validation_stringency=m)
  line     MafRecord.from_line(line, column_names/scheme, line_number, validation_stringency=m)
  validate record.validate(validation_stringency=m, reset_errors, scheme) on a record parsed in Silent mode
  reader   MafReader(lines, validation_stringency=m, scheme=...) iterated to the end
  writer   MafWriter.from_fd(StringIO, ...) or MafWriter.from_path(scratch file, plain or .gz) with
           validation_stringency=m, and `writer += record` for each record
Logs are captured with a handler on the `maflib` logger.  Oracle (independent
of the model): Silent and Lenient give identical results and error lists and
never raise MafFormatException; Silent logs nothing; Lenient logs a WARNING for
every collected error; Strict raises MafFormatException(tpe, line) of the first
error the other modes collect up to the same point, and equals them when there
is none (for the reader and the writer: per prefix of the interaction)."""
import rd_common as R

PID = "C03"
CLUSTER = "Reader"
PROPS = "props/C03.v"
N_QUICK = 1800
N_THOROUGH = 24000
RULE = ("one input under the three stringencies and the default (None) for each of five entry points: header line sequences (pragma grammar "
        "of C13), single records (explicit names and/or scheme: untyped, NoRestrictions, gdc-1.0.0 with valid lines "
        "from the real classes' accepted texts; defects: field count, invalid/control-character field, names not "
        "matching the scheme, duplicated names, no line number), record.validate (reset on/off, scheme none/same/"
        "other, stored columns modified in place: column_index or key reassigned), whole files (the valid/defect/boundary/adversarial stream of C16, with and without sort orders and "
        "contigs), writer sessions (header with/without scheme, 0-4 records some invalid; through from_fd on StringIO "
        "and from_path on plain and .gz scratch files under /verif/work; sorting writers - assume_sorted=False under a "
        "declared coordinate-type order - observed through close()); inputs collecting more than 100 errors in one call (101 broken pragma lines, a reversed 119-column line); a "
        "caller-supplied scheme of another version together with header defects; writers given a header object that "
        "remembers another stringency; texts with %, %s, %d in pragma values, keys, column "
        "names and cells so that echoed diagnostics contain format characters; non-trivial: at least one "
        "validation error is collected in Silent mode; distinct by case hash")
ASSUMPTIONS = [
    "typed column classes are represented in the extracted run by an oracle table from the real classes (see C16)",
    "the scheme registry is read from all_schemes() of the imported library",
    "writer model: assume_sorted=True; for sorting writers (assume_sorted=False) the model is compared on opening and on "
    "every add only, the behaviour of close() (re-reading through the sorter) is judged by the oracle alone; order and "
    "re-rendering of sorted output belong to C10; records handed to the writer come from MafRecord.from_line",
    "log records are compared as (logger, level, error type, line number) or the reader's no-matching-scheme warning",
]

MODES = R.MODES
GDC = ["builtin", "gdc-1.0.0"]


# ------------------------------------------------------------------ generators
def _gdc_line(rng):
    return R.valid_line(rng, R.builtin_scheme("gdc-1.0.0"), chrom=rng.choice(R.CHROMS), start=rng.randint(1, 500))


def _spoil(rng, line):
    f = line.split("\t")
    r = rng.random()
    if r < 0.3 and len(f) > 1:
        del f[rng.randrange(len(f))]
    elif r < 0.4:
        f.append("extra")
    elif r < 0.9:
        for _ in range(rng.choice([1, 1, 2, 3])):
            f[rng.randrange(len(f))] = rng.choice(R.BAD_FIELDS)
    else:
        f[rng.randrange(len(f))] += rng.choice(["\r", "\x00", " "])
    return "\t".join(f)


def _gen_spec(rng, stream):
    """a from_line argument set"""
    r = rng.random()
    if r < 0.4:
        names = list(rng.choice(R.PLAIN_NAMESETS))
        line = "\t".join(rng.choice(["x", "y", "1", "", "a b", "chr1"]) for _ in names)
        scheme = rng.choice([None, None, ["norestr", names[:]]])
        spec_names = names if (scheme is None or rng.random() < 0.5) else None
    elif r < 0.8:
        line = _gdc_line(rng)
        scheme = GDC
        spec_names = None if rng.random() < 0.7 else R.builtin_scheme("gdc-1.0.0").column_names()
    else:
        names = list(rng.choice(R.PLAIN_NAMESETS))
        line = "\t".join("v%d" % i for i in range(len(names)))
        scheme = ["norestr", names[:]]
        spec_names = names[:]
    if stream != "valid":
        k = rng.random()
        if k < 0.5:
            line = _spoil(rng, line)
        elif k < 0.65 and spec_names:
            spec_names = spec_names[:]
            i = rng.randrange(len(spec_names))
            spec_names[i] = rng.choice(["zz", spec_names[0], ""])
        elif k < 0.8 and spec_names and len(spec_names) > 1:
            spec_names = spec_names[:]
            i = rng.randrange(len(spec_names) - 1)
            spec_names[i], spec_names[i + 1] = spec_names[i + 1], spec_names[i]
        elif k < 0.9 and scheme is not None and scheme[0] == "norestr":
            scheme = ["norestr", ["other"] + scheme[1][1:]]
        else:
            line = line + rng.choice(["\r\n", "\n", "\r"])
    ln = rng.choice([None, 1, 7, 7, 42])
    if rng.random() < 0.03:
        spec_names, scheme = None, None        # neither column names nor a scheme: ValueError in every mode
    return {"line": line, "names": spec_names, "scheme": scheme, "ln": ln}


def _gen_writer(rng, stream):
    flavour = rng.choice(["gdc", "gdc", "plain", "plain-clean", "unknown", "public-missing-annotation"])
    if flavour == "gdc":
        hl = ["#version gdc-1.0.0"]
    elif flavour == "plain-clean":
        hl = list(CLEAN_SCHEMELESS)
    elif flavour == "plain":
        hl = [] if rng.random() < 0.5 else ["#center x"]
    elif flavour == "unknown":
        hl = ["#version v9", "#annotation.spec nope"]
    else:
        hl = ["#version gdc-1.0.0", "#annotation.spec " + rng.choice(["junk", "gdc-1.0.0"])]
    if rng.random() < 0.3:
        hl.append("#sort.order " + rng.choice(R.SORT_NAMES))
    specs = []
    for _ in range(rng.randint(0, 4)):
        if flavour == "gdc" and rng.random() < 0.85:
            line = _gdc_line(rng)
            if stream != "valid" and rng.random() < 0.4:
                line = _spoil(rng, line)
            specs.append({"line": line.replace("\n", " "), "names": None, "scheme": GDC, "ln": rng.choice([None, 3])})
        else:
            names = ["a", "b", "c"] if rng.random() < 0.7 else ["a", "b"]
            if flavour != "gdc" and rng.random() < 0.3:
                # names a scheme-less writer cannot put on the column line (first name starting with '#', a name with
                # TAB / CR / LF) and look-alikes it can ('#' in a later name)
                names = rng.choice([[], [], ["#a", "b"], ["a", "#b"], ["a\tx", "b"], ["a", "b\r"], ["a\nb", "c"], ["#", "b"],
                                    ["a", "b\tc", "d"], ["a b", "c"]])
            line = "\t".join(rng.choice(["x", "y", ""]) for _ in names) if names else "x"     # no names: a record without columns
            if stream != "valid" and rng.random() < 0.4:
                line = _spoil(rng, line).replace("\n", " ")
            specs.append({"line": line, "names": names, "scheme": None, "ln": rng.choice([None, 5])})
    return {"kind": "writer", "stream": stream, "hlines": hl, "specs": specs,
            "channel": rng.choice(["fd", "fd", "path", "gz", "gz"]),
            # the header object may remember another stringency than the one the writer is given
            "hmode": rng.choice([None, None, "Lenient", "Strict", "Strict"])}


# a header that passes the header checks and names no scheme: a Strict writer opens on it and stays scheme-less
CLEAN_SCHEMELESS = ["#version no-version", "#annotation.spec no-annotation-specification"]


def _gen_sorting_writer(rng, stream):
    """a writer that sorts (assume_sorted=False under a declared coordinate-type order): the records go through
    the sorter and are re-read when the writer is closed"""
    order = rng.choice(["Coordinate", "BarcodesAndCoordinate"])
    typed = rng.random() < 0.5
    hl = (["#version gdc-1.0.0"] if typed else rng.choice([[], ["#center x"]])) + ["#sort.order " + order]
    # (no contig list: a chromosome missing from it makes the sorter's key raise the ordering ValueError at add
    # time, which is the sorter's business - C10 - and not modelled here)
    names = ["Chromosome", "Start_Position", "End_Position", "x"]
    specs = []
    for _ in range(rng.randint(1, 4)):
        chrom, pos = rng.choice(["chr1", "chr2", "chrX"]), rng.randint(1, 300)
        if typed:
            line = R.valid_line(rng, R.builtin_scheme("gdc-1.0.0"), chrom=chrom, start=pos)
            spec = {"line": line, "names": None, "scheme": GDC, "ln": rng.choice([None, 3])}
        else:
            line = "\t".join([chrom, str(pos), str(pos), rng.choice(["v", "w"])])
            spec = {"line": line, "names": names, "scheme": None, "ln": rng.choice([None, 5])}
        if stream != "valid" and rng.random() < 0.5:
            spec["line"] = _spoil(rng, spec["line"]).replace("\n", " ").replace("\r", " ")
        specs.append(spec)
    return {"kind": "writer", "stream": stream, "hlines": hl, "specs": specs, "channel": "sorted"}


def _gen_header(rng, stream):
    import C13
    return {"kind": "header", "stream": stream, "lines": C13._lines(rng, stream)}


def corpus():
    return [
        {"kind": "header", "stream": "corpus", "lines": ["#k", "#version x", "# v"]},
        {"kind": "reader", "stream": "corpus", "lines": ["#version gdc-1.0.0", "a\tb", "1", "1\t2\t3"], "override": None},
        {"kind": "line", "stream": "corpus", "spec": {"line": "1\t\r2", "names": ["a", "a"], "scheme": None, "ln": 4}},
        {"kind": "validate", "stream": "corpus", "spec": {"line": "1\t2", "names": ["a", "b"], "scheme": None, "ln": 4},
         "reset": False, "vscheme": ["norestr", ["b", "a", "c"]]},
        # stored columns modified in place: out-of-sync records are validation errors (AssertionError before the repair)
        {"kind": "validate", "stream": "corpus", "spec": {"line": "1\t2", "names": ["a", "b"], "scheme": None, "ln": 9},
         "reset": True, "vscheme": None, "tamper": [["idx", "a", 1], ["key", "b", "c"]]},
        # the same record object validated twice: column errors must not pile up (reset_errors=True)
        {"kind": "validate", "stream": "corpus", "spec": {"line": "1\t2", "names": ["a", "b"], "scheme": None, "ln": 4},
         "reset": True, "vscheme": ["norestr", ["b", "a"]], "tamper": [], "pre": 1},
        # two stored columns end up with the same key and index: only object identity tells them apart
        {"kind": "validate", "stream": "corpus",
         "spec": {"line": "v0\tv1\t}", "names": ["Hugo_Symbol", "Chromosome", "Start_Position"],
                  "scheme": ["norestr", ["Hugo_Symbol", "Chromosome", "Start_Position"]], "ln": None},
         "reset": True, "vscheme": ["builtin", "gdc-1.0.0"],
         "tamper": [["key", "Start_Position", "Hugo_Symbol"], ["idx", "Start_Position", 0]]},
        {"kind": "line", "stream": "corpus", "spec": {"line": "1\t2", "names": None, "scheme": None, "ln": 3}},
        # a scheme-less Strict writer whose first record is refused writes nothing for it, not even the column line
        {"kind": "writer", "stream": "corpus", "hlines": ["#center x"], "channel": "fd",
         "specs": [{"line": "1\ta\rb\t3", "names": ["a", "b", "c"], "scheme": None, "ln": None},
                   {"line": "1\t2\t3", "names": ["a", "b", "c"], "scheme": None, "ln": None},
                   {"line": "3\t4\t5", "names": ["a", "b", "c"], "scheme": None, "ln": None}]},
        {"kind": "writer", "stream": "corpus", "hlines": CLEAN_SCHEMELESS, "channel": "fd",
         "specs": [{"line": "1\ta\rb\t3", "names": ["a", "b", "c"], "scheme": None, "ln": None}]},
        {"kind": "writer", "stream": "corpus", "hlines": CLEAN_SCHEMELESS, "channel": "fd",
         "specs": [{"line": "1\ta\rb\t3", "names": ["a", "b", "c"], "scheme": None, "ln": None},
                   {"line": "1\t2", "names": ["p", "q"], "scheme": None, "ln": None}]},
        {"kind": "writer", "stream": "corpus", "hlines": [], "channel": "gz",
         "specs": [{"line": "1", "names": ["a", "b"], "scheme": None, "ln": 2},
                   {"line": "1\t2\t3", "names": ["a", "b", "c"], "scheme": None, "ln": None}]},
        # ... and a first record without columns
        {"kind": "writer", "stream": "corpus", "hlines": [], "channel": "fd",
         "specs": [{"line": "x", "names": [], "scheme": None, "ln": None},
                   {"line": "1\t2", "names": ["a", "b"], "scheme": None, "ln": None}]},
        # a scheme-less writer refuses names the column line cannot carry (ValueError, nothing written, still scheme-less)
        {"kind": "writer", "stream": "corpus", "hlines": ["#center x"], "channel": "fd",
         "specs": [{"line": "1\t2", "names": ["#a", "b"], "scheme": None, "ln": None},
                   {"line": "1\t2", "names": ["a\tx", "b"], "scheme": None, "ln": None},
                   {"line": "1\t2", "names": ["a", "#b"], "scheme": None, "ln": None}]},
        # a sorting writer (assume_sorted=False): records with errors are re-read when it is closed
        {"kind": "writer", "stream": "corpus", "hlines": ["#sort.order Coordinate"], "channel": "sorted",
         "specs": [{"line": "chr1\t5\t5", "names": ["Chromosome", "Start_Position", "End_Position"], "scheme": None, "ln": None},
                   {"line": "chr1\t3", "names": ["Chromosome", "Start_Position", "End_Position"], "scheme": None, "ln": 7}]},
        # an echoed text with a percent sign must still be warned about in Lenient mode
        {"kind": "header", "stream": "corpus", "lines": ["#version gdc-1.0.0%", "#sort.order 100% sorted"]},
        {"kind": "reader", "stream": "corpus", "lines": ["#version gdc-1.0.0", "GC%\t%s"], "override": None},
        # from_path channels: a header without a version / a record with a wrong field count, plain and gzip
        {"kind": "writer", "stream": "corpus", "hlines": ["#center x"], "channel": "gz",
         "specs": [{"line": "1\t2", "names": ["a", "b"], "scheme": None, "ln": None}]},
        {"kind": "writer", "stream": "corpus", "hlines": ["#version gdc-1.0.0"], "channel": "gz",
         "specs": [{"line": "1", "names": None, "scheme": GDC, "ln": 3}]},
        {"kind": "writer", "stream": "corpus", "hlines": ["#center x"], "channel": "path",
         "specs": [{"line": "1", "names": ["a", "b"], "scheme": None, "ln": 2}]},
        {"kind": "writer", "stream": "corpus", "hlines": ["#version bogus"],
         "specs": [{"line": "1\t2", "names": ["a", "b"], "scheme": None, "ln": None},
                   {"line": "1", "names": ["a", "b"], "scheme": None, "ln": 2}]},
    ]


def focus(changed):
    R.set_focus(changed)


def generate(rng, n):
    out = []
    for c in R.reader_boundary_cases():
        out.append({"kind": "reader", "stream": "boundary", "lines": c["lines"], "override": None})
    for c in R.many_error_cases():
        out.append(dict(c, stream="many-errors"))
    for c in R.order_special_cases():
        if c["shape"]["defect"] == "override+hdr":
            out.append({"kind": "reader", "stream": "override+hdr", "lines": c["lines"], "override": c["override"]})
    for first in ("1\ta\rb\t3", "x\t\r\tz", "1\t\x0b\r\t2"):
        for ch in ("fd", "path"):
            out.append({"kind": "writer", "stream": "refused-first", "hlines": CLEAN_SCHEMELESS, "channel": ch, "hmode": None,
                        "specs": [{"line": first, "names": ["a", "b", "c"], "scheme": None, "ln": None},
                                  {"line": "1\t2\t3", "names": ["a", "b", "c"], "scheme": None, "ln": None},
                                  {"line": "5\t6\t7", "names": ["a", "b", "c"], "scheme": None, "ln": 9}]})
            out.append({"kind": "writer", "stream": "refused-first", "hlines": CLEAN_SCHEMELESS, "channel": ch, "hmode": None,
                        "specs": [{"line": first, "names": ["a", "b", "c"], "scheme": None, "ln": None},
                                  {"line": "1\t2", "names": ["p", "q"], "scheme": None, "ln": None}]})
    # (a record keeps only its valid columns: an invalid MIDDLE cell leaves an empty slot, which the writer's
    # validation refuses - "Column '2' had no value")
    for bad in (["1\tx\ry\t3"], ["1\tx\ry\t3", "4\t\r\t6"], ["1\t\r\t3", "1\t2\t3", "7\t\r\t9"]):
        for hl in ([], CLEAN_SCHEMELESS, CLEAN_SCHEMELESS + ["#center x"]):
            out.append({"kind": "writer", "stream": "refused-only", "hlines": hl, "channel": "fd", "hmode": None,
                        "specs": [{"line": b, "names": ["a", "b", "c"], "scheme": None, "ln": None} for b in bad]})
    for hm in ("Lenient", "Strict"):
        for hl in (["#center x"], ["#version v9", "#annotation.spec nope"], []):
            out.append({"kind": "writer", "stream": "header-mode", "hlines": hl, "channel": "fd", "hmode": hm,
                        "specs": [{"line": "1\t2", "names": ["a", "b"], "scheme": None, "ln": None}]})
    for k, c in enumerate(R.typed_special_cases()):
        if c["shape"]["defect"] in ("format-text", "cr-text") or k % 7 == 0:
            out.append({"kind": "reader", "stream": "typed-special", "lines": c["lines"], "override": None})
            if c["shape"]["defect"] in ("format-text", "cr-text"):
                out.append({"kind": "line", "stream": "typed-special",
                            "spec": {"line": c["lines"][-1], "names": None, "scheme": GDC, "ln": 4}})
    while len(out) < n:
        kinds = ["header", "line", "line", "validate", "reader", "reader", "reader", "writer", "sorting-writer"]
        if R.focused("header.py"):
            kinds += ["header"] * 4
        if R.focused("record.py", "column.py", "column_types.py"):
            kinds += ["line", "validate"] * 3
        if R.focused("reader.py", "sort_order.py"):
            kinds += ["reader"] * 4
        if R.focused("writer.py"):
            kinds += ["writer"] * 3 + ["sorting-writer"] * 2
        if R.focused("sorter.py"):
            kinds += ["sorting-writer"] * 4
        kind = rng.choice(kinds)
        stream = rng.choice(["valid", "defect", "defect", "adversarial"])
        if kind == "header":
            out.append(_gen_header(rng, stream))
        elif kind == "line":
            out.append({"kind": "line", "stream": stream, "spec": _gen_spec(rng, stream)})
        elif kind == "validate":
            spec = _gen_spec(rng, stream)
            names = spec["names"] or (R.make_scheme(spec["scheme"]).column_names() if spec["scheme"] else ["a"])
            vs = rng.choice([None, spec["scheme"], ["norestr", names[:]], ["norestr", names[::-1]],
                             ["norestr", names[:-1]], GDC])
            tamper = []
            if stream != "valid" and rng.random() < 0.35:
                for _ in range(rng.choice([1, 1, 2])):
                    nm = rng.choice(names)
                    tamper.append(["idx", nm, rng.choice([None, 0, 1, 7, -1])] if rng.random() < 0.6
                                  else ["key", nm, rng.choice(["moved", names[0]])])
            out.append({"kind": "validate", "stream": stream, "spec": spec, "reset": rng.random() < 0.6, "vscheme": vs,
                        "tamper": tamper, "pre": rng.choice([0, 0, 1, 1, 2])})
        elif kind == "reader":
            c = R.gen_reader_case(rng, stream)
            out.append({"kind": "reader", "stream": stream, "lines": c["lines"], "override": c["override"]})
        elif kind == "sorting-writer":
            out.append(_gen_sorting_writer(rng, stream))
        else:
            out.append(_gen_writer(rng, stream))
    return out


def shrink(case):
    if "lines" in case:
        yield from R.shrink_lines(case)
    if case["kind"] == "writer":
        for i in range(len(case["specs"])):
            yield dict(case, specs=case["specs"][:i] + case["specs"][i + 1:])
        yield from R.shrink_lines(case, key="hlines")


# ------------------------------------------------------------------ both sides
def _wire(case, m):
    k = case["kind"]
    if k == "header":
        return R.wire_header(case["lines"], m)
    if k == "reader":
        return R.wire_reader(case["lines"], m, case["override"])
    if k == "line":
        return R.wire_from_line(case["spec"], m)
    if k == "validate":
        return R.wire_validate(case["spec"], m, case["reset"], case["vscheme"], case.get("tamper"), case.get("pre", 0))
    return R.wire_writer(case["hlines"], m, case["specs"])


def _impl(case, m):
    k = case["kind"]
    if k == "header":
        return R.impl_header(case["lines"], m)["first"]
    if k == "reader":
        return R.impl_reader(case["lines"], m, case["override"])
    if k == "line":
        return R.impl_from_line(case["spec"], m)
    if k == "validate":
        return R.impl_validate(case["spec"], m, case["reset"], case["vscheme"], case.get("tamper"), case.get("pre", 0))
    return R.impl_writer(case["hlines"], m, case["specs"], case.get("channel", "fd"), case.get("hmode"))


def _dec(case, sx):
    k = case["kind"]
    if k == "header":
        return R.dec_header(sx)["first"]
    if k == "reader":
        return R.dec_reader(sx)
    if k == "line":
        return R.dec_from_line(sx)
    if k == "validate":
        return R.dec_validate(sx)
    return R.dec_writer(sx)


RUNS = MODES + [None]           # the three stringencies and the default (None: documented as Silent)


def to_model(case):
    return [9] + [_wire(case, m) for m in RUNS]


def run_impl(case):
    obs = {str(m): _impl(case, m) for m in RUNS}
    if case["kind"] == "validate" and case.get("pre", 0) > 0 and case["reset"]:
        # reference: the same record validated once only (reset_errors=True starts every call afresh)
        obs["_once"] = R.impl_validate(case["spec"], "Silent", True, case["vscheme"], case.get("tamper"), 0)
    return obs


def from_model(case, sx):
    out = {str(m): _dec(case, s) for m, s in zip(RUNS, sx)}
    if case["kind"] == "writer" and case.get("channel") == "sorted":
        for m in out:           # the order and re-rendering of sorted output belong to C10; C03 compares the rest
            out[m].pop("out", None)
    return out


def comparable(obs):
    def strip(o):
        return {k: v for k, v in o.items() if not k.startswith("_")} if isinstance(o, dict) else o
    return {m: strip(o) for m, o in obs.items() if not m.startswith("_")}


# ------------------------------------------------------------------ oracle
def _fmt(e):
    return ["MafFormatException", e[0], e[1]]


def _covers(log, errs, out, what):
    """every collected error appears as a WARNING on the log"""
    pool = [r[2] for r in log if r[0] == "ign"]
    for r in log:
        if r[0] == "unformattable":
            out.append("%s-lenient-warning-could-not-be-formatted" % what)
        level = r[2] if r[0] == "other" else r[-1]
        if level != "WARNING":
            out.append("%s-lenient-log-level %r" % (what, level))
    missing = 0
    for e in errs:
        if e in pool:
            pool.remove(e)          # one warning per collected error: counted, not just present
        else:
            missing += 1
            if missing == 1:
                out.append("%s-lenient-did-not-warn %r (%d errors, %d warnings)" % (what, e, len(errs), len([r for r in log if r[0] == "ign"])))


def _simple(what, S, L, T, errs_of, out):
    """entry points with one result: {"log", "res"}"""
    if S["res"][0] == "exc" and S["res"][1][0] == "MafFormatException":
        out.append("%s-silent-raised-format-exception" % what)
        return
    if L["res"] != S["res"]:
        out.append("%s-lenient-differs-from-silent" % what)
    if S["log"]:
        out.append("%s-silent-logged %r" % (what, S["log"][:2]))
    if S["res"][0] == "exc":
        if T["res"] != S["res"]:
            out.append("%s-strict-differs-on-other-exception" % what)
        return
    errs = errs_of(S["res"][1])
    _covers(L["log"], errs, out, what)
    if errs:
        if T["res"] != ["exc", _fmt(errs[0])]:
            out.append("%s-strict %r expected-first-error %r" % (what, T["res"][1] if T["res"][0] == "exc" else "returned", errs[0]))
    elif T["res"] != S["res"]:
        out.append("%s-strict-differs-without-errors" % what)


def _reader(S, L, T, out):
    if S["end"] is not None and S["end"][0] == "MafFormatException":
        out.append("reader-silent-raised-format-exception")
        return
    for k in ("init", "recs", "end", "errs"):
        if S[k] != L[k]:
            out.append("reader-lenient-differs-from-silent-in-%s" % k)
    if S["log"]:
        out.append("reader-silent-logged %r" % (S["log"][:2],))
    _covers(L["log"], L["errs"] or [], out, "reader")
    if S["init"][0] != "ok":
        if T["init"] != S["init"]:
            out.append("reader-strict-differs-on-other-exception")
        return
    init_errs = S["init"][1]["errs"]
    if init_errs:
        if T["init"] != ["exc", _fmt(init_errs[0])]:
            out.append("reader-strict-open %r expected-first-error %r" % (T["init"][1] if T["init"][0] == "exc" else "returned", init_errs[0]))
        return
    if T["init"] != S["init"]:
        out.append("reader-strict-open-differs-without-errors")
        return
    n = len(init_errs)
    for j, r in enumerate(S["recs"]):
        if r["errs"]:
            if T["recs"] != S["recs"][:j] or T["end"] != _fmt(r["errs"][0]):
                out.append("reader-strict-at-record-%d end=%r expected-first-error %r" % (j + 1, T["end"], r["errs"][0]))
            return
        n += len(r["errs"])
    tail = S["errs"][n:]
    if tail:        # parsed but not yielded in Silent mode (ordering error): Strict fails on its first error instead
        if T["recs"] != S["recs"] or T["end"] != _fmt(tail[0]):
            out.append("reader-strict-at-last-record end=%r expected-first-error %r" % (T["end"], tail[0]))
    elif T["recs"] != S["recs"] or T["end"] != S["end"]:
        out.append("reader-strict-differs-without-errors")


def _writer(S, L, T, out, case_same_names=True):
    if S["init"][0] == "exc":
        if S["init"][1][0] == "MafFormatException":
            out.append("writer-silent-raised-format-exception")
        return
    for name, o in (("silent", S), ("lenient", L), ("strict", T)):
        if o.get("_header_is_the_header") is False:
            out.append("writer-%s-header()-is-not-the-header-it-was-given" % name)
    if (L["init"], L.get("adds") and [a["res"] for a in L["adds"]], L.get("out")) != \
       (S["init"], S.get("adds") and [a["res"] for a in S["adds"]], S.get("out")):
        out.append("writer-lenient-differs-from-silent")
    if S["log"] or any(a["log"] for a in S["adds"]):
        out.append("writer-silent-logged")
    errs = S["init"][1]
    _covers(L["log"], errs, out, "writer-open")
    if errs:
        if T["init"] != ["exc", _fmt(errs[0])]:
            out.append("writer-strict-open %r expected-first-error %r" % (T["init"], errs[0]))
        return
    if T["init"] != S["init"]:
        out.append("writer-strict-open-differs-without-errors")
        return
    if "_out" in S:
        return _sorting_writer(S, L, T, out)
    nrec = len(S["adds"])
    prefix = S["out"][:len(S["out"]) - nrec]
    expect_out = list(prefix)
    # a scheme-less Strict writer that refuses a record before it accepted one stays scheme-less: from then on it
    # is in another state than the Silent writer (which took its column names from that record), and the sessions
    # are compared no further unless all records carry the same names
    schemeless = S.get("_schemeless_at_start", False)
    accepted = False
    for i, (a, la, ta) in enumerate(zip(S["adds"], L["adds"], T["adds"])):
        if schemeless and not accepted and a["res"][0] == "ok" and a["res"][1]:
            if ta["res"] != ["exc", _fmt(a["res"][1][0])]:
                out.append("writer-strict-add-%d %r expected-first-error %r" % (i + 1, ta["res"], a["res"][1][0]))
            # from here on the Strict writer (still scheme-less) and the Silent one (names taken from the refused
            # record) are in different states; what remains to be said concerns the Strict session alone:
            # a refused record contributes nothing - the column-name line comes with the first accepted record
            if len(S["out"]) > nrec:
                hdr = S["out"][:len(S["out"]) - nrec - 1]
                n_acc = sum(1 for x in T["adds"] if x["res"][0] == "ok")
                want = len(hdr) + (n_acc + 1 if n_acc else 0)
                if T["out"][:len(hdr)] != hdr or len(T["out"]) != want:
                    out.append("writer-strict-refused-record-left-output %r (%d accepted, %d header lines)"
                               % (T["out"][len(hdr):][:3], n_acc, len(hdr)))
            return out
        if a["res"] == ["ok", []]:
            accepted = True
        if a["res"][0] == "exc":
            if a["res"][1][0] == "MafFormatException":
                out.append("writer-silent-raised-format-exception")
            return
        es = a["res"][1]
        _covers(la["log"], es, out, "writer-add")
        if es:
            if ta["res"] != ["exc", _fmt(es[0])]:
                out.append("writer-strict-add-%d %r expected-first-error %r" % (i + 1, ta["res"], es[0]))
        else:
            if ta["res"] != a["res"]:
                out.append("writer-strict-add-differs-without-errors")
            expect_out.append(S["out"][len(prefix) + i])
    if schemeless and nrec > 0 and len(S["out"]) > nrec:
        # the column-name line of a scheme-less writer is written with the first ACCEPTED record
        hdr = S["out"][:len(S["out"]) - nrec - 1]
        col = S["out"][len(S["out"]) - nrec - 1]
        lines_acc = expect_out[len(prefix):]
        expect_out = hdr + ([col] + lines_acc if lines_acc else [])
    if T["out"] != expect_out:
        out.append("writer-strict-output-differs %r expected %r" % (T["out"][-3:], expect_out[-3:]))


def _sorting_writer(S, L, T, out):
    """the sorter path: every add behaves as without sorting; closing the writer (which re-reads the records)
    never raises the format exception in Silent/Lenient, Lenient writes what Silent writes, Strict writes the
    output of the records it accepted"""
    for name, o in (("silent", S), ("lenient", L)):
        if o.get("_close") is not None and o["_close"][0] == "MafFormatException":
            out.append("sorting-writer-%s-close-raised-format-exception %r" % (name, o["_close"]))
        elif o.get("_close") is not None:
            out.append("sorting-writer-%s-close-raised %r" % (name, o["_close"][0]))
    if S.get("_close_log"):
        out.append("sorting-writer-silent-logged-on-close")
    if S.get("_out") != L.get("_out"):
        out.append("sorting-writer-lenient-output-differs-from-silent")
    for i, (a, la, ta) in enumerate(zip(S["adds"], L["adds"], T.get("adds", []))):
        if a["res"][0] != "ok":
            return out
        es = a["res"][1]
        _covers(la["log"], es, out, "writer-add")
        if es:
            if ta["res"] != ["exc", _fmt(es[0])]:
                out.append("writer-strict-add-%d %r expected-first-error %r" % (i + 1, ta["res"], es[0]))
        elif ta["res"] != a["res"]:
            out.append("writer-strict-add-differs-without-errors")
    if T.get("_close") is not None:
        out.append("sorting-writer-strict-close-raised %r" % (T["_close"][0],))
    if all(a["res"] == ["ok", []] for a in S["adds"]) and T.get("_out") != S.get("_out"):
        out.append("sorting-writer-strict-output-differs-without-errors")
    return out


def oracle(case, obs):
    out = []
    S, L, T = obs["Silent"], obs["Lenient"], obs["Strict"]
    if "None" in obs and comparable({"x": obs["None"]}) != comparable({"x": S}):
        out.append("%s-default-stringency-differs-from-silent" % case["kind"])
    k = case["kind"]
    if k == "header":
        _simple("header", S, L, T, lambda h: h["errs"], out)
    elif k == "line":
        _simple("line", S, L, T, lambda r: r["errs"], out)
    elif k == "validate":
        if S[0] == "noparse":
            return out
        once = obs.get("_once")
        if once is not None and once[0] == "parsed" and once[1]["res"][0] == "ok" and S[1]["res"][0] == "ok" \
                and once[1]["res"][1]["errs"] != S[1]["res"][1]["errs"]:
            out.append("validate-repeated-with-reset-differs-from-single %r vs %r"
                       % (S[1]["res"][1]["errs"][:6], once[1]["res"][1]["errs"][:6]))
        _simple("validate", S[1], L[1], T[1], lambda r: r["errs"], out)
    elif k == "reader":
        _reader(S, L, T, out)
    else:
        nm = {tuple(sp["names"]) if sp["names"] is not None else ("<scheme>",) + tuple(sp["scheme"] or ()) for sp in case["specs"]}
        _writer(S, L, T, out, len(nm) <= 1)
    return out


def signature(case, violation):
    return violation.split(" ")[0]


def _nerrs(case, obs):
    S = obs["Silent"]
    k = case["kind"]
    try:
        if k == "header" or k == "line":
            return len(S["res"][1]["errs"]) if S["res"][0] == "ok" else 0
        if k == "validate":
            return len(S[1]["res"][1]["errs"]) if (S[0] == "parsed" and S[1]["res"][0] == "ok") else 0
        if k == "reader":
            return len(S["errs"] or [])
        if S["init"][0] != "ok":
            return 0
        return len(S["init"][1]) + sum(len(a["res"][1]) for a in S["adds"] if a["res"][0] == "ok")
    except Exception:  # noqa
        return 0


def classify(case, obs):
    if obs is None:
        return "%s/%s/error" % (case["kind"], case["stream"])
    n = _nerrs(case, obs)
    kind = case["kind"] + ("-" + case.get("channel", "fd") if case["kind"] == "writer" else "")
    return "%s/%s/errors=%s" % (kind, case["stream"], "0" if n == 0 else ("1" if n == 1 else "2+"))


def nontrivial(case, obs):
    return _nerrs(case, obs) > 0
