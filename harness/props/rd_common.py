"""Shared code of the Reader cluster plugins (C13, C17, C16, C03).

Everything that talks to the real library goes through its public API
(MafHeader.from_lines / str / from_reader, MafRecord.from_line, record.validate,
MafReader(...) and its iteration, MafWriter.from_fd on io.StringIO, the column
classes' build/validate/str used to fill the per-case oracle tables, and
all_schemes() for the registry).  Canonical observations never contain
messages, reprs, paths: errors are (type code, line number), exceptions are
class names (+ tpe, line number for MafFormatException), log records are
(logger, error) or the reader's "no matching scheme" warning.
"""
import io
import logging
import re
import sys

from sexp import S, U, B, OPT

TPE = ["HEADER_MISSING", "HEADER_LINE_MISSING_START_SYMBOL", "HEADER_LINE_MISSING_SEPARATOR",
       "HEADER_LINE_EMPTY_KEY", "HEADER_LINE_EMPTY_VALUE", "HEADER_DUPLICATE_KEYS", "HEADER_MISSING_VERSION",
       "HEADER_UNSUPPORTED_VERSION", "HEADER_MISSING_ANNOTATION_SPEC", "HEADER_UNSUPPORTED_ANNOTATION_SPEC",
       "HEADER_UNSUPPORTED_SORT_ORDER", "HEADER_MISMATCH_SCHEME", "HEADER_MISSING_COLUMN_NAMES",
       "HEADER_MISMATCHING_COLUMN_NAMES", "RECORD_COLUMN_WITH_NO_VALUE", "RECORD_OUT_OF_SYNC",
       "RECORD_COLUMN_INDEX_OUT_OF_SYNC", "RECORD_MISMATCH_NUMBER_OF_COLUMNS", "RECORD_COLUMN_WRONG_FORMAT",
       "RECORD_INVALID_COLUMN_VALUE", "RECORD_INVALID_COLUMN_NAME", "RECORD_COLUMN_OUT_OF_ORDER",
       "SCHEME_MISMATCHING_NUMBER_OF_COLUMN_NAMES", "SCHEME_MISMATCHING_COLUMN_NAMES"]
TPE_CODE = {n: i for i, n in enumerate(TPE)}
EXN_NAME = {1: "KeyError", 2: "ValueError", 3: "TypeError", 4: "IndexError", 5: "AssertionError",
            6: "StopIteration", 7: "NotImplementedError", 8: "OSError", 9: "Exception", 10: "MafFormatException"}
MODES = ["Strict", "Lenient", "Silent"]
MODE_CODE = {"Strict": 1, "Lenient": 2, "Silent": 3}
LOGGERS = {"maflib": 0, "maflib.MafReader": 1, "maflib.MafWriter": 2}
SORT_NAMES = ["Unknown", "Unsorted", "BarcodesAndCoordinate", "Coordinate"]


def ensure_repo():
    import fw
    if sys.path[0] != fw.REPO:
        sys.path.insert(0, fw.REPO)
    import maflib
    assert maflib.__file__.startswith(fw.REPO + "/"), maflib.__file__


# ------------------------------------------------------------------ canonical forms (impl side)
def c_err(e):
    return [TPE_CODE.get(e.tpe.name, -1), e.line_number]


def c_errs(es):
    return [c_err(e) for e in es]


def c_exn(e):
    from maflib.validation import MafFormatException
    if isinstance(e, MafFormatException):
        assert str(e) == e.message      # the exception prints its message
        return ["MafFormatException", TPE_CODE.get(e.tpe.name, -1), e.line_number]
    return [type(e).__name__]


_IGN = re.compile(r"^Ignoring MAF validation error: ([A-Z_]+): (?:On line number (-?\d+): )?", re.S)


class LogCapture:
    """collects records of the `maflib` logger tree while active"""

    def __enter__(self):
        self.records = []
        cap = self

        class H(logging.Handler):
            def emit(self, record):
                cap.records.append(record)

        self.h = H(level=0)
        self.root = logging.getLogger("maflib")
        self.saved = (self.root.handlers[:], self.root.propagate, self.root.level, logging.root.manager.disable)
        logging.disable(logging.NOTSET)
        self.root.handlers = [self.h]
        self.root.propagate = False
        self.root.setLevel(logging.DEBUG)
        return self

    def __exit__(self, *a):
        self.root.handlers, self.root.propagate, lvl, dis = self.saved
        self.root.setLevel(lvl)
        logging.disable(dis)

    def canon(self):
        out = []
        for r in self.records:
            try:
                msg = r.getMessage()
            except Exception:  # noqa  - a record no handler could format: the warning would never be written
                out.append(["unformattable", LOGGERS.get(r.name, r.name), r.levelname])
                continue
            m = _IGN.match(msg)
            if m:
                out.append(["ign", LOGGERS.get(r.name, r.name), [TPE_CODE.get(m.group(1), -1),
                            int(m.group(2)) if m.group(2) is not None else None], r.levelname])
            elif msg.startswith("No matching scheme was found"):
                out.append(["noscheme", r.levelname])
            else:
                out.append(["other", r.name, r.levelname, msg[:60]])
        return out

    def take(self):
        c = self.canon()
        self.records = []
        return c


def c_hvalue(v):
    from maflib.sort_order import SortOrder
    if isinstance(v, str):
        return ["t", v]
    if isinstance(v, list):
        return ["c", [str(x) for x in v]]
    if isinstance(v, SortOrder):
        return ["o", v.name(), [str(x) for x in (getattr(v, "_contigs", None) or [])]]
    return ["?", type(v).__name__]


def c_hrecs(h):
    return [[k, h[k].key, c_hvalue(h[k].value)] for k in h]


def c_scheme_id(s):
    from maflib.schemes import NoRestrictionsScheme
    if s is None:
        return None
    return [s.version(), s.annotation_spec(), isinstance(s, NoRestrictionsScheme)]


def c_header(h):
    so = h.sort_order()
    try:
        sch = ["ok", c_scheme_id(h.scheme())]
    except Exception as e:  # noqa
        sch = ["exc", c_exn(e)]
    return {"recs": c_hrecs(h), "errs": c_errs(h.validation_errors), "version": h.version(),
            "annotation": h.annotation(), "order": [so.name(), [str(x) for x in (getattr(so, "_contigs", None) or [])]],
            "contigs": h.contigs(), "print": [str(h[k]) for k in h], "scheme": sch}


def c_record(r):
    slots = []
    for i in range(len(r)):
        c = r[i]
        if c is None:
            slots.append(None)
        else:
            try:
                t = str(c)
            except Exception:  # noqa
                t = None
            slots.append([c.key, c.column_index, t])
    keys = list(getattr(r, "_MafRecord__columns_dict").keys())
    return {"line": getattr(r, "_MafRecord__line_number"), "slots": slots, "keys": keys,
            "errs": c_errs(r.validation_errors)}


# ------------------------------------------------------------------ registry / schemes / tables
_REG = None


def registry():
    """[(version, annotation, norestr, scheme class)] in all_schemes() order"""
    global _REG
    if _REG is None:
        ensure_repo()
        from maflib.scheme_factory import all_schemes
        from maflib.schemes import NoRestrictionsScheme
        _REG = [(s.version(), s.annotation_spec(), s is NoRestrictionsScheme, s) for s in all_schemes()]
    return _REG


class Ids:
    """class object -> small integer (0 = MafColumnRecord), per to_model call"""

    def __init__(self):
        from maflib.column import MafColumnRecord
        self.plain = MafColumnRecord
        self.ids = {}
        self.classes = []

    def of(self, cls):
        if cls is self.plain:
            return 0
        if cls not in self.ids:
            self.classes.append(cls)
            self.ids[cls] = len(self.classes)
        return self.ids[cls]

    def subpairs(self):
        out = []
        for a in self.classes:
            for b in self.classes:
                if a is not b and issubclass(a, b):
                    out.append([self.ids[a], self.ids[b]])
        return out


def make_scheme(spec):
    """spec: None | ["builtin", annotation] | ["norestr", [names]] -> MafScheme instance or None"""
    ensure_repo()
    if spec is None:
        return None
    if spec[0] == "builtin":
        from maflib.scheme_factory import find_scheme
        return find_scheme(version=None, annotation=spec[1])
    from maflib.schemes import NoRestrictionsScheme
    return NoRestrictionsScheme(column_names=list(spec[1]))


def m_scheme(s, ids, elide=False):
    """wire form of a scheme instance/class"""
    from maflib.schemes import NoRestrictionsScheme
    nr = isinstance(s, NoRestrictionsScheme) or s is NoRestrictionsScheme
    if elide:
        return [S(s.version()), S(s.annotation_spec()), B(nr), []]
    cols = [[S(n), ids.of(s.column_class(n))] for n in s.column_names()]
    return [S(s.version()), S(s.annotation_spec()), B(nr), [cols]]


_HDR_V = re.compile(r"^#version (.*)$", re.S)
_HDR_A = re.compile(r"^#annotation\.spec (.*)$", re.S)


def reachable_schemes(lines):
    """registry entries a header made of some of these lines can select (over-approximation)"""
    vs, as_ = set(), set()
    for ln in lines:
        l2 = ln.rstrip("\r\n")
        m = _HDR_V.match(l2)
        if m:
            vs.add(m.group(1).rstrip())
        m = _HDR_A.match(l2)
        if m:
            as_.add(m.group(1).rstrip())
    out = []
    for (v, a, nr, cls) in registry():
        if nr:
            continue
        if a in as_ or (v in vs and a == v):
            out.append(cls())
    return out


def m_registry(lines, ids):
    """wire registry: columns elided for entries the lines cannot select; returns (wire, [reachable instances])"""
    reach = reachable_schemes(lines)
    rset = {(s.version(), s.annotation_spec()) for s in reach}
    wire = []
    for (v, a, nr, cls) in registry():
        if nr:
            wire.append([S(v), S(a), 1, [[]]])
        elif (v, a) in rset:
            inst = next(s for s in reach if (s.version(), s.annotation_spec()) == (v, a))
            wire.append(m_scheme(inst, ids))
        else:
            wire.append([S(v), S(a), 0, []])
    return wire, reach


def _entry(cls, text):
    from maflib.validation import MafValidationErrorType as T
    try:
        col = cls.build(name="x", value=text, column_index=0)
    except Exception:  # noqa
        return []
    errs = col.validate()
    invalid = any(e.tpe == T.RECORD_COLUMN_WRONG_FORMAT for e in errs)
    try:
        st = str(col)
    except Exception:  # noqa
        st = None
    v = col.value
    kt = None if v is None else str(v)
    try:
        ki = None if v is None else int(v)
    except (TypeError, ValueError, OverflowError):
        ki = None
    return [B(invalid), OPT(st, S), OPT(kt, S), OPT(ki)]


def _int_of(text):
    try:
        return int(text)
    except (TypeError, ValueError, OverflowError):
        return None


def m_tables(schemes, lines, ids, names_for=None):
    """oracle tables: for every scheme with typed columns and every line with as
    many fields as there are names (the scheme's own, or the explicit
    column_names given for that line), (class of the named column, text) ->
    outcome from the real class; int(text) for every field of every line;
    subclass pairs"""
    typed = {}
    ints = {}
    for li, ln in enumerate(lines):
        fields = ln.rstrip("\r\n").split("\t")
        for f in fields:
            if f not in ints:
                ints[f] = _int_of(f)
        for s in schemes:
            namesets = [s.column_names()]
            if names_for is not None and names_for[li] is not None:
                namesets.append(names_for[li])
            for names in namesets:
                if len(names) != len(fields):
                    continue
                for n, f in zip(names, fields):
                    cls = s.column_class(n)
                    if cls is None:
                        continue
                    k = ids.of(cls)
                    if k != 0 and (k, f) not in typed:
                        typed[(k, f)] = _entry(cls, f)
    return [[[k, S(f), e] for (k, f), e in typed.items()],
            [[S(f), OPT(i)] for f, i in ints.items()],
            ids.subpairs()]


def m_mode(m):
    return [] if m is None else [MODE_CODE[m]]


def py_mode(m):
    from maflib.validation import ValidationStringency as V
    return None if m is None else V[m]


# ------------------------------------------------------------------ decoding the model's replies
def d_err(x):
    return [x[0], (x[1][0] if x[1] else None)]


def d_errs(x):
    return [d_err(e) for e in x]


def d_exn(x):
    name = EXN_NAME.get(x[0], "exn%r" % x[0])
    if x[0] == 10:
        return [name, x[1], (x[2][0] if x[2] else None)]
    return [name]


def d_log(x):
    out = []
    for r in x:
        if r[0] == 0:
            out.append(["ign", r[1], d_err(r[2]), "WARNING"])
        else:
            out.append(["noscheme", "WARNING"])
    return out


def d_res(x, f):
    return ["ok", f(x[1])] if x[0] == 0 else ["exc", d_exn(x[1])]


def d_out(x, f):
    return {"log": d_log(x[0]), "res": d_res(x[1], f)}


def d_strs(x):
    return [U(s) for s in x]


def d_hvalue(x):
    if x[0] == 0:
        return ["t", U(x[1])]
    if x[0] == 1:
        return ["o", U(x[1]), d_strs(x[2])]
    return ["c", d_strs(x[1])]


def d_hrecs(x):
    return [[U(k), U(k2), d_hvalue(v)] for k, k2, v in x]


def d_scheme_id(x):
    return [U(x[0]), U(x[1]), bool(x[2])]


def d_header(x):
    recs, errs, ver, ann, order, contigs, prt, sch = x
    return {"recs": d_hrecs(recs), "errs": d_errs(errs), "version": (U(ver[0]) if ver else None),
            "annotation": (U(ann[0]) if ann else None), "order": [U(order[0]), d_strs(order[1])],
            "contigs": (d_strs(contigs[0]) if contigs else None), "print": d_strs(prt),
            "scheme": d_res(sch, lambda o: (d_scheme_id(o[0]) if o else None))}


def d_record(x):
    line, slots, keys, errs = x
    sl = []
    for s in slots:
        if not s:
            sl.append(None)
        else:
            k, i, t = s[0]
            sl.append([U(k), (i[0] if i else None), (U(t[0]) if t else None)])
    return {"line": (line[0] if line else None), "slots": sl, "keys": d_strs(keys), "errs": d_errs(errs)}


# ------------------------------------------------------------------ the entry points: impl runner, wire, decoder
# ---- header
def impl_header(lines, mode):
    ensure_repo()
    from maflib.header import MafHeader
    with LogCapture() as cap:
        try:
            h = MafHeader.from_lines(list(lines), validation_stringency=py_mode(mode))
            res = ["ok", c_header(h)]
        except Exception as e:  # noqa
            h = None
            res = ["exc", c_exn(e)]
        first = {"log": cap.take(), "res": res}
        again = None
        if h is not None:
            try:
                h2 = MafHeader.from_lines([str(h[k]) for k in h],
                                          validation_stringency=py_mode("Silent"))
                again = {"log": cap.take(), "res": ["ok", c_header(h2)]}
            except Exception as e:  # noqa
                again = {"log": cap.take(), "res": ["exc", c_exn(e)]}
    return {"first": first, "again": again}


def wire_header(lines, mode):
    ensure_repo()
    ids = Ids()
    reg = [[S(v), S(a), B(nr), ([[]] if nr else [])] for (v, a, nr, _) in registry()]
    return [0, m_mode(mode), [S(l) for l in lines], reg]


def dec_header(sx):
    first, again = sx
    return {"first": d_out(first, d_header), "again": (d_out(again, d_header) if again else None)}


# ---- reader
def file_safe(lines):
    """can the lines be written to a file and come back as the same list? (no CR/LF inside a line)"""
    return all(("\r" not in l and "\n" not in l) for l in lines)


def impl_reader(lines, mode, override, channel="lines"):
    """channel: "lines" (MafReader(lines=...)), "path" / "gz" (the lines written, one per physical line with LF or
    CRLF endings, to a scratch file under /verif/work/<unique>, plain or gzip-compressed, and read with
    MafReader.reader_from; removed afterwards)"""
    ensure_repo()
    import gzip
    import os
    import shutil
    import tempfile
    from maflib.reader import MafReader
    work = None
    try:
        with LogCapture() as cap:
            out = {"init": None, "recs": [], "end": None, "errs": None}
            try:
                if channel == "lines":
                    rd = MafReader(lines=list(lines), validation_stringency=py_mode(mode), scheme=make_scheme(override))
                else:
                    assert file_safe(lines)
                    os.makedirs("/verif/work", exist_ok=True)
                    work = tempfile.mkdtemp(prefix="rdr_", dir="/verif/work")
                    path = os.path.join(work, "in.maf" + (".gz" if channel == "gz" else ""))
                    eol = "\r\n" if (len(lines) % 2 == 1) else "\n"
                    text = "".join(l + eol for l in lines)
                    with (gzip.open(path, "wt", newline="") if channel == "gz" else open(path, "w", newline="")) as fh:
                        fh.write(text)
                    rd = MafReader.reader_from(path, validation_stringency=py_mode(mode), scheme=make_scheme(override))
            except Exception as e:  # noqa
                out["init"] = ["exc", c_exn(e)]
                out["end"] = c_exn(e)
                out["errs"] = []
                out["log"] = cap.take()
                return out
            sch = rd.scheme()
            out["init"] = ["ok", {"header": c_header(rd.header()),
                                  "scheme": (None if sch is None else c_scheme_id(sch) + [sch.column_names()]),
                                  "errs": c_errs(rd.validation_errors)}]
            it = iter(rd)
            n = 0
            while n < len(lines) + 5:          # bounded: a reader that never stops is reported, not waited for
                n += 1
                try:
                    r = it.next() if (len(lines) % 2) else next(it)      # both spellings of "next record"
                except StopIteration:
                    break
                except Exception as e:  # noqa
                    out["end"] = c_exn(e)
                    break
                out["recs"].append(c_record(r))
            else:
                out["end"] = ["DidNotTerminate"]
            out["errs"] = c_errs(rd.validation_errors)
            out["log"] = cap.take()
            rd.close()              # with and without a closeable handle
        return out
    finally:
        if work is not None:
            shutil.rmtree(work, ignore_errors=True)


def wire_reader(lines, mode, override):
    ensure_repo()
    ids = Ids()
    ov = make_scheme(override)
    reg, reach = m_registry(lines, ids)
    schemes = reach + ([ov] if ov is not None else [])
    ovw = [] if ov is None else [m_scheme(ov, ids)]
    tb = m_tables(schemes, lines, ids)
    return [1, m_mode(mode), ovw, reg, tb, [S(l) for l in lines]]


def dec_reader(sx):
    lg, init, recs, end, errs = sx

    def f(o):
        h, sch, es = o
        return {"header": d_header(h),
                "scheme": (None if not sch else d_scheme_id(sch[0]) + [d_strs(sch[0][3])]),
                "errs": d_errs(es)}

    return {"init": d_res(init, f), "recs": [d_record(r) for r in recs],
            "end": (d_exn(end[0]) if end else None), "errs": d_errs(errs), "log": d_log(lg)}


# ---- from_line / validate
def _recspec_args(spec):
    """spec: {"line", "names", "scheme", "ln"}"""
    return dict(line=spec["line"], column_names=(None if spec["names"] is None else list(spec["names"])),
                scheme=make_scheme(spec["scheme"]), line_number=spec["ln"])


def impl_from_line(spec, mode):
    ensure_repo()
    from maflib.record import MafRecord
    with LogCapture() as cap:
        try:
            r = MafRecord.from_line(validation_stringency=py_mode(mode), **_recspec_args(spec))
            res = ["ok", c_record(r)]
        except Exception as e:  # noqa
            res = ["exc", c_exn(e)]
        return {"log": cap.take(), "res": res}


def m_recspec(spec, ids):
    sch = make_scheme(spec["scheme"])
    return [S(spec["line"]), OPT(spec["names"], lambda ns: [S(n) for n in ns]),
            ([] if sch is None else [m_scheme(sch, ids)]), OPT(spec["ln"])], sch


def wire_from_line(spec, mode):
    ensure_repo()
    ids = Ids()
    rs, sch = m_recspec(spec, ids)
    tb = m_tables([sch] if sch is not None else [], [spec["line"]], ids, [spec["names"]])
    return [2, rs, m_mode(mode), tb]


def dec_from_line(sx):
    return d_out(sx, d_record)


def _tamper(r, tamper):
    """in-place edits of stored column objects: ["idx", name, i] / ["key", name, newkey]"""
    for t in tamper or []:
        try:
            c = r[t[1]]
        except KeyError:
            continue
        if t[0] == "idx":
            c.column_index = t[2]
        else:
            c.key = t[2]


def impl_validate(spec, vmode, reset, vscheme, tamper=None, pre=0):
    ensure_repo()
    from maflib.record import MafRecord
    try:
        r = MafRecord.from_line(validation_stringency=py_mode("Silent"), **_recspec_args(spec))
    except Exception as e:  # noqa
        return ["noparse", c_exn(e)]
    _tamper(r, tamper)
    for _ in range(pre):            # the same record object validated (Silent) before the observed call
        try:
            r.validate(validation_stringency=py_mode("Silent"), reset_errors=reset, scheme=make_scheme(vscheme))
        except Exception:  # noqa
            break
    with LogCapture() as cap:
        try:
            r.validate(validation_stringency=py_mode(vmode), reset_errors=reset, scheme=make_scheme(vscheme))
            res = ["ok", c_record(r)]
        except Exception as e:  # noqa
            res = ["exc", c_exn(e)]
        return ["parsed", {"log": cap.take(), "res": res}]


def wire_validate(spec, vmode, reset, vscheme, tamper=None, pre=0):
    ensure_repo()
    ids = Ids()
    rs, sch = m_recspec(spec, ids)
    vs = make_scheme(vscheme)
    tb = m_tables([s for s in (sch, vs) if s is not None], [spec["line"]], ids, [spec["names"]])
    tw = [([0, S(t[1]), OPT(t[2])] if t[0] == "idx" else [1, S(t[1]), S(t[2])]) for t in (tamper or [])]
    return [3, rs, m_mode(vmode), B(reset), ([] if vs is None else [m_scheme(vs, ids)]), tb, tw, pre]


def dec_validate(sx):
    if sx[0] == 1:
        return ["noparse", d_exn(sx[1])]
    return ["parsed", d_out(sx[1], d_record)]


# ---- writer
def impl_writer(hlines, mode, specs, channel="fd", hmode=None):
    """channel: "fd" (MafWriter.from_fd on io.StringIO), "path" / "gz" (MafWriter.from_path on a scratch file
    under /verif/work/<unique>, plain or gzip-compressed; removed afterwards)"""
    ensure_repo()
    import gzip
    import os
    import shutil
    import tempfile
    from maflib.header import MafHeader
    from maflib.record import MafRecord
    from maflib.writer import MafWriter
    h = MafHeader.from_lines(list(hlines), validation_stringency=py_mode("Silent"))
    if hmode is not None:
        h.validation_stringency = py_mode(hmode)      # the header object remembers another stringency than the writer's
    recs = [MafRecord.from_line(validation_stringency=py_mode("Silent"), **_recspec_args(s)) for s in specs]
    class KeepOpen(io.StringIO):
        def close(self):        # MafWriter.close() closes its handle; the text is read afterwards
            pass

    fd = KeepOpen()
    work = None
    path = None
    if channel not in ("fd", "sorted"):
        os.makedirs("/verif/work", exist_ok=True)
        work = tempfile.mkdtemp(prefix="rdw_", dir="/verif/work")
        path = os.path.join(work, "out.maf" + (".gz" if channel == "gz" else ""))
    try:
        with LogCapture() as cap:
            try:
                if channel == "fd":
                    w = MafWriter.from_fd(fd, header=h, validation_stringency=py_mode(mode))
                elif channel == "sorted":
                    w = MafWriter.from_fd(fd, header=h, validation_stringency=py_mode(mode), assume_sorted=False)
                else:
                    w = MafWriter.from_path(path, header=h, validation_stringency=py_mode(mode))
            except Exception as e:  # noqa
                return {"log": cap.take(), "init": ["exc", c_exn(e)]}
            out = {"log": cap.take(), "init": ["ok", c_errs(h.validation_errors)], "adds": [],
                   "_header_is_the_header": w.header() is h,
                   "_schemeless_at_start": not h.scheme()}
            for i, r in enumerate(recs):
                try:
                    if i % 2:
                        w.write(r)          # the method spelling of `writer += record`
                    else:
                        w += r
                    res = ["ok", c_errs(r.validation_errors)]
                except Exception as e:  # noqa
                    res = ["exc", c_exn(e)]
                out["adds"].append({"log": cap.take(), "res": res})
            if channel == "fd":
                text = fd.getvalue()
            elif channel == "sorted":
                # the records sit in the sorter until close(): it re-reads them and writes them out
                try:
                    w.close()
                    out["_close"] = None
                except Exception as e:  # noqa
                    out["_close"] = c_exn(e)
                out["_close_log"] = cap.take()
                text = fd.getvalue()
                lines_out = ([] if text == "" else
                             text.split("\n")[:-1] if text.endswith("\n") else ["<no trailing newline>" + text])
                out["_out"] = lines_out
                return out
            else:
                w.close()
                with (gzip.open(path, "rt") if channel == "gz" else open(path, "r")) as fh:
                    text = fh.read()
            out["out"] = ([] if text == "" else
                          text.split("\n")[:-1] if text.endswith("\n") else ["<no trailing newline>" + text])
        return out
    finally:
        if work is not None:
            shutil.rmtree(work, ignore_errors=True)


def wire_writer(hlines, mode, specs):
    ensure_repo()
    ids = Ids()
    reg, reach = m_registry(hlines, ids)
    rss = []
    schemes = list(reach)
    for s in specs:
        rs, sch = m_recspec(s, ids)
        rss.append(rs)
        if sch is not None:
            schemes.append(sch)
    tb = m_tables(schemes, [s["line"] for s in specs], ids, [s["names"] for s in specs])
    return [4, m_mode(mode), [S(l) for l in hlines], reg, tb, rss]


def dec_writer(sx):
    if len(sx) == 2:
        return {"log": d_log(sx[0]), "init": ["exc", d_exn(sx[1][1])]}
    lg, init, adds, outl = sx
    return {"log": d_log(lg), "init": ["ok", d_errs(init[1])],
            "adds": [{"log": d_log(a[0]), "res": d_res(a[1], d_errs)} for a in adds],
            "out": ("\n".join(d_strs(outl)).split("\n") if outl else [])}


# ---- derived header (from_reader) and mutations
def _apply_mut(h, m):
    from maflib.header import MafHeaderRecord, MafHeaderContigRecord
    from maflib.sort_order import SortOrder
    t = m[0]
    if t == "set":
        h[m[1]] = MafHeaderRecord(key=m[1], value=m[2])
    elif t == "del":
        if m[1] in h:
            del h[m[1]]
    elif t == "value":
        if m[1] in h:
            h[m[1]].value = m[2]
    elif t == "key":
        if m[1] in h:
            h[m[1]].key = m[2]
    elif t == "append":
        if m[1] in h:
            v = h[m[1]].value
            if isinstance(v, list):
                v.append(m[2])
            elif isinstance(v, SortOrder) and getattr(v, "_contigs", None):
                v._contigs.append(m[2])
    elif t == "contigs":
        h["contigs"] = MafHeaderContigRecord(value=list(m[1]))


def impl_derive(hlines, muts_copy, muts_src):
    ensure_repo()
    from maflib.header import MafHeader
    from maflib.reader import MafReader
    rd = MafReader(lines=list(hlines) + ["c1\tc2"], validation_stringency=py_mode("Silent"))
    src = rd.header()
    cp = MafHeader.from_reader(rd)
    views = [c_hrecs(src), c_hrecs(cp)]
    prints = [str(src), str(cp)]
    for m in muts_copy:
        _apply_mut(cp, m)
    views += [c_hrecs(src), c_hrecs(cp)]
    prints += [str(src), str(cp)]
    for m in muts_src:
        _apply_mut(src, m)
    views += [c_hrecs(src), c_hrecs(cp)]
    prints += [str(src), str(cp)]
    return {"views": views, "_prints": prints,
            "_shared": sorted(k for k in src if k in cp and (src[k] is cp[k] or (
                isinstance(src[k].value, list) and src[k].value is cp[k].value)))}


def m_mut(m):
    t = m[0]
    if t == "set":
        return [0, S(m[1]), S(m[2])]
    if t == "del":
        return [1, S(m[1])]
    if t == "value":
        return [2, S(m[1]), S(m[2])]
    if t == "key":
        return [3, S(m[1]), S(m[2])]
    if t == "append":
        return [4, S(m[1]), S(m[2])]
    return [5, [S(c) for c in m[1]]]


def wire_derive(hlines, muts_copy, muts_src):
    ensure_repo()
    reg = [[S(v), S(a), B(nr), ([[]] if nr else [])] for (v, a, nr, _) in registry()]
    hl = [l.rstrip("\r\n") for l in hlines]
    return [5, [S(l) for l in hl], reg, [m_mut(m) for m in muts_copy], [m_mut(m) for m in muts_src]]


def dec_derive(sx):
    return {"views": [d_hrecs(v) for v in sx]}


# ------------------------------------------------------------------ generator vocabulary
WS_TAIL = ["", " ", "  ", "\t", " ", " ", "　", "  \t", "\x0b", "\x0c", "\x1c", "\x1f", "\x85",
           " ", " ", " ", " ", " ", " ", " "]
NOT_WS_TAIL = ["​", "᠎", "\x00", "\x08", "\x7f", "﻿", "⁠", "\x1b"]
GEN_KEYS = ["center", "foo", "a.b", "k", "Version", "versions", "sort.Order", "contig", "n", "#x", "é", "k\tk",
            "annotation", "filedate", "tumor.aliquot", "gc%", "%s", "k%d"]
GEN_VALUES = ["x", "a b", "a  b", "1.0", "a b", "　x", "x y z", "v​", "#", "# #", "=", "a,b", "éè",
              "x\ty", "0", "None", "\x00", "a\x0bb"]
VERSIONS_OK = ["gdc-1.0.0"]
VERSIONS_BAD = ["gdc-1.0.1", "gdc-2.0.0", "x", "GDC-1.0.0", "gdc-1.0.0-public", "1.0.0", "gdc-1.0.0%", "%s", "100%"]
ANNOTS_OK = ["gdc-1.0.0-public", "gdc-1.0.0-protected", "gdc-1.0.1-public", "gdc-2.0.0-aliquot"]
ANNOTS_BAD = ["gdc-1.0.0-publi", "junk", "public", "GDC-1.0.0-PUBLIC", "gdc-1.0.0-public%", "%d", "%%"]
ORDERS_BAD = ["coordinate", "Sorted", "unsorted", "Coordinate,", "Barcodes", "BarcodesAndCoordinates", "None",
              "100% sorted", "%s", "Coordinate%"]
CONTIGS = ["chr1,chr2,chrX", "chr1", "1,2,10,X", "chr2,chr1", ",", "a,,b", "chr1, chr2", "chr1,chr1", "chr1,"]


def gen_good_line(rng, key=None):
    """a well-formed pragma line"""
    r = rng.random()
    if key is None:
        key = rng.choice(["version", "annotation.spec", "sort.order", "contigs"]) if r < 0.45 else rng.choice(GEN_KEYS)
    if key == "version":
        v = rng.choice(VERSIONS_OK if rng.random() < 0.7 else VERSIONS_BAD + ["no-version"])
    elif key == "annotation.spec":
        v = rng.choice(ANNOTS_OK + ["gdc-1.0.0"] if rng.random() < 0.7 else ANNOTS_BAD + ["no-annotation-specification"])
    elif key == "sort.order":
        v = rng.choice(SORT_NAMES)
    elif key == "contigs":
        v = rng.choice(CONTIGS)
    else:
        v = rng.choice(GEN_VALUES)
    tail = rng.choice(WS_TAIL) if rng.random() < 0.4 else ""
    return "#" + key + " " + v + tail


def gen_bad_line(rng):
    """a malformed pragma line (one of the five categories)"""
    k = rng.randrange(7)
    if k == 0:
        return rng.choice(["version gdc-1.0.0", " #version x", "", "x", "\t#k v", "﻿#version gdc-1.0.0"])
    if k == 1:
        return rng.choice(["#", "#version", "#k\tv", "#k v", "#version=1", "##"])
    if k == 2:
        return rng.choice(["# v", "#  v", "# version gdc-1.0.0", "# "])
    if k == 3:
        return "#" + rng.choice(["k", "version", "contigs", "sort.order"]) + " " + rng.choice(
            ["", " ", "\t", " ", "　 \t", "\x1c\x1d", " "])
    if k == 4:
        return "#sort.order " + rng.choice(ORDERS_BAD)
    if k == 5:
        return "#k v" + rng.choice(NOT_WS_TAIL)      # not malformed: the tail is not whitespace
    return "#sort.order " + rng.choice(SORT_NAMES) + rng.choice(NOT_WS_TAIL)   # unknown order: tail kept


# valid field texts for built-in scheme columns (found once per process by trying a pool on the real classes)
_POOL = None
_VALID = {}


def _pool():
    global _POOL
    if _POOL is None:
        ensure_repo()
        import enum
        import maflib.column_values as cv
        pool = ["", "A", "T", "ACGT", "-", "1", "100", "0", "+", "TP53", "chr1", "0.5", "GRCh38", "Y", "N", "Yes", "No",
                "rs1;rs2", "a;b", "1;2", "PASS", "TCGA-A1-0001", "c5a5a5a5-1111-2222-3333-444455556666",
                "novel", "1/3", "A;T", "0.1;0.2", "True", "Unknown", "."]
        for name in dir(cv):
            obj = getattr(cv, name)
            if isinstance(obj, type) and issubclass(obj, enum.Enum) and obj is not enum.Enum:
                for mem in obj:
                    if isinstance(mem.value, str):
                        pool.append(mem.value)
        _POOL = list(dict.fromkeys(pool))
    return _POOL


def valid_texts(cls):
    """texts from the pool the class builds and validates without error"""
    if cls not in _VALID:
        ok = []
        for t in _pool():
            try:
                c = cls.build(name="x", value=t, column_index=0)
                if not c.validate():
                    ok.append(t)
            except Exception:  # noqa
                pass
        _VALID[cls] = ok
    return _VALID[cls]


def builtin_scheme(annotation):
    return make_scheme(["builtin", annotation])


def valid_line(rng, scheme, chrom=None, start=None):
    """a data line valid under the built-in scheme (by construction from the real classes' accepted texts)"""
    fields = []
    for n in scheme.column_names():
        cls = scheme.column_class(n)
        if n == "Chromosome" and chrom is not None:
            fields.append(chrom)
        elif n in ("Start_Position", "End_Position") and start is not None:
            fields.append(str(start))
        else:
            vt = valid_texts(cls)
            nonempty = [t for t in vt if t] or vt or ["x"]
            fields.append(rng.choice(nonempty) if rng.random() < 0.8 else rng.choice(vt or ["x"]))
    return "\t".join(fields)


BAD_FIELDS = ["", "x y", "-1", "0", "1.5", "NaN", "é", "a\rb", "a\nb", "\x00", " ", "1e3", "None", "chr1 ", "١٢",
              "0x10", "1_000", "+5", " 7 ", "99999999999999999999999", "TRUE", "a;b;", ";",
              "12%", "5%d", "%s", "100%(SNP)s", "%", "%%", "{", "}", "{0}", "{x}", "a\\b", "\\", "'", '"', "it's", "`"]
# texts with characters that matter to message formatting (%, braces, backslash, quotes)
FORMAT_TEXTS = ["12%", "5%d", "%s", "100%(SNP)s", "%", "{", "}", "{0}", "{error}", "a\\b", "\\n", "'", '"', "'%s'",
                # numbers no integer can hold, and spellings float() accepts but int() does not
                "inf", "-inf", "Infinity", "nan", "1e309", "-1e400", "1e5", "100.0", "1.0e2", "0x1F", "١٢٣"]
# a lone CR (or a TAB-free control character) inside a cell: the cell's text is kept, validation objects
CR_TEXTS = ["a\rb", "\r", "x\r", "\rx", "a\r\rb"]
# chromosome / position boundary texts (typed columns turn "0", "00", "-0" into the int 0)
ZERO_TEXTS = ["0", "00", "-0", "", "000", "+0", " 0"]
PLAIN_NAMESETS = [
    ["Chromosome", "Start_Position", "End_Position"],
    ["Tumor_Sample_Barcode", "Matched_Norm_Sample_Barcode", "Chromosome", "Start_Position", "End_Position"],
    ["a", "b"], ["a"], ["c1", "c2", "c3", "c4"], ["Chromosome", "x"], ["Hugo_Symbol", "Chromosome", "Start_Position"],
]
CHROMS = ["chr1", "chr2", "chrX", "1", "2", "10", "X"]


def gen_reader_case(rng, stream):
    """{"lines", "override", "shape": {...}} - a whole file as a list of lines.
    stream: valid | defect | boundary | adversarial"""
    adv = stream == "adversarial"
    H = rng.choice([0, 1, 2, 2, 3, 4])
    flavour = rng.choice(["none", "unknown", "basic", "basic", "public", "plainhdr", "norestr"])
    hl = []
    scheme = None
    if flavour == "unknown":
        hl.append("#version " + rng.choice(VERSIONS_BAD))
    elif flavour == "basic":
        hl.append("#version gdc-1.0.0")
        scheme = builtin_scheme("gdc-1.0.0")
    elif flavour == "public":
        ann = rng.choice(["gdc-1.0.0-public", "gdc-1.0.0-protected"]) if rng.random() < 0.5 else "gdc-1.0.0-public"
        hl += ["#version gdc-1.0.0", "#annotation.spec " + ann]
        scheme = builtin_scheme(ann)
    elif flavour == "norestr":
        hl += rng.choice([["#version no-version", "#annotation.spec no-annotation-specification"],
                          ["#annotation.spec no-annotation-specification"], ["#version no-version"]])
    elif flavour == "plainhdr":
        hl.append("#" + rng.choice(GEN_KEYS[:4]) + " " + rng.choice(GEN_VALUES[:5]))
    order = rng.choice([None, None, "Coordinate", "BarcodesAndCoordinate", "Unsorted", "Unknown"])
    if focused("sort_order.py") and rng.random() < 0.6:
        order = rng.choice(["Coordinate", "BarcodesAndCoordinate"])      # aim at the order checker and its keys
    contigs = None
    if order is not None:
        hl.append("#sort.order " + order)
        if order in ("Coordinate", "BarcodesAndCoordinate") and rng.random() < 0.5:
            contigs = rng.choice(["chr1,chr2,chrX", "1,2,10,X", "chr2,chr1"])
            hl.insert(rng.randrange(len(hl) + 1), "#contigs " + contigs)
    while len(hl) < H:
        hl.append(gen_good_line(rng, rng.choice(GEN_KEYS)))
    if flavour == "none" and order is None:
        hl = hl[:H]
    # column line
    col_present = rng.random() < (0.9 if stream != "boundary" else 0.6)
    if scheme is not None:
        names = scheme.column_names()
    else:
        names = list(rng.choice(PLAIN_NAMESETS)) if order else list(rng.choice(PLAIN_NAMESETS + [["a", "b", "c"]]))
    ndata = rng.choice([0, 1, 2, 3, 5]) if col_present else 0
    data = []
    pos = 100
    clist = (contigs.split(",") if contigs else CHROMS[:3])
    ci = 0
    sorted_ok = rng.random() < 0.8
    for j in range(ndata):
        if sorted_ok:
            if rng.random() < 0.3 and ci + 1 < len(clist):
                ci += 1
                pos = 100
            pos += rng.choice([0, 1, 10])
            chrom = clist[ci]
        else:
            chrom = rng.choice(clist + ["chrUn"])
            pos = rng.choice([5, 50, 500])
        if scheme is not None:
            data.append(valid_line(rng, scheme, chrom=chrom, start=pos))
        else:
            row = []
            for n in names:
                if n == "Chromosome":
                    row.append(chrom)
                elif n in ("Start_Position", "End_Position"):
                    row.append(str(pos))
                elif n.endswith("Barcode"):
                    row.append(rng.choice(["T1", "T1", "T2", "N1"]))
                else:
                    row.append(rng.choice(["x", "y", "1", "", "a b"]))
            data.append("\t".join(row))
    colline = "\t".join(names)
    override = None
    defect = None
    if stream in ("defect", "adversarial"):
        ndef = 1 if stream == "defect" else rng.randint(1, 4)
        for _ in range(ndef):
            kinds = ["hdr-bad", "hdr-dup", "col-drop", "col-rename", "col-dup", "data-count", "data-field", "data-blank",
                     "data-pragma", "data-ctrl", "crlf", "override", "order-break", "contig-miss", "hdr-late"]
            d = rng.choice(kinds)
            defect = d if defect is None else defect + "+" + d
            if d == "hdr-bad":
                hl.insert(rng.randrange(len(hl) + 1), rng.choice(["#", "# v", "#k ", "#sort.order bogus", "#k"]))
            elif d == "hdr-dup" and hl:
                hl.insert(rng.randrange(len(hl) + 1), rng.choice(hl))
            elif d == "col-drop" and len(names) > 1:
                nm = colline.split("\t")
                del nm[rng.randrange(len(nm))]
                colline = "\t".join(nm)
            elif d == "col-rename":
                nm = colline.split("\t")
                nm[rng.randrange(len(nm))] = rng.choice(["zz", "", "Chromosome ", "#c", "GC%", "%s", "100%d"])
                colline = "\t".join(nm)
            elif d == "col-dup":
                nm = colline.split("\t")
                nm[rng.randrange(len(nm))] = nm[0]
                colline = "\t".join(nm)
            elif d == "data-count" and data:
                j = rng.randrange(len(data))
                f = data[j].split("\t")
                if rng.random() < 0.5 and len(f) > 1:
                    del f[rng.randrange(len(f))]
                else:
                    f.insert(rng.randrange(len(f) + 1), "extra")
                data[j] = "\t".join(f)
            elif d == "data-field" and data:
                j = rng.randrange(len(data))
                f = data[j].split("\t")
                f[rng.randrange(len(f))] = rng.choice(BAD_FIELDS)
                data[j] = "\t".join(f)
            elif d == "data-blank" and col_present:
                data.insert(rng.randrange(len(data) + 1), rng.choice(["", " ", "\t"]))
            elif d == "data-pragma" and col_present:
                data.insert(rng.randrange(len(data) + 1), rng.choice(["#version gdc-1.0.0", "#late pragma", "#"]))
            elif d == "data-ctrl" and data:
                j = rng.randrange(len(data))
                data[j] = data[j] + rng.choice(["\x00", "\r", "\rx", "\x0b", " ", "\n\n", "\r\n\r\n", " "])
            elif d == "crlf":
                hl = [l + "\r\n" for l in hl]
                colline += "\r\n"
                data = [l + rng.choice(["\n", "\r\n", "\r"]) for l in data]
            elif d == "override":
                override = rng.choice([["builtin", "gdc-1.0.0"], ["norestr", ["q"]], ["norestr", names[:]],
                                       ["builtin", "gdc-1.0.0-public"], ["norestr", []]])
            elif d == "order-break" and len(data) >= 2:
                data[0], data[-1] = data[-1], data[0]
            elif d == "contig-miss" and data:
                j = rng.randrange(len(data))
                f = data[j].split("\t")
                if "Chromosome" in names and len(f) == len(names):
                    f[names.index("Chromosome")] = rng.choice(["chrZ", "", "CHR1"])
                    data[j] = "\t".join(f)
            elif d == "hdr-late" and col_present:
                data.append("#version gdc-1.0.0")
    lines = list(hl)
    if col_present:
        lines.append(colline)
        lines += data
    return {"lines": lines, "override": override,
            "shape": {"stream": stream, "H": len(hl), "col": col_present, "data": len(data) if col_present else 0,
                      "flavour": flavour, "order": order, "contigs": contigs is not None, "defect": defect}}


def _rejecting_columns(scheme, text):
    """names of columns of the scheme whose class fails to build the text (asked of the real classes)"""
    out = []
    for n in scheme.column_names():
        cls = scheme.column_class(n)
        try:
            cls.build(name=n, value=text, column_index=0)
        except Exception:  # noqa
            out.append(n)
    return out


def typed_special_cases():
    """whole files under the built-in 34-column scheme, one data line carrying (a) a text with %, braces,
    backslash or quotes in a column whose class rejects it, (b) zero-like texts in Chromosome / Start / End
    under each declared sort order, with and without contig lists that contain "0" """
    import random
    rng = random.Random(11)
    sch = builtin_scheme("gdc-1.0.0")
    names = sch.column_names()
    col = "\t".join(names)
    out = []

    def shape(defect, order=None, contigs=False):
        return {"stream": "typed-special", "H": 1, "col": True, "data": 2, "flavour": "basic", "order": order,
                "contigs": contigs, "defect": defect}

    for t in FORMAT_TEXTS:
        rej = _rejecting_columns(sch, t)
        for n in rej[:3] + ([rng.choice(rej)] if rej else []):
            good = valid_line(rng, sch, chrom="chr1", start=10).split("\t")
            bad = list(good)
            bad[names.index(n)] = t
            out.append({"lines": ["#version gdc-1.0.0", col, "\t".join(good), "\t".join(bad)], "override": None,
                        "shape": shape("format-text")})
    # a lone CR inside a cell of a typed column that keeps text
    for t in CR_TEXTS:
        keep = [n for n in names if n not in _rejecting_columns(sch, t)]
        for n in (keep[:2] + [rng.choice(keep)]) if keep else []:
            good = valid_line(rng, sch, chrom="chr1", start=10).split("\t")
            bad = list(good)
            bad[names.index(n)] = t
            out.append({"lines": ["#version gdc-1.0.0", col, "\t".join(good), "\t".join(bad), "\t".join(good)],
                        "override": None, "shape": shape("cr-text")})
    # all-digit barcodes under the barcode order (typed text columns must keep them text)
    ti, ni = names.index("Tumor_Sample_Barcode"), names.index("Matched_Norm_Sample_Barcode")
    for b1, b2 in (("123", "TCGA-A"), ("TCGA-A", "0042"), ("7", "7"), ("10", "9")):
        rows = []
        for b in (b1, b2):
            f = valid_line(rng, sch, chrom="chr1", start=5).split("\t")
            f[ti] = b
            f[ni] = b
            rows.append("\t".join(f))
        out.append({"lines": ["#version gdc-1.0.0", "#sort.order BarcodesAndCoordinate", col] + rows, "override": None,
                    "shape": shape("digit-barcode", "BarcodesAndCoordinate", False)})
    ci, si, ei = names.index("Chromosome"), names.index("Start_Position"), names.index("End_Position")
    for order in ("Coordinate", "BarcodesAndCoordinate", "Unsorted"):
        for contigs in (None, "1,0", "0,1,X", "0", "00,0"):
            hl = ["#version gdc-1.0.0", "#sort.order " + order] + (["#contigs " + contigs] if contigs else [])
            for z in ZERO_TEXTS:
                for first in ("1", z):
                    rows = []
                    for chrom, pos in ((first, "5"), (z, "5"), ("1", z)):
                        f = valid_line(rng, sch, chrom="1", start=5).split("\t")
                        f[ci] = chrom
                        f[si] = pos
                        f[ei] = pos
                        rows.append("\t".join(f))
                    out.append({"lines": hl + [col] + rows, "override": None,
                                "shape": shape("zero-text", order, contigs is not None)})
    return out


def reader_boundary_cases():
    """fixed file shapes: every H in 0..4 x column line absent / last line / followed by data"""
    out = []
    pragmas = ["#version gdc-1.0.0", "#k v", "#sort.order Coordinate", "#contigs chr1,chr2"]
    for H in range(5):
        hl = pragmas[:H]
        for tail in ([], ["a\tb"], ["a\tb", "1\t2"], ["a\tb", "1"], ["a\tb", "1\t2", "3"], ["a\tb", "1\t2", "", "3\t4\t5"],
                     ["Chromosome\tStart_Position\tEnd_Position", "chr1\t5\t5", "chr1\t3\t3"],
                     ["Chromosome\tStart_Position\tEnd_Position", "chr9\t5\t5", "chr1\t3\t3"],
                     ["Chromosome\tStart_Position\tEnd_Position", "chr1\t5", "chr1\t3\t3", "chr1\t1\t1"]):
            out.append({"lines": hl + tail, "override": None,
                        "shape": {"stream": "boundary", "H": H, "col": bool(tail), "data": max(0, len(tail) - 1),
                                  "flavour": "fixed", "order": ("Coordinate" if H >= 3 else None), "contigs": H >= 4,
                                  "defect": None}})
    out.append({"lines": [], "override": None, "shape": {"stream": "boundary", "H": 0, "col": False, "data": 0,
                                                         "flavour": "empty", "order": None, "contigs": False, "defect": None}})
    return out


def shrink_lines(case, key="lines"):
    ls = case[key]
    for i in range(len(ls)):
        yield dict(case, **{key: ls[:i] + ls[i + 1:]})
    for i, l in enumerate(ls):
        f = l.split("\t")
        if len(f) > 1:
            for j in range(len(f)):
                yield dict(case, **{key: ls[:i] + ["\t".join(f[:j] + f[j + 1:])] + ls[i + 1:]})
        if len(l) > 1 and "\t" not in l:
            yield dict(case, **{key: ls[:i] + [l[:-1]] + ls[i + 1:]})


# ------------------------------------------------------------------ obligations
def isspace_obligation():
    """lib/Str.v's is_space must be exactly str.isspace on every code point"""
    def model_is_space(c):
        return (9 <= c <= 13 or 28 <= c <= 32 or c in (133, 160, 5760) or 8192 <= c <= 8202
                or c in (8232, 8233, 8239, 8287, 12288))
    src = open("/verif/coq/lib/Str.v").read()
    m = re.search(r"Definition is_space \(c : char\) : bool :=(.*?)\.\n", src, re.S)
    body = re.sub(r"\s+", " ", m.group(1)) if m else ""
    expect = ("((9 <=? c) && (c <=? 13) || (28 <=? c) && (c <=? 32) || N.eqb c 133 || N.eqb c 160 || N.eqb c 5760 "
              "|| (8192 <=? c) && (c <=? 8202) || N.eqb c 8232 || N.eqb c 8233 || N.eqb c 8239 || N.eqb c 8287 "
              "|| N.eqb c 12288)%N")
    if body.strip() != expect:
        return ("is_space-matches-host-isspace", False, "lib/Str.v is_space changed; update the transcription in rd_common.py")
    bad = [c for c in range(0x110000) if model_is_space(c) != chr(c).isspace()]
    return ("is_space-matches-host-isspace", not bad, "swept 0x110000 code points; mismatches: %r" % bad[:5])


_PINNED = None


def pinned_pairs():
    """(version, annotation) of every documented layout, from the pinned spec (harness/spec_layouts.json) - not from
    the library's schema files"""
    global _PINNED
    if _PINNED is None:
        import json
        d = json.load(open("/verif/harness/spec_layouts.json"))["layouts"]
        _PINNED = sorted((l["version"], a) for a, l in d.items())
    return _PINNED


# ------------------------------------------------------------------ the header spec in python (oracles of C13 / C17)
HEADER_LINE_CODES = (1, 2, 3, 4, 5, 10)


def spec_classify(line):
    """("ok", key, value) for a well-formed pragma, ("bad", error code) otherwise - written from the
    property text, not from the library"""
    if line[:1] != "#":
        return ("bad", 1)
    body = line[1:]
    i = body.find(" ")
    if i < 0:
        return ("bad", 2)
    key, value = body[:i], body[i + 1:]
    while value and value[-1].isspace():
        value = value[:-1]
    if key == "":
        return ("bad", 3)
    if value == "":
        return ("bad", 4)
    if key == "sort.order" and value not in SORT_NAMES:
        return ("bad", 10)
    return ("ok", key, value)


def spec_header(lines):
    """first-wins fold: kept [(line number, key, value)], diagnostics [[code, line number]]"""
    kept, diags, seen = [], [], set()
    for k, line in enumerate(lines, 1):
        c = spec_classify(line)
        if c[0] == "bad":
            diags.append([c[1], k])
        elif c[1] in seen:
            diags.append([5, k])
        else:
            seen.add(c[1])
            kept.append((k, c[1], c[2]))
    return kept, diags


def spec_header_checks(kept):
    """the header-level checks as a decision table over the kept pragmas and the registry's (version, annotation) pairs"""
    reg = [(v, a, nr) for (v, a, nr, _) in registry()]
    d = {k: v for (_, k, v) in kept}
    version, annotation = d.get("version"), d.get("annotation.spec")
    out = []
    if version is None:
        out.append([6, None])
    elif version not in [v for (v, _, _) in reg]:
        out.append([7, None])
    # the scheme the pragmas name
    if version is None and annotation is None:
        sch = None
    elif annotation is None:
        sch = next(((v, a, nr) for (v, a, nr) in reg if v == version and a == version), None)
    elif version is None:
        sch = next(((v, a, nr) for (v, a, nr) in reg if a == annotation), None)
    else:
        sch = next(((v, a, nr) for (v, a, nr) in reg if v == version and a == annotation), None)
    if sch is not None and sch[2]:
        sch = None
    basic = sch is not None and sch[0] == sch[1]
    if basic:
        if annotation is not None:
            out.append([9, None])
    elif annotation is None:
        out.append([8, None])
    elif annotation not in [a for (_, a, _) in reg]:
        out.append([9, None])
    return out


def schemes_wf_obligation():
    """hypothesis of the C16/C17 theorems: a scheme's column names are distinct (schemes are dicts)"""
    ensure_repo()
    from maflib.schemes import NoRestrictionsScheme
    bad = []
    for (v, a, nr, cls) in registry():
        if nr:
            continue
        names = cls().column_names()
        if len(names) != len(set(names)):
            bad.append(a)
    probe = NoRestrictionsScheme(column_names=["a", "a", "b", "a"]).column_names()
    if len(probe) != len(set(probe)):
        bad.append("NoRestrictionsScheme")
    return ("schemes-have-distinct-column-names", not bad, "checked %d registry schemes and NoRestrictionsScheme; offenders: %r"
            % (len(registry()), bad))


# ------------------------------------------------------------------ header edited through the MutableMapping API
def _apply_hop(h, op):
    """op: ["set", key, value] with value ["t", text] | ["o", name, contigs or None] | ["c", [names]];
    ["del", key] | ["pop", key] | ["clear"] | ["popitem"]"""
    from maflib.header import MafHeaderRecord, MafHeaderSortOrderRecord, MafHeaderContigRecord
    t = op[0]
    if t == "set":
        v = op[2]
        if v[0] == "t":
            rec = MafHeaderRecord(key=op[1], value=v[1])
        elif v[0] == "o":
            rec = MafHeaderSortOrderRecord(value=v[1], contigs=(list(v[2]) if v[2] is not None else None))
        else:
            rec = MafHeaderContigRecord(value=list(v[1]))
        h[op[1]] = rec
    elif t == "del":
        del h[op[1]]
    elif t == "pop":
        h.pop(op[1])
    elif t == "clear":
        h.clear()
    elif t == "value":
        h[op[1]].value = op[2]
    else:
        h.popitem()


def _fresh_view(h):
    """the same pragmas parsed afresh from str(header): what accessors and checks must say"""
    from maflib.header import MafHeader
    text = str(h)
    f = MafHeader.from_lines(text.split("\n") if len(h) else [], validation_stringency=py_mode("Silent"))
    so = f.sort_order()
    try:
        sch = ["ok", c_scheme_id(f.scheme())]
    except Exception as e:  # noqa
        sch = ["exc", c_exn(e)]
    return {"version": f.version(), "annotation": f.annotation(), "contigs": f.contigs(), "order": so.name(),
            "scheme": sch, "errs": c_errs(f.validation_errors), "print": [str(f[k]) for k in f]}


def impl_header_ops(hlines, ops, derive):
    ensure_repo()
    from maflib.header import MafHeader
    from maflib.reader import MafReader
    if derive:
        rd = MafReader(lines=list(hlines) + ["c1\tc2"], validation_stringency=py_mode("Silent"))
        h = MafHeader.from_reader(rd)
        h.validate()
    else:
        h = MafHeader.from_lines(list(hlines), validation_stringency=py_mode("Silent"))
    out = {"start": c_header(h), "steps": [], "_fresh": []}
    for op in ops:
        exc = None
        try:
            _apply_hop(h, op)
        except Exception as e:  # noqa
            exc = c_exn(e)
        h.validate()
        out["steps"].append({"exc": exc, "h": c_header(h)})
        out["_fresh"].append(_fresh_view(h))
    return out


def wire_header_ops(hlines, ops):
    ensure_repo()
    reg = [[S(v), S(a), B(nr), ([[]] if nr else [])] for (v, a, nr, _) in registry()]
    w = []
    for op in ops:
        t = op[0]
        if t == "set":
            v = op[2]
            if v[0] == "t":
                mv = [0, S(v[1])]
            elif v[0] == "o":
                mv = [1, S(v[1]), OPT(v[2], lambda cs: [S(c) for c in cs])]
            else:
                mv = [2, [S(c) for c in v[1]]]
            w.append([0, S(op[1]), mv])
        elif t in ("del", "pop"):
            w.append([1, S(op[1])])
        elif t == "clear":
            w.append([2])
        elif t == "value":
            w.append([4, S(op[1]), S(op[2])])
        else:
            w.append([3])
    return [6, [S(l) for l in hlines], reg, w]


def dec_header_ops(sx):
    start, steps = sx
    return {"start": d_header(start),
            "steps": [{"exc": (d_exn(e[0]) if e else None), "h": d_header(h)} for e, h in steps]}


# ------------------------------------------------------------------ LineReader / from_line_reader
def impl_line_reader(lines, mode, reads, last_eol=True, pre=0, handle="stringio"):
    """the lines joined with LF in an io.StringIO, LineReader on it, MafHeader.from_line_reader"""
    ensure_repo()
    from maflib.header import MafHeader
    from maflib.util import LineReader
    text = "\n".join(lines) + ("\n" if (lines and last_eol) else "")
    work = None
    if handle == "file":            # a real file handle instead of io.StringIO
        import os
        import tempfile
        os.makedirs("/verif/work", exist_ok=True)
        work = tempfile.mkdtemp(prefix="rdl_", dir="/verif/work")
        path = os.path.join(work, "in.maf")
        with open(path, "w", newline="") as fh:
            fh.write(text)
        lr = LineReader(open(path, "r", newline="\n"))
    else:
        lr = LineReader(io.StringIO(text))
    try:
        return _line_reader_run(lr, lines, mode, reads, pre)
    finally:
        if work is not None:
            import shutil
            try:
                lr.close()
            except Exception:  # noqa
                pass
            shutil.rmtree(work, ignore_errors=True)


def _line_reader_run(lr, lines, mode, reads, pre):
    from maflib.header import MafHeader
    for _ in range(pre):
        lr.read_line()              # lines consumed before the header is read: its lines are numbered from here
    with LogCapture() as cap:
        try:
            h = MafHeader.from_line_reader(lr, validation_stringency=py_mode(mode))
            res = ["ok", c_header(h)]
        except Exception as e:  # noqa
            res = ["exc", c_exn(e)]
        head = {"log": cap.take(), "res": res}
    out = {"header": head, "lineno": lr.line_number(), "peek": lr.peek_line(), "reads": []}
    for _ in range(reads):
        out["reads"].append([lr.read_line(), lr.line_number()])
    # iterate what is left: next(), .next(), then a for loop; an empty line ends it like the end of the input
    rest = []
    try:
        rest.append(next(lr))
        rest.append(lr.next())
        for l in lr:
            rest.append(l)
            if len(rest) > len(lines) + 3:
                rest.append("<did not stop>")
                break
    except StopIteration:
        pass
    out["_iter"] = rest
    out["_lineno_after_iter"] = lr.line_number()
    lr.close()
    out["_closed"] = lr._file.closed
    return out


def wire_line_reader(lines, mode, reads, last_eol=True, pre=0):
    ensure_repo()
    reg = [[S(v), S(a), B(nr), ([[]] if nr else [])] for (v, a, nr, _) in registry()]
    raw = [l + "\n" for l in lines]
    if raw and not last_eol:
        raw[-1] = lines[-1]
        if raw[-1] == "":
            raw = raw[:-1]          # "a\n" + "" : the handle ends after the last terminator
    return [7, m_mode(mode), [S(l) for l in raw], reg, reads, pre]


def dec_line_reader(sx):
    head, no, peek, reads = sx
    return {"header": d_out(head, d_header), "lineno": no, "peek": U(peek), "reads": [[U(l), n] for l, n in reads]}


# ------------------------------------------------------------------ from_defaults / from_reader with arguments
def _so_obj(so):
    """so: None | ["name", text] | ["inst", name, own contigs]"""
    from maflib.sort_order import SortOrder
    if so is None:
        return None
    if so[0] == "name":
        return so[1]
    cls = SortOrder.find(so[1])
    if so[2] and so[1] in ("Coordinate", "BarcodesAndCoordinate"):
        return cls(contigs=list(so[2]))
    return cls()


def impl_derive_args(src, version, annotation, so, contigs, fai=None):
    """src None: MafHeader.from_defaults(...); else the pragma lines of a reader: MafHeader.from_reader(reader, ...);
    fai: contig names written as the first column of a scratch FASTA index handed over as fasta_index=path"""
    ensure_repo()
    import os
    import shutil
    import tempfile
    from maflib.header import MafHeader
    from maflib.reader import MafReader
    from maflib.scheme_factory import find_scheme
    out = {}
    work = None
    try:
        if fai is not None:
            os.makedirs("/verif/work", exist_ok=True)
            work = tempfile.mkdtemp(prefix="rdf_", dir="/verif/work")
            path = os.path.join(work, "ref.fa.fai")
            with open(path, "w") as fh:
                for i, name in enumerate(fai):
                    fh.write("%s\t%d\t%d\t60\t61\n" % (name, 1000 + i, 7 * i))
        so_obj = _so_obj(so)
        if fai is not None and so is not None and so[0] == "inst" and so[1] in ("Coordinate", "BarcodesAndCoordinate") and not so[2]:
            pass
        kw = dict(version=version, annotation=annotation, sort_order=so_obj,
                  contigs=(list(contigs) if contigs is not None else None))
        if fai is not None:
            kw["fasta_index"] = path
        if src is None and version and annotation and so is None and not contigs and fai is None:
            try:
                sch = find_scheme(version=version, annotation=annotation)
            except Exception:  # noqa
                sch = None
            if sch is not None:
                out["_scheme_lines"] = MafHeader.scheme_header_lines(sch)
        return _derive_args_run(src, kw, out)
    finally:
        if work is not None:
            shutil.rmtree(work, ignore_errors=True)


def _derive_args_run(src, kw, out):
    from maflib.header import MafHeader
    from maflib.reader import MafReader
    try:
        if src is None:
            h = MafHeader.from_defaults(**kw)
        else:
            rd = MafReader(lines=list(src) + ["c1\tc2"], validation_stringency=py_mode("Silent"))
            before = str(rd.header())
            out["_src_before"] = before.split("\n") if before else []
            try:
                h = MafHeader.from_reader(rd, **kw)
            finally:
                after = str(rd.header())
                out["_src_after"] = after.split("\n") if after else []
        out["res"] = ["ok", c_header(h)]
    except Exception as e:  # noqa
        out["res"] = ["exc", c_exn(e)]
    return out


def wire_derive_args(src, version, annotation, so, contigs, fai=None):
    ensure_repo()
    if fai is not None:
        contigs = list(fai)         # fasta_index=path must behave as contigs=[first column of each line]
    reg = [[S(v), S(a), B(nr), ([[]] if nr else [])] for (v, a, nr, _) in registry()]
    if so is None:
        sw = []
    elif so[0] == "name":
        sw = [[0, S(so[1])]]
    else:
        own = list(so[2]) if (so[2] and so[1] in ("Coordinate", "BarcodesAndCoordinate")) else []
        sw = [[1, S(so[1]), [S(c) for c in own]]]
    return [8, OPT(src, lambda ls: [S(l) for l in ls]), reg, OPT(version, S), OPT(annotation, S), sw,
            OPT(contigs, lambda cs: [S(c) for c in cs])]


def dec_derive_args(sx):
    return {"res": d_res(sx, d_header)}


# ------------------------------------------------------------------ steering: which source functions changed
FOCUS = {"files": set(), "functions": set()}


def set_focus(changed):
    """changed: ["header.py:MafHeader.validate", ...] (functions whose AST differs from the pinned tree)"""
    for c in changed or []:
        f, _, fn = c.partition(":")
        FOCUS["files"].add(f)
        FOCUS["functions"].add(fn)


def focused(*files):
    return any(f in FOCUS["files"] for f in files)


def focused_fn(*fragments):
    return any(any(fr in fn for fr in fragments) for fn in FOCUS["functions"])


# ------------------------------------------------------------------ the header's own report while a reader works (C13)
def impl_reader_header_report(lines, override=None):
    """MafReader(lines, Silent): reader.header().validation_errors right after opening, after all records were
    read, and the report of a header derived with from_reader afterwards"""
    ensure_repo()
    from maflib.header import MafHeader
    from maflib.reader import MafReader
    rd = MafReader(lines=list(lines), validation_stringency=py_mode("Silent"), scheme=make_scheme(override))
    out = {"opened": c_errs(rd.header().validation_errors), "reader_opened": c_errs(rd.validation_errors)}
    n = 0
    try:
        if len(lines) % 2:
            while True:             # the reader's own next(): no order enforcement, same parsing
                try:
                    rd.next()
                except StopIteration:
                    break
                n += 1
        else:
            for _ in rd:
                n += 1
    except Exception as e:  # noqa
        out["_end"] = c_exn(e)
    out["_count"] = n
    out["read"] = c_errs(rd.header().validation_errors)
    # read through the reader's own next() nothing enforces the declared order, so the reader's list can be longer
    # than the model's (which iterates with enforcement): compared only on the `for` path
    out["reader_read" if len(lines) % 2 == 0 else "_reader_read"] = c_errs(rd.validation_errors)
    out["derived"] = c_errs(MafHeader.from_reader(rd).validation_errors)
    hl = []
    for l in lines:
        l2 = l.rstrip("\r\n")
        if not l2.startswith("#"):
            break
        hl.append(l2)
    out["_fresh"] = c_errs(MafHeader.from_lines(hl, validation_stringency=py_mode("Silent")).validation_errors)
    return out


# ------------------------------------------------------------------ a reader whose stringency is switched mid-way (C17)
def impl_reader_switch(lines, override, k):
    """open Silent, read k records, set reader.validation_stringency = Strict, keep reading: per step the record's
    errors or the exception"""
    ensure_repo()
    from maflib.reader import MafReader
    from maflib.validation import ValidationStringency
    try:
        rd = MafReader(lines=list(lines), validation_stringency=py_mode("Silent"), scheme=make_scheme(override))
    except Exception as e:  # noqa
        return {"init": c_exn(e), "steps": []}
    it = iter(rd)
    steps = []
    for j in range(len(lines) + 2):
        if j == k:
            rd.validation_stringency = ValidationStringency.Strict
        try:
            r = next(it)
            steps.append(["rec", c_errs(r.validation_errors)])
        except StopIteration:
            break
        except Exception as e:  # noqa
            steps.append(["exc", c_exn(e)])
            break
    return {"init": None, "steps": steps}


LINEBREAK_LIKE = ["\x0b", "\x0c", "\x1c", "\x1d", "\x1e", "\x85", "\u2028", "\u2029"]


def linebreak_like_cases():
    """files whose fields contain characters str.splitlines() breaks at but file iteration does not"""
    out = []
    for i, ch in enumerate(LINEBREAK_LIKE):
        for hl in ([], ["#version v1"]):
            for data in (["1\t2" + ch + "3", "4\t5"], ["1" + ch + "\t2", "3" + ch, ch + "4\t5"], [ch, "1\t2"]):
                out.append({"lines": hl + ["a\tb"] + data, "override": None,
                            "shape": {"stream": "linebreak-like", "H": len(hl), "col": True, "data": len(data),
                                      "flavour": "plain", "order": None, "contigs": False, "defect": "data-ctrl"}})
        out.append({"lines": ["#k v" + ch + "w", "#j" + ch + " x", "a" + ch + "\tb", "1\t2"], "override": None,
                    "shape": {"stream": "linebreak-like", "H": 2, "col": True, "data": 1, "flavour": "plain",
                              "order": None, "contigs": False, "defect": "hdr-ctrl"}})
    return out


def order_special_cases():
    """contig lists without an accepted coordinate-type order; BarcodesAndCoordinate files that lack a barcode and
    are out of order; a caller-supplied scheme of another version together with a header defect"""
    out = []

    def shape(defect, order=None, contigs=False):
        return {"stream": "order-special", "H": 0, "col": True, "data": 2, "flavour": "plain", "order": order,
                "contigs": contigs, "defect": defect}

    cols = "Chromosome\tStart_Position\tEnd_Position"
    rows = ["chr1\t5\t5", "chr1\t3\t3"]
    for hl in (["#contigs chr1,chr2"], ["#contigs chr1,chr2", "#sort.order Unsorted"], ["#sort.order Unknown", "#contigs chr1"],
               ["#contigs chr1", "#sort.order bogus"], ["#sort.order bogus", "#contigs chr1,chr2", "#version v1"],
               ["#version gdc-1.0.0", "#contigs 1,2"]):
        for tail in ([], [cols] + rows):
            out.append({"lines": hl + tail, "override": None, "shape": shape("contigs-without-order", None, True)})
    for names, rws in (
            (["Chromosome", "Start_Position", "End_Position"], ["chr1\t5\t5", "chr1\t3\t3"]),
            (["Tumor_Sample_Barcode", "Chromosome", "Start_Position", "End_Position"], ["T2\tchr1\t5\t5", "T1\tchr1\t3\t3"]),
            (["Matched_Norm_Sample_Barcode", "Chromosome", "Start_Position", "End_Position"], ["N1\tchr2\t5\t5", "N1\tchr1\t3\t3"]),
            (["Tumor_Sample_Barcode", "Matched_Norm_Sample_Barcode", "Chromosome", "Start_Position", "End_Position"],
             ["T1\tN2\tchr1\t5\t5", "T1\tN1\tchr1\t9\t9", "T1"])):
        for hl in (["#sort.order BarcodesAndCoordinate"], ["#sort.order BarcodesAndCoordinate", "#contigs chr1,chr2"]):
            out.append({"lines": hl + ["\t".join(names)] + rws, "override": None,
                        "shape": shape("order-break", "BarcodesAndCoordinate", len(hl) > 1)})
    for hl in (["#version gdc-1.0.0", "#k"], ["#nosep", "#version gdc-1.0.0"], ["#version gdc-1.0.0", "#version gdc-1.0.0"],
               ["#version gdc-1.0.0", "# v", "#sort.order bogus"]):
        for ov in (["norestr", ["a", "b"]], ["norestr", []]):
            for tail in ([], ["a\tb", "1\t2"], ["a", "1"]):
                out.append({"lines": hl + tail, "override": ov, "shape": shape("override+hdr", None, False)})
    return out


def many_error_cases():
    """more than a hundred errors collected in one call"""
    sch = builtin_scheme("gdc-1.0.0-public")
    names = sch.column_names()
    out = [{"kind": "header", "lines": ["#"] * 101},
           {"kind": "header", "lines": ["#k%d" % i for i in range(60)] + ["#"] * 45 + ["#k v"] * 70},
           {"kind": "reader", "lines": ["#version gdc-1.0.0", "#annotation.spec gdc-1.0.0-public", "\t".join(reversed(names))],
            "override": None},
           {"kind": "reader", "lines": ["#version gdc-1.0.0", "#annotation.spec gdc-1.0.0-public",
                                        "\t".join("x" + n for n in names), "\t".join("%" for _ in names)], "override": None}]
    return out
