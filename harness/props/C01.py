"""C01 - Validation accepts exactly the lines that conform to the scheme."""
import json
import os
import sys

sys.path.insert(0, os.path.dirname(os.path.dirname(os.path.abspath(__file__))))
import colhost as H
import colspec as SP
import colgen as G
from sexp import S, U, OPT

PID = "C01"
CLUSTER = "Columns"
PROPS = "props/C01.v"
N_QUICK = 2600
N_THOROUGH = 40000
RULE = ("field cases: (column class, text) over every class of column_types.py and the RequireNullValue mixins, texts from four "
        "streams (valid-by-spec, boundary list, single-character defect, adversarial incl. control/non-ASCII); line cases: "
        "whole lines under each of the 14 real layouts (all-valid, one field perturbed at a random position incl. first/last, "
        "field count +-1, empty trailing fields), three modes; non-trivial = the case is not in the model's don't-care zone and "
        "either is accepted with a typed value or rejected with an attributed error; distinct by hash")
ASSUMPTIONS = ["float(text) and uuid.UUID(text) are host oracles (tables supplied per case; laws: repr round-trips, no separator characters)",
               "fields containing non-ASCII characters in numeric / case-folded columns are don't-care (host parser leniency), excluded from equality",
               "a line does not contain CR/LF except as its terminator"]
LEVEL_TEXT = ("Coq theorems: every pinned documented layout is what the regenerated scheme definitions build (names, order, per-position "
              "documented domain, via C3 MRO over the regenerated class table); per-domain lemmas for all texts: Accept => parsed valid with "
              "the denoted value, Reject => reported against the column and not exposed; record-level lifting over RecordOps. Tied to /repo "
              "by the translator (tables regenerated each run) and the extraction-based correspondence on fields and whole lines.")


def generate(rng, n):
    return G.gen_cases(rng, n, modes=True)


def corpus():
    return G.corpus_cases()


def skip_compare(case):
    return G.model_dontcare(case)


def shrink(case):
    return G.shrink(case)


def to_model(case):
    return G.to_model(case)


def from_model(case, sx):
    return G.from_model(case, sx)


def run_impl(case):
    return G.run_impl(case)


def comparable(obs):
    return obs["cmp"]


def oracle(case, obs):
    return G.oracle_c01(case, obs)


def signature(case, violation):
    return violation.split(" | ")[0]


def classify(case, obs):
    return G.classify(case, obs)


def nontrivial(case, obs):
    return not G.model_dontcare(case)


def focus(changed):
    G.set_focus(changed)
