"""C01 - Validation accepts exactly the lines that conform to the scheme."""
import json
import os
import sys

sys.path.insert(0, os.path.dirname(os.path.dirname(os.path.abspath(__file__))))
import colhost as H
import colspec as SP
import colgen as G
from sexp import S, U, OPT

PID = "C01"
CLUSTER = "Columns"
PROPS = "props/C01.v"
N_QUICK = 2600
N_THOROUGH = 40000
RULE = ("field cases: (column class, text) over every class of column_types.py and the RequireNullValue mixins, texts from four "
        "streams (valid-by-spec, boundary list, single-character defect, adversarial incl. control/non-ASCII); line cases: "
        "whole lines under each of the 14 real layouts (all-valid, one field perturbed at a random position incl. first/last, "
        "field count +-1, empty trailing fields), three modes; non-trivial = the case is not in the model's don't-care zone and "
        "either is accepted with a typed value or rejected with an attributed error; distinct by hash")
ASSUMPTIONS = ["float(text) and uuid.UUID(text) are host oracles (tables supplied per case; laws: repr round-trips, no separator characters)",
               "fields containing non-ASCII characters in numeric / case-folded columns are don't-care (host parser leniency), excluded from equality",
               "a line does not contain CR/LF except as its terminator"]
LEVEL_TEXT = ("Coq theorems: every pinned documented layout is what the regenerated scheme definitions build (names, order, per-position "
              "documented domain, via C3 MRO over the regenerated class table); per-domain lemmas for all texts: Accept => parsed valid with "
              "the denoted value, Reject => reported against the column and not exposed; record-level lifting over RecordOps. Tied to /repo "
              "by the translator (tables regenerated each run) and the extraction-based correspondence on fields and whole lines.")


XPAIRS = [("gdc-1.0.0-aliquot-merged", "gdc-1.0.0-aliquot-merged-masked"), ("gdc-2.0.0-aliquot-merged", "gdc-2.0.0-aliquot-merged-masked"),
          ("gdc-1.0.0-aliquot-merged-masked", "gdc-1.0.0-aliquot-merged"), ("gdc-2.0.0-aliquot-merged-masked", "gdc-2.0.0-aliquot-merged")]


def _gen_xval(rng):
    """a line accepted under one layout, the record then validated against a sibling layout with the same column names
    (record.validate(scheme=...)): it must be accepted there exactly when the line conforms to THAT layout, although every
    column object carries the class of the layout it was parsed under"""
    a, b = rng.choice(XPAIRS)
    cols = SP.layout(a)["columns"]
    fields = [G.valid_text(rng, d).replace("\t", " ").replace("\n", " ").replace("\r", " ") for _, d in cols]
    return {"kind": "xval", "annot": a, "against": b, "fields": fields, "mode": rng.choice([1, 2, 3]), "stream": "cross-validate", "hit": [0]}


def _run_xval(case):
    from maflib.record import MafRecord
    from maflib.validation import ValidationStringency, MafFormatException
    sa, sb = G._scheme_for(case["annot"]), G._scheme_for(case["against"])
    names = sb.column_names()
    out = {"parsed": None, "raised": None, "errors": None}
    try:
        rec = MafRecord.from_line("\t".join(case["fields"]), scheme=sa, validation_stringency=ValidationStringency.Silent)
        out["parsed"] = len(rec.validation_errors) == 0 and len(rec) == len(names)
        try:
            errs = rec.validate(validation_stringency=getattr(ValidationStringency, G.MODES[case["mode"]]), scheme=sb, reset_errors=True)
            out["errors"] = H.enc_errors(errs, names)
        except MafFormatException as e:
            out["raised"] = ["MafFormatException", e.tpe.name]
    except Exception as e:
        out["raised"] = [type(e).__name__, str(e)[:100]]
    return {"cmp": {"xval": True}, "extra": out}


def _oracle_xval(case, obs):
    ex = obs["extra"]
    if not ex["parsed"]:
        return []
    cols_b = SP.layout(case["against"])["columns"]
    bad = [n for (n, d), t in zip(cols_b, case["fields"]) if SP.zone(d, t)[0] == "reject"]
    dc = [n for (n, d), t in zip(cols_b, case["fields"]) if SP.zone(d, t)[0] == "dontcare"]
    out = []
    rejected = ex["raised"] is not None or bool(ex["errors"])
    if ex["raised"] is not None and ex["raised"][0] != "MafFormatException":
        out.append("revalidation-raised-other-exception | %s" % ex["raised"])
    if bad and not rejected:
        out.append("record-not-conforming-to-the-scheme-validates-against-it | columns %s of %s" % (bad[:3], case["against"]))
    if bad and case["mode"] == 1 and ex["raised"] is None:
        out.append("strict-revalidation-did-not-raise | columns %s" % bad[:3])
    if case["mode"] != 1 and ex["raised"] is not None:
        out.append("non-strict-revalidation-raised | %s" % ex["raised"])
    if not bad and not dc and rejected:
        out.append("conforming-record-rejected-on-revalidation | %s %s" % (ex["raised"], (ex["errors"] or [])[:2]))
    if ex["errors"]:
        for n in bad:
            if not any(e[2] == n for e in ex["errors"]):
                out.append("non-conforming-column-not-reported-on-revalidation | %s" % n)
    return out


def generate(rng, n):
    k = max(1, n // 60)
    return G.gen_cases(rng, n - k, modes=True) + [_gen_xval(rng) for _ in range(k)]


def corpus():
    return G.corpus_cases()


def skip_compare(case):
    return case["kind"] == "xval" or G.model_dontcare(case)


def shrink(case):
    return iter(()) if case["kind"] == "xval" else G.shrink(case)


def to_model(case):
    return [4] if case["kind"] == "xval" else G.to_model(case)


def from_model(case, sx):
    return {"xval": True} if case["kind"] == "xval" else G.from_model(case, sx)


def run_impl(case):
    return _run_xval(case) if case["kind"] == "xval" else G.run_impl(case)


def comparable(obs):
    return obs["cmp"]


def oracle(case, obs):
    return _oracle_xval(case, obs) if case["kind"] == "xval" else G.oracle_c01(case, obs)


def signature(case, violation):
    return violation.split(" | ")[0]


def classify(case, obs):
    if case["kind"] == "xval":
        return "xval/%s->%s/mode=%s" % (case["annot"], case["against"], G.MODES[case["mode"]])
    return G.classify(case, obs)


def nontrivial(case, obs):
    return case["kind"] == "xval" or not G.model_dontcare(case)


def focus(changed):
    G.set_focus(changed)
