"""C16 - Reading arbitrary text terminates and fails only in documented ways.

A case is a whole file as a list of lines plus a validation mode and an
optional overriding scheme; the implementation side opens MafReader on the
lines - or, for two fifths of the files that can be stored, MafReader.reader_from
on a plain or .gz scratch file under /verif/work - and iterates it to the end
through the public API.  Oracle (on the real
library, independent of the model): the iteration ends; it yields one record
per line after the column-name line; the only exceptions are
MafFormatException (Strict only) and ValueError (only when the header declares
BarcodesAndCoordinate or Coordinate)."""
import rd_common as R

PID = "C16"
CLUSTER = "Reader"
PROPS = "props/C16.v"
N_QUICK = 2300
N_THOROUGH = 24000
RULE = ("whole files as line lists: 0-4 pragma lines (no/unknown/basic gdc-1.0.0/annotated built-in scheme, optional "
        "sort.order of each kind, optional contigs), column line present/absent/last, 0-5 data lines; streams valid "
        "(by construction from texts the real column classes accept, sorted), single-defect (bad/duplicate pragma, "
        "dropped/renamed/duplicated column name, wrong field count, invalid field, blank line, pragma among data, "
        "control/non-ASCII characters, CRLF, overriding scheme, order break, chromosome missing from contigs), boundary "
        "(every H in 0..4 x 9 tails, empty input), typed-special (gdc-1.0.0 files with %/brace/backslash/quote texts in "
        "columns whose class rejects them, and zero-like texts 0/00/-0/empty in Chromosome/Start/End under every sort "
        "order with contig lists containing 0), order-special (contig lists without an accepted coordinate order, "
        "BarcodesAndCoordinate files lacking a barcode and out of order, a caller-supplied scheme plus header defects), "
        "linebreak-like (\\x0b \\x0c \\x1c-\\x1e \\x85 U+2028 U+2029 inside fields and pragmas), adversarial (1-4 defects combined); each under Strict/Lenient/Silent/"
        "default; non-trivial: at least one data line was reached or an exception was raised; distinct by hash of "
        "(lines, mode, override)")
ASSUMPTIONS = [
    "hypothesis of the theorems: every scheme (registry entry or override) has distinct column names - schemes keep "
    "their columns in a dict; checked on the imported registry each run (generated obligation)",
    "typed column classes (built-in schemes) are represented in the extracted run by an oracle table obtained from the "
    "real classes for exactly the (class, field text) pairs of the case: build ok/failed, custom validation objects, "
    "str(column), str/int of the value; the Coq theorems hold for every total column semantics",
    "int(text) for untyped coordinate columns comes from a per-case table computed by the host",
    "the scheme registry (version, annotation, columns of reachable schemes) is read from all_schemes() of the imported library",
    "sort-key construction and comparison are total except ValueError for a chromosome missing from the contig list "
    "(property C08); the extracted run uses a concrete key mirroring sort_order.py for which this is proved",
    "lines are str objects without lone surrogates; the iterable handed to MafReader is a list",
]

SORTABLE = ("Coordinate", "BarcodesAndCoordinate")


def split_file(lines):
    """independent of the library: (header lines, column line or None, data lines)"""
    i = 0
    while i < len(lines) and lines[i].rstrip("\r\n").startswith("#"):
        i += 1
    if i == len(lines):
        return lines[:i], None, []
    return lines[:i], lines[i], lines[i + 1:]


def declared_order(header_lines):
    """the sort order the first well-formed sort.order pragma declares"""
    for l in header_lines:
        l = l.rstrip("\r\n")
        if l.startswith("#sort.order "):
            v = l[len("#sort.order "):].rstrip()
            if v in R.SORT_NAMES:
                return v
            # an unrecognised value is a malformed line, a later one may still count
    return None


def EXTRA_OBLIGATIONS(ctx):
    return [R.schemes_wf_obligation()]


def corpus():
    return [
        # declared order + a line that does not parse (KeyError before the repair)
        {"lines": ["#version gdc-1.0.0", "#sort.order Coordinate", "Chromosome\tStart_Position\tEnd_Position",
                   "chr1\t5\t5", "chr1\t3"], "mode": "Silent", "override": None,
         "shape": {"stream": "corpus", "order": "Coordinate"}},
        {"lines": ["#sort.order Coordinate", "Chromosome\tStart_Position\tEnd_Position", "chr1\t5", "chr1\t3\t3",
                   "chr1\t1\t1"], "mode": "Silent", "override": None,
         "shape": {"stream": "corpus", "order": "Coordinate"}},
        {"lines": ["#sort.order BarcodesAndCoordinate", "a\tb", "1\t2", "3\t4"], "mode": "Lenient", "override": None,
         "shape": {"stream": "corpus", "order": "BarcodesAndCoordinate"}},
        # the no-restrictions pair named in the header (TypeError before the repair)
        {"lines": ["#version no-version", "#annotation.spec no-annotation-specification", "a\tb", "1\t2"],
         "mode": "Silent", "override": None, "shape": {"stream": "corpus", "order": None}},
        {"lines": ["#annotation.spec no-annotation-specification", "a", "1"], "mode": "Lenient", "override": None,
         "shape": {"stream": "corpus", "order": None}},
        # typed chromosome 1 vs X under a declared order (TypeError before the key repair)
        {"lines": ["#sort.order Coordinate", "Chromosome\tStart_Position\tEnd_Position", "1\t5\t5", "X\tx\t7", "\t\t"],
         "mode": "Silent", "override": None, "shape": {"stream": "corpus", "order": "Coordinate"}},
    ]


def focus(changed):
    R.set_focus(changed)


def generate(rng, n):
    out = []
    for c in R.reader_boundary_cases():
        for m in R.MODES:
            out.append(dict(c, mode=m))
    for k, c in enumerate(R.typed_special_cases() + R.order_special_cases() + R.linebreak_like_cases()):
        out.append(dict(c, mode=R.MODES[k % 3]))
    while len(out) < n:
        streams = ["valid", "defect", "defect", "adversarial", "adversarial", "boundary"]
        if R.focused("reader.py", "record.py", "column.py"):
            streams += ["defect", "adversarial", "adversarial"]      # malformed lines, column-line defects
        if R.focused("sort_order.py"):
            streams += ["valid", "valid", "defect"]                  # ordered files (gen_reader_case declares orders more often)
        stream = rng.choice(streams)
        c = R.gen_reader_case(rng, stream)
        c["mode"] = rng.choice(["Strict", "Lenient", "Silent", "Silent", None])
        out.append(c)
    out = out[:max(n, 1)]
    # two fifths of the files that can be stored are read from disk (plain / .gz) through MafReader.reader_from
    for k, c in enumerate(out):
        ch = "lines"
        if R.file_safe(c["lines"]) and c.get("override") is None and k % 5 in (1, 3):
            ch = "path" if k % 5 == 1 else "gz"
        if c["shape"].get("stream") == "linebreak-like":
            ch = ("path", "gz", "lines")[k % 3]
        c["channel"] = ch
    return out


def shrink(case):
    yield from R.shrink_lines(case)
    if case.get("override") is not None:
        yield dict(case, override=None)


def to_model(case):
    return R.wire_reader(case["lines"], case["mode"], case["override"])


def run_impl(case):
    ch = case.get("channel", "lines")
    if ch != "lines" and not (R.file_safe(case["lines"]) and case.get("override") is None):
        ch = "lines"
    return R.impl_reader(case["lines"], case["mode"], case["override"], ch)


def from_model(case, sx):
    return R.dec_reader(sx)


def oracle(case, obs):
    out = []
    hl, col, data = split_file(case["lines"])
    order = declared_order(hl)
    end = obs["end"]
    mode = case["mode"] or "Silent"
    if end is not None:
        name = end[0]
        if name == "DidNotTerminate":
            out.append("did-not-terminate")
        elif name == "MafFormatException":
            if mode != "Strict":
                out.append("format-exception-in-%s-mode" % mode)
        elif name == "ValueError":
            if order not in SORTABLE:
                out.append("ValueError-without-declared-order")
            elif obs["init"][0] != "ok":
                out.append("ValueError-while-opening")
        else:
            out.append("undocumented-exception-%s" % name)
    else:
        if len(obs["recs"]) != len(data):
            out.append("record-count %d for %d data lines" % (len(obs["recs"]), len(data)))
    return out


def signature(case, violation):
    return violation.split(" ")[0]


def classify(case, obs):
    sh = case.get("shape", {})
    if obs is None:
        return "%s/error" % sh.get("stream")
    end = obs["end"][0] if obs["end"] else "end-of-input"
    return "%s/%s/%s/%s/%s" % (case.get("channel", "lines"), sh.get("stream"), case["mode"], "order" if sh.get("order") in SORTABLE else "no-order", end)


def nontrivial(case, obs):
    return bool(obs["recs"]) or obs["end"] is not None
