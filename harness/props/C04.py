"""C04 - Rendering a parsed record is a canonical fixpoint that preserves its values."""
import os
import sys

sys.path.insert(0, os.path.dirname(os.path.dirname(os.path.abspath(__file__))))
import colgen as G
import colgen04 as G4

PID = "C04"
CLUSTER = "Columns"
PROPS = "props/C04.v"
N_QUICK = 2600
N_THOROUGH = 40000
RULE = ("field cases: (column class, text) over every class of column_types.py (+ MafColumnRecord, the RequireNullValue mixins); texts mostly "
        "ACCEPTED spellings: aliases by enum member name, case variants under the capitalising columns, non-canonical numerals (sign, leading "
        "zeros, underscores, blanks), UUID spellings (braces, urn:, upper case, undashed), float spellings (exponents, inf/nan, 17-digit), list "
        "encodings incl. ';'-only and empty/Null pieces; plus boundary, single-defect and adversarial texts; line cases: whole lines under each of "
        "the 14 real layouts with such spellings in every field, Strict mode, 60% also through MafSorterCodec.encode/decode (with scheme, with "
        "column names only, bare); non-trivial = accepted and inside the modelled zone; distinct by hash")
ASSUMPTIONS = ["float(text) and uuid.UUID(text) are host oracles; the laws the theorems assume (repr/str round-trips, '' is rejected, every int "
               "literal is a float literal, no separator characters in repr) are checked on every text of every case (host-oracle-law-broken)",
               "fields containing non-ASCII characters in numeric / case-folded columns are don't-care for the model comparison (the oracle still applies)",
               "a line does not contain CR/LF except as its terminator",
               "known finding: SequenceOfNullableYesOrNo one-element list [Null] renders '' which reads back as [] (C04_seq_nullable_refuted)"]
LEVEL_TEXT = ("Coq theorems: field level for every resolved class shape and all texts (accepted => rendering exists, is separator-free, is accepted "
              "with the same value, renders to itself, null => preferred spelling); every column of the 14 built layouts is such a class (sweep); "
              "line level: Strict-accepted line => rendered line is accepted as the identical record.  Tied to /repo by regenerated tables and the "
              "extraction-based correspondence on fields and lines; the oracle re-parses every rendering on the real library.")


def generate(rng, n):
    return G4.gen_cases(rng, n)


def corpus():
    return G4.corpus_cases()


skip_compare = G.model_dontcare
to_model = G.to_model
from_model = G.from_model
run_impl = G4.run_impl
oracle = G4.oracle
classify = G4.classify
nontrivial = G4.nontrivial


def shrink(case):
    for c in G.shrink(case):
        yield c
    if case["kind"] == "line" and case.get("codec"):
        yield dict(case, codec=False)


def comparable(obs):
    return obs["cmp"]


def signature(case, violation):
    return violation.split(" | ")[0]


def focus(changed):
    G.set_focus(changed)
