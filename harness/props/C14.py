"""C14 - Scheme resolution and inheritance produce a unique, order-independent layout.

A case is a set of scheme definition files plus a list of runs; a run loads the
files in one order through the public functions of maflib.scheme_factory
(`load_all_scheme_data` + `build_schemes` + `validate_schemes`, or
`load_all_schemes(extra_filenames=...)`).  The files are written under
/verif/work/<unique>/ and removed afterwards.  Observable per run: the resolved
layouts (annotation -> version, [(column name, class term, description token)])
or the exception class.  A class term is a class of column_types.py by name or
the pair (extra, base) of the bases of a class synthesised by extend_class.
"""
import hashlib
import itertools
import json
import os
import pathlib
import shutil
import tempfile

from sexp import S, U

PID = "C14"
CLUSTER = "Schemes"
PROPS = "props/C14.v"
N_QUICK = 420
N_THOROUGH = 6000
RULE = ("definition sets: generated inheritance forests (1-7 definitions, depth <= 4) with overrides, filters "
        "(also in roots), new columns, 'None'/null/[] spellings; streams valid / single-defect (unknown base, "
        "cycle, self-cycle, unknown type, missing filtered column in root or derived, duplicate annotation with "
        "same or other version, bad column entry, bad JSON, missing file, missing key) / boundary (empty set, "
        "empty columns, everything filtered, extends \"\", depth-4 chain, 5 definitions in all 120 orders) / "
        "adversarial (duplicate column names, C3-inconsistent overrides, double override) / shipped (the 14 "
        "shipped files in shuffled orders, load_all_schemes with extras extending built-ins); every set is "
        "loaded in every order when it has <= 4 definitions (<= 5 in the boundary stream), else in 8 sampled "
        "orders; stream resolve (8%): extras sorting before/after the basic scheme of their version, versions without a "
        "basic scheme, registered in a fresh interpreter, then lookups by version alone / annotation alone / pair through "
        "find_scheme_class, find_scheme and MafHeader.scheme(); a case is non-trivial when at least two orders were run and either a derived definition was "
        "resolved or an error was raised; distinct by hash of files+runs")
ASSUMPTIONS = [
    "version/annotation strings follow the documented patterns gdc-N.N.N / gdc-N.N.N-word or do not start with 'gdc-' "
    "(int() of other numerals and list.sort's comparison sequence on keys of mixed shape are outside the model)",
    "JSON values have the documented types: strings for version/annotation-spec/extends, arrays of strings for column "
    "entries, 'None'/null/array of strings for filtered",
    "the files do not change while they are being loaded",
]
TRUSTED_EXTRA = ["the class table (names of get_column_types(), direct bases of every class in their MROs) is read from "
                 "the imported library by the harness and handed to the model's C3 linearisation"]

WORK = "/verif/work"
EXCODE = {1: "KeyError", 2: "ValueError", 3: "TypeError", 4: "IndexError", 5: "AssertionError",
          7: "FUEL", 8: "OSError", 9: "Exception"}
NOREST = ["no-version", "no-annotation-specification"]


def D(desc):
    """description token (keeps the wire small, same on both sides)"""
    return "" if desc == "" else hashlib.sha1(desc.encode("utf-8", "replace")).hexdigest()[:8]


def _repo():
    import fw
    return fw.REPO


# ------------------------------------------------------------ the world
_W = {}


def world_static():
    """names of get_column_types() and the class table, from the imported library"""
    if "w" not in _W:
        import fw
        fw._ensure_repo()
        from maflib.column_types import get_column_types
        ct = get_column_types()
        names = [n for n, _ in ct]
        table = {}
        for n, c in ct:
            assert n == c.__name__, (n, c)
            for k in c.__mro__:
                table[k.__name__] = [b.__name__ for b in k.__bases__]
        _W["w"] = (names, sorted(table.items()))
        # what a column type IS, by the harness's own rule (not get_column_types'): a class of
        # maflib.column_types that is a MafColumnRecord
        import inspect
        import maflib.column_types as CT
        from maflib.column import MafColumnRecord
        _W["types"] = sorted(n for n, o in vars(CT).items() if inspect.isclass(o) and issubclass(o, MafColumnRecord))
    return _W["w"]


def column_type_names():
    world_static()
    return _W["types"]


def builtin_files():
    """[(abstract name, parsed json)] of the shipped definitions in glob order"""
    if "b" not in _W:
        d = os.path.join(_repo(), "maflib", "schemas")
        out = []
        for p in pathlib.Path(d).glob("*json"):
            out.append(("@" + os.path.basename(str(p)), json.load(open(str(p)))))
        _W["b"] = out
    return _W["b"]


def real_path(wd, name):
    if name.startswith("@"):
        return os.path.join(_repo(), "maflib", "schemas", name[1:])
    if name.startswith("./"):          # another spelling of the same file
        return os.path.join(wd, ".", name[2:])
    return os.path.join(wd, name)


def write_files(wd, files):
    for name, spec in files.items():
        if name.startswith("@") or name.startswith("./"):
            continue
        if spec["kind"] == "missing":
            continue
        with open(os.path.join(wd, name), "w") as f:
            if spec["kind"] == "raw":
                f.write(spec["text"])
            else:
                json.dump(spec["data"], f)


def file_spec(files, name):
    if name.startswith("@"):
        for n, j in builtin_files():
            if n == name:
                return {"kind": "json", "data": j}
        return {"kind": "missing"}
    if name.startswith("./"):
        return files.get(name[2:], {"kind": "missing"})
    return files.get(name, {"kind": "missing"})


# ------------------------------------------------------------ model wire
def _jopt(x, f):
    if x == "None":
        return [0]
    if x is None:
        return [1]
    return [2, f(x)]


def _enc_col(c):
    out = [S(str(x)) for x in c]
    if len(out) == 3:
        out[2] = S(D(str(c[2])))
    return out


def enc_file(spec):
    if spec["kind"] == "missing":
        return [0]
    if spec["kind"] == "raw":
        return [1]
    j = spec["data"]
    jf = [S(j.get("version", "")), S(j.get("annotation-spec", "")),
          _jopt(j.get("extends", "None"), S),
          [_enc_col(c) for c in j.get("columns", [])],
          _jopt(j.get("filtered", "None"), lambda l: [S(x) for x in l])]
    if "columns" not in j:
        return [2, 1, jf]
    if any(k not in j for k in ("version", "annotation-spec", "extends", "filtered")):
        return [2, 0, jf]
    return [3, jf]


def enc_world(files, names, with_builtins):
    types, table = world_static()
    fs = []
    seen = set()
    for n in names:
        if n in seen:
            continue
        seen.add(n)
        fs.append([S(n), enc_file(file_spec(files, n))])
    b = []
    if with_builtins:
        for n, j in builtin_files():
            b.append(S(n))
            if n not in seen:
                seen.add(n)
                fs.append([S(n), enc_file({"kind": "json", "data": j})])
    return [[S(t) for t in types], [[S(k), [S(x) for x in v]] for k, v in table], fs, b]


QKIND = {"findcls": 1, "find": 2}


def to_model(case):
    if "resolve" in case:
        # a history on a fresh registry (the cluster's second request form): one registration, then lookups
        rs = case["resolve"]
        ops = []
        for k, v, a in rs.get("pre", []):
            ops.append([QKIND["find" if k == "hdr" else k], [] if v is None else [S(v)], [] if a is None else [S(a)]])
        ops.append([0, [S(n) for n in rs["extra"]]])
        for k, v, a in rs["queries"]:
            ops.append([QKIND["find" if k == "hdr" else k], [] if v is None else [S(v)], [] if a is None else [S(a)]])
        return [1, enc_world(case["files"], rs["extra"], True), [], ops]
    names = []
    for _, order in case["runs"]:
        names.extend(order)
    wb = any(m == "load_all" for m, _ in case["runs"])
    runs = [[0 if m == "build" else 1, [S(n) for n in order]] for m, order in case["runs"]]
    return [0, enc_world(case["files"], names, wb), runs]


def dec_cls(s):
    return ["s", U(s[1])] if s[0] == 0 else ["m", dec_cls(s[1]), dec_cls(s[2])]


def dec_layout(s):
    return [[U(n), dec_cls(c), U(d)] for n, c, d in s]


def dec_scheme(s):
    if s[0] == 0:
        return ["norestr"]
    return [U(s[1]), U(s[2]), dec_layout(s[3])]


def dec_exn(s):
    return EXCODE.get(s[0], str(s[0]))


def _dec_short(s):
    if s[0] == 0:
        return ["norestr"]
    return [U(s[1]), U(s[2])]


def from_model(case, sx):
    if "resolve" in case:
        table, steps = sx
        npre = len(case["resolve"].get("pre", []))
        (o0, _), rest = steps[npre], steps[:npre] + steps[npre + 1:]
        reg = {"exc": dec_exn(o0[1])} if o0[0] == 0 else {"ok": [_dec_short(x) for x in o0[1]]}
        ans = []
        for (k, v, a), (o, _) in zip(case["resolve"].get("pre", []) + case["resolve"]["queries"], rest):
            if o[0] == 0:
                r = {"exc": dec_exn(o[1])}
                if k == "hdr" and r["exc"] == "ValueError":
                    r = {"ok": None}           # MafHeader.scheme(): except ValueError: return None
            else:
                r = {"ok": _dec_short(o[1][0]) if o[1] else None}
            ans.append(r)
        return {"resolve": {"reg": reg, "pre": ans[:npre], "answers": ans[npre:]}}
    out = []
    for (mode, _), r in zip(case["runs"], sx):
        if r[0] == 0:
            out.append({"exc": dec_exn(r[1])})
        elif mode == "build":
            out.append({"ok": [[U(k), dec_scheme(v)] for k, v in r[1]]})
        else:
            out.append({"ok": [dec_scheme(v) for v in r[1]]})
    return {"runs": out}


# ------------------------------------------------------------ implementation
def excname(e):
    if isinstance(e, OSError):
        return "OSError"
    return type(e).__name__


def _term_of(c, known):
    n = known.get(id(c))
    if n is not None:
        return ["s", n]
    b = c.__bases__
    if len(b) != 2:
        return ["?", c.__name__]
    return ["m", _term_of(b[0], known), _term_of(b[1], known)]


def obs_scheme(cls, known):
    from maflib.schemes import NoRestrictionsScheme
    if cls is NoRestrictionsScheme:
        return ["norestr"]
    d = cls.__column_dict__()
    desc = cls.__column_desc__()
    return [cls.version(), cls.annotation_spec(), [[n, _term_of(c, known), D(str(desc[n]))] for n, c in d.items()]]


def _accessor_problems(cls):
    """the instance accessors agree with the class's column dict"""
    prob = []
    inst = cls()
    names = list(cls.__column_dict__().keys())
    if inst.column_names() != names:
        prob.append("accessor-column-names")
    if len(inst) != len(names):
        prob.append("accessor-len")
    for i, n in enumerate(names):
        if inst.column_index(n) != i:
            prob.append("accessor-column-index")
        if inst.column_class(n) is not cls.__column_dict__()[n]:
            prob.append("accessor-column-class")
    if inst.column_index("\x00no such column") is not None:
        prob.append("accessor-unknown-name")
    # descriptions: the definitions' descriptions (they are part of the compared layout), by name and in layout order
    desc = cls.__column_desc__()
    if list(desc.keys()) != names:
        prob.append("accessor-description-keys")
    for n in names:
        if inst.column_description(n) != desc[n]:
            prob.append("accessor-column-description")
    if inst.column_description("\x00no such column") is not None or inst.column_class("\x00no such column") is not None:
        prob.append("accessor-unknown-name")
    if inst.column_descriptions() != names:          # pinned by the library's tests: the described names, in layout order
        prob.append("accessor-column-descriptions")
    basic = cls.version() == cls.annotation_spec()
    if cls.is_basic() is not basic or inst.is_basic() is not basic:
        prob.append("accessor-is-basic")
    if str(inst) != cls.version():
        prob.append("accessor-str")
    import maflib.scheme_factory as sf
    cols = sf.scheme_to_columns(inst)
    if [(c.name, c.cls, c.desc) for c in cols] != [(n, cls.__column_dict__()[n], desc[n]) for n in names]:
        prob.append("accessor-scheme-to-columns")
    return sorted(set(prob))


def _base_api_problems():
    """the fixed parts of maflib.schemes / scheme_factory the factory's results rest on"""
    import maflib.scheme_factory as sf
    from collections import OrderedDict
    from maflib.column import MafColumnRecord
    from maflib.schemes import MafScheme, NoRestrictionsScheme
    prob = []
    if MafScheme.is_basic() is not False:
        prob.append("abstract-scheme-is-basic")
    T = type("T", (MafScheme,), {})
    T.version = classmethod(lambda c: "v1")
    T.annotation_spec = classmethod(lambda c: "v1-a")
    T.__column_dict__ = classmethod(lambda c: OrderedDict([("x", MafColumnRecord), ("y", MafColumnRecord)]))
    t = T()
    if t.column_names() != ["x", "y"] or t.column_description("y") != "No description for column 'y'" \
            or t.column_descriptions() != ["x", "y"] or t.is_basic() or str(t) != "v1" or len(t) != 2:
        prob.append("subclass-defaults")
    for f in (NoRestrictionsScheme.__column_dict__, NoRestrictionsScheme.__column_desc__):
        try:
            f()
            prob.append("no-restrictions-column-dict-callable")
        except ValueError:
            pass
    n = NoRestrictionsScheme(column_names=["a", "b"])
    if n.column_names() != ["a", "b"] or n.column_class("a") is not MafColumnRecord or n.column_index("b") != 1 \
            or n.column_description("a") != "" or n.column_descriptions() != ["a", "b"] or n.is_basic() \
            or str(n) != NOREST[0] or n.annotation_spec() != NOREST[1] or len(n) != 2:
        prob.append("no-restrictions-instance")
    fn = sf.get_built_in_filenames()
    if len(fn) != len(set(fn)) or not fn or not all(f.endswith("json") and os.path.isfile(f) for f in fn):
        prob.append("built-in-filenames")
    if sorted(os.path.basename(f) for f in fn) != sorted(n[1:] for n, _ in builtin_files()):
        prob.append("built-in-filenames-differ-from-schemas-directory")
    from maflib.column_types import get_column_types
    got = get_column_types()
    if [n for n, _ in got] != column_type_names() or any(not (isinstance(c, type) and issubclass(c, MafColumnRecord)) for _, c in got):
        prob.append("column-types-are-not-exactly-the-column-classes")
    return ["base-api-" + p for p in prob]


PROBE_TEXTS = ["", "5", "0", "abc", ".", "-", "Yes", "T", "None"]


def _rnv_problems(c):
    """a class synthesised with RequireNullValue in front accepts exactly null values"""
    from maflib.column import MafCustomColumnRecord
    # RequireNullValue works through MafCustomColumnRecord.validate; over a base that is
    # not a custom column nothing calls __validate__ (a finding of its own signature)
    tag = "" if issubclass(c, MafCustomColumnRecord) else "/base-is-not-a-custom-column"
    prob = []
    for t in PROBE_TEXTS:
        try:
            col = c.build("n", t)
            errs = col.validate()
            if col.is_null() and errs:
                prob.append(tag + " null-rejected:" + repr(t))
            if not col.is_null() and not errs:
                prob.append(tag + " nonnull-accepted:" + repr(t))
        except Exception:
            pass                                   # refused at build time: rejected
    return prob


CONJ_TEXTS = ["0", "", "-1", "abc", "1", "5", "0.5", ".", "Yes", "T", "ACGT", "-"]


def _accepts(c, t):
    try:
        return not c.build("n", t).validate()
    except Exception:
        return False


def _conj_problems(c):
    """does the synthesised class accept a text that its base (inherited constraint) or its
    extra class (added constraint) rejects?  (method override is not conjunction)"""
    e, b = c.__bases__
    inh = [t for t in CONJ_TEXTS if _accepts(c, t) and not _accepts(b, t)]
    add = [t for t in CONJ_TEXTS if _accepts(c, t) and not _accepts(e, t)]
    if not inh and not add:
        return []
    return ["override-not-conjunctive/%s<-%s accepted although the base rejects: %s; accepted although the extra class rejects: %s"
            % (b.__name__, e.__name__, inh, add)]


def _real(term, byname):
    if term[0] == "s":
        return byname[term[1]]
    e = _real(term[1], byname)
    b = _real(term[2], byname)
    return type(b.__name__, (e, b), {})


def _resolve_here(case):
    """runs in an interpreter of its own: register the extras, then look pairs up"""
    import maflib.scheme_factory as sf
    from maflib.schemes import NoRestrictionsScheme
    rs = case["resolve"]
    os.makedirs(WORK, exist_ok=True)
    wd = tempfile.mkdtemp(prefix="c14r_", dir=WORK)

    def short(s):
        c = s if isinstance(s, type) else type(s)
        return ["norestr"] if c is NoRestrictionsScheme else [c.version(), c.annotation_spec()]

    def ask(k, v, a):
        try:
            if k == "findcls":
                r = sf.find_scheme_class(version=v, annotation=a)
            elif k == "find":
                r = sf.find_scheme(version=v, annotation=a)
            else:
                from maflib.header import MafHeader
                lines = ([] if v is None else ["#version " + v]) + ([] if a is None else ["#annotation.spec " + a])
                r = MafHeader.from_lines(lines).scheme()
            return {"ok": None if r is None else short(r)}
        except Exception as e:
            return {"exc": excname(e)}

    try:
        write_files(wd, case["files"])
        pre = [ask(k, v, a) for k, v, a in rs.get("pre", [])]
        try:
            l = sf.all_schemes(extra_filenames=[real_path(wd, n) for n in rs["extra"]])
            reg = {"ok": [short(s) for s in l]}
        except Exception as e:
            reg = {"exc": excname(e)}
        ans = [ask(k, v, a) for k, v, a in rs["queries"]]
    finally:
        shutil.rmtree(wd, ignore_errors=True)
    return {"resolve": {"reg": reg, "pre": pre, "answers": ans}}


def _resolve_isolated(case):
    """the registry is process-global: resolution cases get a fresh interpreter"""
    import subprocess
    import fw
    code = ("import sys,json; sys.path.insert(0,%r); sys.path.insert(0,%r); sys.path.insert(0,%r);"
            "import logging; logging.disable(logging.CRITICAL); import C14;"
            "print('\\n@@R@@'+json.dumps(C14._resolve_here(json.loads(sys.stdin.read()))))"
            % (fw.VERIF + "/harness", fw.VERIF + "/harness/props", fw.REPO))
    env = dict(os.environ, PYTHONHASHSEED="0", PYTHONPATH=fw.REPO, VERIF_REPO=fw.REPO)
    p = subprocess.run([fw.PY, "-c", code], input=json.dumps(case), capture_output=True, text=True, env=env, timeout=300)
    for line in p.stdout.splitlines():
        if line.startswith("@@R@@"):
            return json.loads(line[5:])
    raise RuntimeError("resolution subprocess failed: " + (p.stderr or p.stdout)[-500:])


def run_impl(case):
    if "resolve" in case:
        return _resolve_isolated(case)
    import maflib.scheme_factory as sf
    from maflib.column_types import get_column_types, RequireNullValue
    from maflib.schemes import NoRestrictionsScheme

    ct = get_column_types()
    known = {id(c): n for n, c in ct}
    byname = {n: c for n, c in ct}
    os.makedirs(WORK, exist_ok=True)
    wd = tempfile.mkdtemp(prefix="c14_", dir=WORK)
    runs = []
    acc = set(_base_api_problems())
    rnv = set()
    rnv_seen = set()
    conj = set()
    try:
        write_files(wd, case["files"])
        for mode, order in case["runs"]:
            fn = [real_path(wd, n) for n in order]
            try:
                if mode == "build":
                    data = sf.load_all_scheme_data(fn, ct)
                    m = sf.build_schemes(data)
                    sf.validate_schemes(list(m.values()))
                    classes = list(m.values())
                    res = {"ok": [[k, obs_scheme(v, known)] for k, v in m.items()]}
                else:
                    classes = sf.load_all_schemes(extra_filenames=fn)
                    res = {"ok": [obs_scheme(s, known) for s in classes]}
                for s in classes:
                    if s is NoRestrictionsScheme:
                        continue
                    acc.update(_accessor_problems(s))
                    for n, c in s.__column_dict__().items():
                        if case.get("probe_conjunctive") and id(c) not in known:
                            conj.update(_conj_problems(c))
                        if id(c) not in known and c.__bases__[0] is RequireNullValue:
                            key = json.dumps(_term_of(c, known))
                            if key not in rnv_seen:
                                rnv_seen.add(key)
                                for p in _rnv_problems(c):
                                    rnv.add(p + " class=" + key)
            except Exception as e:
                res = {"exc": excname(e)}
            runs.append(res)
    finally:
        shutil.rmtree(wd, ignore_errors=True)
    # which synthesised classes of the expected layouts python can create
    typeok = {}
    done = set()
    for mode, order in case["runs"]:
        g = (mode, tuple(sorted(order)))
        if g in done:
            continue
        done.add(g)
        for t in spec_eval(case, mode, order)["terms"]:
            k = json.dumps(t)
            if k not in typeok:
                try:
                    _real(t, byname)
                    typeok[k] = True
                except TypeError:
                    typeok[k] = False
                except KeyError:
                    typeok[k] = True       # unknown type name: reported by the type check
    return {"runs": runs, "_typeok": typeok, "_acc": sorted(acc), "_rnv": sorted(rnv), "_conj": sorted(conj)}


def comparable(obs):
    if "resolve" in obs:
        return obs
    return {"runs": obs["runs"]}


def documented(s):
    import re
    return not s.startswith("gdc-") or re.fullmatch(r"gdc-[0-9]+\.[0-9]+\.[0-9]+(-.*)?", s) is not None


def skip_compare(case):
    if "resolve" in case:
        return any(sp["kind"] == "json" and not (documented(sp["data"].get("version", "")) and documented(sp["data"].get("annotation-spec", "")))
                   for sp in case["files"].values())
    return _skip_compare_runs(case)


def _skip_compare_runs(case):
    """load_all_schemes sorts by keys parsed from version/annotation; strings that start with
    gdc- but leave the documented patterns give keys of another shape (what list.sort then
    compares, and whether int() accepts the pieces, is outside the model - see ASSUMPTIONS)"""
    if not any(m == "load_all" for m, _ in case["runs"]):
        return False
    for sp in case["files"].values():
        if sp["kind"] == "json":
            for k in ("version", "annotation-spec"):
                v = sp["data"].get(k)
                if isinstance(v, str) and not documented(v):
                    return True
    return False


# ------------------------------------------------------------ the property, recomputed
def _defs_of(case, mode, order):
    """parsed definitions of a run in load order, or ('load-error', kind)"""
    names = list(order)
    if mode == "load_all":
        names = [n for n, _ in builtin_files()] + names
    types = set(column_type_names())
    defs = []
    for n in names:
        spec = file_spec(case["files"], n)
        if spec["kind"] == "missing":
            return None, "missing-file"
        if spec["kind"] == "raw":
            return None, "bad-json"
        j = spec["data"]
        if "columns" not in j:
            return None, "missing-key"
        for c in j["columns"]:
            if len(c) < 2 or len(c) > 3:
                return None, "bad-column-entry"
            if c[1] not in types:
                return None, "unknown-type"
        if any(k not in j for k in ("version", "annotation-spec", "extends", "filtered")):
            return None, "missing-key"
        ext = j["extends"]
        flt = j["filtered"]
        defs.append({"version": j["version"], "annot": j["annotation-spec"],
                     "extends": None if ext in ("None", None, "") else ext,
                     "columns": [[c[0], c[1], D(c[2]) if len(c) > 2 else ""] for c in j["columns"]],
                     "filtered": None if flt in ("None", None) else list(flt)})
    return defs, None


def spec_eval(case, mode, order):
    """what the property demands for this definition set (independent of the library)"""
    out = {"ill": [], "layouts": {}, "terms": [], "unclean": False, "versions": {}}
    defs, err = _defs_of(case, mode, order)
    if err:
        out["ill"].append(err)
        return out
    by = {}
    for d in defs:
        if d["annot"] in by:
            out["ill"].append("duplicate-annotation")
        by[d["annot"]] = d
        out["versions"][d["annot"]] = d["version"]
        names = [c[0] for c in d["columns"]]
        if len(set(names)) != len(names):
            out["unclean"] = True
    if mode == "load_all":
        for d in defs:
            if [d["version"], d["annot"]] == NOREST:
                out["ill"].append("duplicate-pair-with-no-restrictions")
    for d in defs:
        seen = set()
        cur = d
        while cur["extends"] is not None:
            if cur["annot"] in seen:
                out["ill"].append("cycle")
                break
            seen.add(cur["annot"])
            if cur["extends"] not in by:
                out["ill"].append("unknown-base")
                break
            cur = by[cur["extends"]]
    if out["ill"]:
        return out
    memo = {}

    def layout(d):
        a = d["annot"]
        if a in memo:
            return memo[a]
        base = [] if d["extends"] is None else layout(by[d["extends"]])
        if base is None:
            memo[a] = None
            return None
        cols = []
        for n, cls, desc in base:
            for e in d["columns"]:
                if e[0] == n:
                    cls = ["m", ["s", e[1]], cls]
                    desc = e[2]
                    out["terms"].append(cls)
            cols.append([n, cls, desc])
        have = set(n for n, _, _ in base)
        for e in d["columns"]:
            if e[0] not in have:
                have.add(e[0])
                cols.append([e[0], ["s", e[1]], e[2]])
        if d["filtered"] is not None:
            names = set(c[0] for c in cols)
            if any(f not in names for f in d["filtered"]):
                out["ill"].append("missing-filtered-column")
                memo[a] = None
                return None
            cols = [c for c in cols if c[0] not in d["filtered"]]
        memo[a] = cols
        return cols

    for d in defs:
        l = layout(d)
        if l is not None:
            out["layouts"][d["annot"]] = l
    return out


def doc_sort_key(version, annot):
    """documented order of the scheme list: by version, then annotation; gdc-N.N.N[-rest] as numbers then rest"""
    def part(x):
        if not x.startswith("gdc-"):
            return [-1, -1, -1, x]
        body = x[4:]
        nums, _, rest = body.partition("-")
        return [int(t) for t in nums.split(".")] + [rest]
    return part(version) + part(annot)


def list_order_problems(pairs):
    """pairs: [[version, annotation] | ['norestr']] as returned; documented patterns only"""
    ps = [NOREST if p == ["norestr"] else p[:2] for p in pairs]
    if any(not documented(v) or not documented(a) for v, a in ps):
        return []
    try:
        keys = [doc_sort_key(v, a) for v, a in ps]
    except ValueError:
        return []
    if any(len(k) != 8 for k in keys):
        return []
    return [] if keys == sorted(keys) else ["scheme-list-not-sorted-by-version-then-annotation"]


def _as_map(run, mode):
    if mode == "build":
        return {k: v for k, v in run["ok"]}
    return {v[1]: v for v in run["ok"] if v != ["norestr"]}


def _oracle_resolve(case, obs):
    """lookup rules: by pair; by annotation alone; by version alone = the basic scheme (annotation = version)"""
    out = []
    rs = case["resolve"]
    sp = spec_eval(case, "load_all", rs["extra"])
    r = obs["resolve"]
    if sp["ill"]:
        if "ok" in r["reg"]:
            out.append("ill-formed-set-accepted (%s) by all_schemes" % ",".join(sorted(set(sp["ill"]))))
        return out
    if sp["unclean"] or any(not documented(a) or not documented(v) for a, v in sp["versions"].items()):
        return out
    if "exc" in r["reg"]:
        if not sp["terms"]:
            out.append("well-formed-set-rejected %s by all_schemes" % r["reg"]["exc"])
        return out
    pairs = [[v, a] for a, v in sp["versions"].items()]
    if sorted(pairs + [["norestr"]]) != sorted(r["reg"]["ok"]):
        out.append("all-schemes-pairs-wrong got %s" % [p for p in r["reg"]["ok"] if p not in pairs][:4])
    out.extend(list_order_problems(r["reg"]["ok"]))
    sp0 = spec_eval(case, "load_all", [])
    pairs0 = [[v, a] for a, v in sp0["versions"].items()]
    todo = [(q, ans, pairs0, sp0, "before the registration") for q, ans in zip(rs.get("pre", []), r.get("pre", []))] + \
           [(q, ans, pairs, sp, "after the registration") for q, ans in zip(rs["queries"], r["answers"])]
    for (k, v, a), ans, pairs, sp, when in todo:
        if not v and not a:
            want = {"exc": "ValueError"} if k != "hdr" else {"ok": None}
        elif not a:
            want = {"ok": [v, v] if [v, v] in pairs else None}
        elif not v:
            want = {"ok": [sp["versions"][a], a] if a in sp["versions"] else
                    (["norestr"] if a == NOREST[1] and k == "findcls" else None)}
        else:
            want = {"ok": [v, a] if [v, a] in pairs else (["norestr"] if [v, a] == NOREST and k == "findcls" else None)}
        if ans != want:
            what = "version-only" if (v and not a) else "annotation-only" if (a and not v) else "pair" if v else "empty"
            out.append("%s-lookup-wrong %s(%r, %r) %s gave %s, the rule says %s" % (what, k, v, a, when, ans, want))
    return out[:8]


def oracle(case, obs):
    if "resolve" in case:
        return _oracle_resolve(case, obs)
    out = []
    runs = obs["runs"]
    for p in obs.get("_acc", []):
        out.append(p + " (scheme instance accessors disagree with the resolved layout)")
    out.extend(obs.get("_conj", []))
    for p in obs.get("_rnv", []):
        out.append("require-null-override-not-enforced" + p)
    # order independence: every order of the same definition set gives the same map, or an error in all
    groups = {}
    for (mode, order), r in zip(case["runs"], runs):
        groups.setdefault((mode, tuple(sorted(order))), []).append((order, r))
    for (mode, _), grp in groups.items():
        errs = [r for _, r in grp if "exc" in r]
        oks = [(o, r) for o, r in grp if "ok" in r]
        if errs and oks:
            out.append("order-dependent-outcome error in order %s but success in order %s" % (
                [o for o, r in grp if "exc" in r][0], oks[0][0]))
        if mode == "load_all" and len(oks) > 1:
            l0 = [v[:2] for v in oks[0][1]["ok"]]
            for o, r in oks[1:]:
                if [v[:2] for v in r["ok"]] != l0:
                    out.append("order-dependent-list-order orders %s and %s list the schemes differently" % (oks[0][0], o))
                    break
        if len(oks) > 1:
            m0 = _as_map(oks[0][1], mode)
            for o, r in oks[1:]:
                if _as_map(r, mode) != m0:
                    out.append("order-dependent-layout orders %s and %s resolve differently" % (oks[0][0], o))
                    break
    # the layout rule and the rejection rule
    for (mode, order), r in zip(case["runs"], runs):
        sp = spec_eval(case, mode, order)
        bad_terms = [t for t in sp["terms"] if obs["_typeok"].get(json.dumps(t)) is False]
        if sp["ill"]:
            if "ok" in r:
                out.append("ill-formed-set-accepted (%s) in order %s" % (",".join(sorted(set(sp["ill"]))), order))
            continue
        if "ok" in r:
            if mode == "build":
                keys = [k for k, _ in r["ok"]]
                if len(set(keys)) != len(keys) or any(k != v[1] for k, v in r["ok"]):
                    out.append("result-map-keys-wrong in order %s" % order)
            pairs = [tuple(v[:2]) if v != ["norestr"] else tuple(NOREST) for v in
                     ([v for _, v in r["ok"]] if mode == "build" else r["ok"])]
            if len(set(pairs)) != len(pairs):
                out.append("two-schemes-for-one-pair in order %s" % order)
            if mode == "load_all" and r["ok"].count(["norestr"]) != 1:
                out.append("no-restrictions-scheme-missing in order %s" % order)
            if mode == "load_all":
                out.extend(p + " in order %s" % order for p in list_order_problems(r["ok"]))
        if bad_terms:
            if "ok" in r and not sp["unclean"]:
                out.append("uncreatable-class-accepted in order %s" % order)
            continue
        if sp["unclean"]:
            continue
        if "exc" in r:
            out.append("well-formed-set-rejected %s in order %s" % (r["exc"], order))
            continue
        got = _as_map(r, mode)
        if sorted(got) != sorted(sp["layouts"]):
            out.append("resolved-annotations-differ got %s expected %s" % (sorted(got), sorted(sp["layouts"])))
            continue
        for a, lay in sp["layouts"].items():
            g = got[a]
            if g[0] != sp["versions"][a]:
                out.append("wrong-version for %s" % a)
            if [c[0] for c in g[2]] != [c[0] for c in lay]:
                out.append("layout-order-wrong %s: got %s expected %s" % (a, [c[0] for c in g[2]], [c[0] for c in lay]))
            elif g[2] != lay:
                i = next(i for i in range(len(lay)) if g[2][i] != lay[i])
                out.append("layout-class-wrong %s column %s: got %s expected %s" % (a, lay[i][0], g[2][i], lay[i]))
    # at most a handful of messages per case
    seen = []
    for v in out:
        if v not in seen:
            seen.append(v)
    return seen[:8]


def signature(case, violation):
    return violation.split(" ")[0]


def classify(case, obs):
    n = len(case["files"])
    if obs is None:
        return case["stream"] + "/harness-error"
    if "resolve" in case:
        return "%s/defs=%s/%s" % (case["stream"], n, "registered" if "ok" in obs["resolve"]["reg"] else obs["resolve"]["reg"]["exc"])
    kinds = set("ok" if "ok" in r else r["exc"] for r in obs["runs"])
    return "%s/defs=%s/%s" % (case["stream"], n if n < 6 else "6+", "+".join(sorted(kinds)) or "no-runs")


def nontrivial(case, obs):
    if "resolve" in case:
        return "ok" in obs["resolve"]["reg"] and len(case["files"]) >= 1 and \
            any(a.get("ok") is not None for a in obs["resolve"]["answers"])
    if len(obs["runs"]) < 2:
        return False
    if any("exc" in r for r in obs["runs"]):
        return True
    derived = any(s["kind"] == "json" and s["data"].get("extends") not in ("None", None, "")
                  for s in case["files"].values())
    return derived


# ------------------------------------------------------------ generation
COLS = ["c%d" % i for i in range(12)]


def _types():
    return world_static()[0]


def _perm_runs(rng, names, mode="build", full_upto=4, sample=8):
    names = list(names)
    if len(names) <= full_upto:
        perms = [list(p) for p in itertools.permutations(names)]
    else:
        perms = [list(names)]
        seen = {tuple(names)}
        for _ in range(sample * 4):
            p = list(names)
            rng.shuffle(p)
            if tuple(p) not in seen:
                seen.add(tuple(p))
                perms.append(p)
            if len(perms) >= sample:
                break
    return [[mode, p] for p in perms]


def _entry(rng, name, tpe):
    if rng.random() < 0.5:
        return [name, tpe]
    return [name, tpe, "about %s %d" % (name, rng.randint(0, 3))]


def gen_forest(rng, n, roots_extend=None, version=None, tag="a"):
    """n well-formed definitions; returns list of json objects (parents first)"""
    types = _types()
    defs = []
    info = []      # (depth, visible names)
    for i in range(n):
        ver = version or rng.choice(["gdc-1.0.0", "gdc-1.0.0", "gdc-2.1.0", "v-x"])
        annot = "gdc-%d.%d.%d-%s%d" % (rng.randint(1, 3), rng.randint(0, 2), rng.randint(0, 2), tag, i)
        if rng.random() < 0.15:
            annot = "%s-spec-%d" % (tag, i)
        elif rng.random() < 0.25:
            annot = "gdc-1.0.0-%s-%s" % (tag, "abcdefgh"[7 - i % 8] * (1 + i // 8))     # siblings that differ after the second hyphen
        cands = [k for k in range(i) if info[k][0] < 4]
        parent = rng.choice(cands) if cands and rng.random() < 0.7 else None
        cols = []
        if parent is None:
            depth = 1
            visible = []
            ext = rng.choice(["None", "None", None]) if roots_extend is None else None
            if roots_extend is not None and rng.random() < 0.7:
                ext, visible = rng.choice(roots_extend)
                visible = list(visible)
            elif roots_extend is not None:
                ext = "None"
        else:
            depth = info[parent][0] + 1
            visible = list(info[parent][1])
            ext = defs[parent]["annotation-spec"]
        # overrides
        if visible:
            for nme in rng.sample(visible, min(len(visible), rng.choice([0, 0, 1, 1, 2]))):
                t = "RequireNullValue" if rng.random() < 0.6 else rng.choice(types)
                cols.append(_entry(rng, nme, t))
        # new columns
        fresh = [c for c in COLS if c not in visible]
        k = rng.randint(2, 5) if not visible else rng.choice([0, 1, 1, 2, 3])
        news = rng.sample(fresh, min(len(fresh), k))
        for nme in news:
            cols.append(_entry(rng, nme, rng.choice(types)))
        rng.shuffle(cols)
        # new columns keep declaration order: visible after = visible + news in cols order
        after = visible + [c[0] for c in cols if c[0] not in visible]
        r = rng.random()
        if r < 0.45:
            flt = rng.choice(["None", "None", None])
        elif r < 0.55:
            flt = []
        else:
            flt = rng.sample(after, min(len(after), rng.choice([1, 1, 2, 3])))
        if isinstance(flt, list):
            after = [c for c in after if c not in flt]
        defs.append({"version": ver, "annotation-spec": annot, "extends": ext, "columns": cols, "filtered": flt})
        info.append((depth, after))
    return defs


def _files_of(defs, prefix="f"):
    return {"%s%d.json" % (prefix, i): {"kind": "json", "data": d} for i, d in enumerate(defs)}


def _derived_idx(defs):
    return [i for i, d in enumerate(defs) if d["extends"] not in ("None", None, "")]


def _defect(rng, defs):
    """apply one defect; returns (kind, files)"""
    defs = json.loads(json.dumps(defs))
    files = _files_of(defs)
    kind = rng.choice(["unknown-base", "cycle", "self-cycle", "unknown-type", "missing-filtered",
                       "missing-filtered-root", "dup-annotation", "dup-pair", "bad-entry", "bad-json",
                       "missing-file", "missing-key", "dup-annotation-of-base"])
    i = rng.randrange(len(defs))
    d = defs[i]
    if kind == "unknown-base":
        d["extends"] = "gdc-9.9.9-nowhere"
    elif kind == "self-cycle":
        d["extends"] = d["annotation-spec"]
    elif kind == "cycle":
        der = _derived_idx(defs)
        if der:
            j = rng.choice(der)
            # the root of j's chain now extends j
            cur = j
            by = {x["annotation-spec"]: k for k, x in enumerate(defs)}
            for _ in range(len(defs)):
                nxt = by.get(defs[cur]["extends"])
                if defs[cur]["extends"] in ("None", None, "") or nxt is None:
                    break
                cur = nxt
            defs[cur]["extends"] = defs[j]["annotation-spec"]
        else:
            d["extends"] = d["annotation-spec"]
    elif kind == "unknown-type":
        if not d["columns"]:
            d["columns"].append(["c0", "StringColumn"])
        rng.choice(d["columns"])[1] = rng.choice(["NoSuchColumn", "stringcolumn", "", "NullableEmptyStringIsNone"])
    elif kind == "missing-filtered":
        d["filtered"] = (d["filtered"] if isinstance(d["filtered"], list) else []) + ["zz_absent"]
    elif kind == "missing-filtered-root":
        roots = [k for k in range(len(defs)) if k not in _derived_idx(defs)]
        d = defs[rng.choice(roots)] if roots else d
        d["filtered"] = ["zz_absent"]
    elif kind in ("dup-annotation", "dup-pair", "dup-annotation-of-base"):
        if kind == "dup-annotation-of-base" and _derived_idx(defs):
            by = {x["annotation-spec"]: k for k, x in enumerate(defs)}
            d = defs[by.get(defs[rng.choice(_derived_idx(defs))]["extends"], i)]
        c = json.loads(json.dumps(d))
        if kind == "dup-annotation":
            c["version"] = d["version"] + "-other"
        if rng.random() < 0.5:
            c["columns"] = [["c11", "StringColumn"]]
            c["filtered"] = "None"
        defs.append(c)
    elif kind == "bad-entry":
        if not d["columns"]:
            d["columns"].append(["c0", "StringColumn"])
        k = rng.randrange(len(d["columns"]))
        d["columns"][k] = rng.choice([[d["columns"][k][0]], d["columns"][k][:2] + ["x", "y"], []])
    files = _files_of(defs)
    name = "f%d.json" % i
    if kind == "bad-json":
        files[name] = {"kind": "raw", "text": rng.choice(["{", "", "[1,2", "{\"version\": }"])}
    elif kind == "missing-file":
        files[name] = {"kind": "missing"}
    elif kind == "missing-key":
        k = rng.choice(["columns", "version", "annotation-spec", "extends", "filtered"])
        del files[name]["data"][k]
        if rng.random() < 0.3 and files[name]["data"].get("columns"):
            files[name]["data"]["columns"][0] = ["only-one"]
    return kind, files


def _case(stream, files, runs, note=""):
    return {"stream": stream, "note": note, "files": files, "runs": runs}


def _gen_valid(rng):
    n = rng.choice([1, 2, 2, 3, 3, 3, 4, 4, 5, 6, 7])
    files = _files_of(gen_forest(rng, n))
    return _case("valid", files, _perm_runs(rng, files))


def _gen_defect(rng):
    n = rng.choice([1, 2, 2, 3, 3, 4, 4, 5])
    kind, files = _defect(rng, gen_forest(rng, n))
    return _case("defect", files, _perm_runs(rng, files), kind)


def _gen_boundary(rng):
    k = rng.randrange(8)
    if k == 0:
        return _case("boundary", {}, [["build", []]], "empty set")
    if k == 1:
        d = [{"version": "gdc-1.0.0", "annotation-spec": "gdc-1.0.0", "extends": "None", "columns": [], "filtered": rng.choice(["None", []])},
             {"version": "gdc-1.0.0", "annotation-spec": "gdc-1.0.0-e", "extends": "gdc-1.0.0", "columns": [], "filtered": None}]
        files = _files_of(d)
        return _case("boundary", files, _perm_runs(rng, files), "empty columns")
    if k == 2:
        defs = gen_forest(rng, 3)
        for d in defs:
            if rng.random() < 0.6:
                vis = [c[0] for c in d["columns"]]
                d["filtered"] = list(dict.fromkeys(vis))
        # filtering own columns keeps children well-formed only if they do not touch them: regenerate children naively
        files = _files_of(defs[:1] + [x for x in defs[1:] if x["extends"] in ("None", None)])
        return _case("boundary", files, _perm_runs(rng, files), "everything filtered")
    if k == 3:
        defs = gen_forest(rng, 3)
        defs[0]["extends"] = ""
        files = _files_of(defs)
        return _case("boundary", files, _perm_runs(rng, files), "extends empty string")
    if k == 4:
        # a chain of depth 4 with an override at every level
        types = _types()
        defs = [{"version": "gdc-1.0.0", "annotation-spec": "gdc-1.0.0-l0", "extends": None,
                 "columns": [["c0", "StringColumn", "zero"], ["c1", "IntegerColumn"], ["c2", rng.choice(types)]], "filtered": "None"}]
        for lvl in range(1, 4):
            defs.append({"version": "gdc-1.0.0", "annotation-spec": "gdc-1.0.0-l%d" % lvl,
                         "extends": "gdc-1.0.0-l%d" % (lvl - 1),
                         "columns": [["c%d" % (2 + lvl), rng.choice(types)], ["c1", rng.choice(["RequireNullValue", "MafColumnRecord", "NullableIntegerColumn"])]],
                         "filtered": rng.choice(["None", [], ["c0"] if lvl == 3 else []])})
        files = _files_of(defs)
        return _case("boundary", files, _perm_runs(rng, files), "depth 4 chain")
    if k == 5:
        files = _files_of(gen_forest(rng, 5))
        return _case("boundary", files, _perm_runs(rng, files, full_upto=5), "5 definitions, all orders")
    if k == 6:
        kind, files = _defect(rng, gen_forest(rng, 4))
        return _case("boundary", files, _perm_runs(rng, files, full_upto=5), "all orders, " + kind)
    # the same file named twice in one load
    files = _files_of(gen_forest(rng, 2))
    names = list(files) + [list(files)[0]]
    return _case("boundary", files, [["build", p] for p in sorted(set(itertools.permutations(names)))], "file listed twice")


def _gen_adversarial(rng):
    k = rng.randrange(4)
    types = _types()
    if k == 0:
        defs = gen_forest(rng, rng.choice([2, 3]))
        d = rng.choice(defs)
        if d["columns"]:
            c = list(rng.choice(d["columns"]))
            c[1] = rng.choice(types)
            d["columns"].insert(rng.randrange(len(d["columns"]) + 1), c)
        files = _files_of(defs)
        return _case("adversarial", files, _perm_runs(rng, files), "duplicate column name")
    if k == 1:
        # overrides by arbitrary pairs (many are C3-inconsistent)
        base = {"version": "gdc-1.0.0", "annotation-spec": "gdc-1.0.0-b", "extends": "None",
                "columns": [["c%d" % i, rng.choice(types)] for i in range(4)], "filtered": "None"}
        der = {"version": "gdc-1.0.0", "annotation-spec": "gdc-1.0.0-d", "extends": "gdc-1.0.0-b",
               "columns": [["c%d" % i, rng.choice(types)] for i in rng.sample(range(4), 2)], "filtered": "None"}
        if rng.random() < 0.3:
            der["columns"][0][1] = base["columns"][int(der["columns"][0][0][1:])][1]     # same class twice
        files = _files_of([base, der])
        return _case("adversarial", files, _perm_runs(rng, files), "arbitrary override pairs")
    if k == 2:
        # override of an overridden column two levels down
        t = rng.choice(types)
        defs = [{"version": "gdc-1.0.0", "annotation-spec": "gdc-1.0.0-b", "extends": "None", "columns": [["c0", t], ["c1", "StringColumn"]], "filtered": "None"},
                {"version": "gdc-1.0.0", "annotation-spec": "gdc-1.0.0-m", "extends": "gdc-1.0.0-b", "columns": [["c0", rng.choice(["RequireNullValue", rng.choice(types)])]], "filtered": "None"},
                {"version": "gdc-1.0.0", "annotation-spec": "gdc-1.0.0-t", "extends": "gdc-1.0.0-m", "columns": [["c0", rng.choice(["RequireNullValue", "MafColumnRecord", rng.choice(types)])]], "filtered": []}]
        files = _files_of(defs)
        return _case("adversarial", files, _perm_runs(rng, files), "double override")
    # two defects at once
    kind, files = _defect(rng, gen_forest(rng, 3))
    defs = [s["data"] for s in files.values() if s["kind"] == "json"]
    if defs and all(k in d for d in defs for k in ("version", "annotation-spec", "extends", "columns", "filtered")):
        try:
            kind2, files2 = _defect(rng, defs)
            files = files2
            kind += "+" + kind2
        except (IndexError, KeyError):
            pass          # the second defect does not apply to what the first one left
    return _case("adversarial", files, _perm_runs(rng, files), kind)


def _builtin_visible():
    """(annotation, visible column names) of the shipped definitions, by the spec"""
    case = {"files": {}}
    sp = spec_eval(case, "load_all", [])
    return [(a, [c[0] for c in lay]) for a, lay in sorted(sp["layouts"].items())]


def _gen_shipped(rng):
    k = rng.randrange(3)
    names = [n for n, _ in builtin_files()]
    if k == 0:
        runs = _perm_runs(rng, names, sample=5)
        return _case("shipped", {}, runs, "shipped files shuffled")
    vis = _builtin_visible()
    if k == 1:
        defs = gen_forest(rng, rng.choice([1, 2, 3]), roots_extend=vis, version="gdc-1.0.0", tag="x")
        files = _files_of(defs)
        return _case("shipped", files, _perm_runs(rng, files, mode="load_all", sample=4), "load_all_schemes with extras")
    defs = gen_forest(rng, rng.choice([1, 2]), roots_extend=vis, version="gdc-1.0.0", tag="y")
    r = rng.randrange(4)
    if r == 0:
        defs[0]["annotation-spec"] = rng.choice(vis)[0]
        note = "extra reuses a shipped annotation"
    elif r == 1:
        defs[0]["version"], defs[0]["annotation-spec"] = NOREST
        note = "extra claims the no-restrictions pair"
    elif r == 2:
        defs[-1]["extends"] = "gdc-0.0.0-absent"
        note = "extra extends an unknown base"
    else:
        defs[-1]["filtered"] = ["zz_absent"]
        note = "extra filters an absent column"
    files = _files_of(defs)
    return _case("shipped", files, _perm_runs(rng, files, mode="load_all", sample=3), note)


def _gen_resolve(rng):
    """extras whose annotations sort before / after the basic scheme of their version, versions with
    and without a basic scheme; then lookups by version alone, annotation alone, pair, through
    find_scheme_class / find_scheme / MafHeader.scheme()"""
    cnt = [0]

    def cols(k):
        cnt[0] += 1          # own column names per definition: no accidental redefinitions
        return [["r%d_%d" % (cnt[0], i), rng.choice(["StringColumn", "IntegerColumn", "NullableStringColumn"])] for i in range(k)]
    mk = lambda v, a, ext="None": {"version": v, "annotation-spec": a, "extends": ext, "columns": cols(rng.randint(1, 3)), "filtered": "None"}
    defs = []
    pick = rng.sample(range(6), rng.choice([1, 2, 2, 3]))
    for k in pick:
        if k == 0:      # sorts before the shipped basic scheme gdc-1.0.0 / gdc-1.0.0
            defs.append(mk("gdc-1.0.0", rng.choice(["gdc-0.9.0-legacy", "gdc-0.1.0", "a-first"]), rng.choice(["None", "gdc-1.0.0"])))
        elif k == 1:    # a version without a basic scheme
            defs.append(mk("lab-1", "lab-1-extended"))
            if rng.random() < 0.5:
                defs.append(mk("lab-1", "lab-0-other"))
        elif k == 2:    # a new version with its own basic scheme and a sibling that sorts before it
            defs.append(mk("gdc-5.0.0", "gdc-5.0.0"))
            defs.append(mk("gdc-5.0.0", rng.choice(["gdc-4.0.0-x", "gdc-5.0.0-y", "aaa"]), rng.choice(["None", "gdc-5.0.0"])))
        elif k == 3:    # sorts after everything shipped
            defs.append(mk("gdc-1.0.0", "gdc-9.0.0-late", "gdc-1.0.0-public"))
        elif k == 4:    # a basic scheme whose version is not a gdc- string
            defs.append(mk("zeta", "zeta"))
            defs.append(mk("zeta", "alpha"))
        else:           # a new version whose only scheme is not basic and sorts first of all
            defs.append(mk("gdc-0.5.0", "gdc-0.5.0-only"))
    seen = set()
    defs = [d for d in defs if not (d["annotation-spec"] in seen or seen.add(d["annotation-spec"]))]
    files = _files_of(defs, prefix="r")
    extra = list(files)
    rng.shuffle(extra)
    versions = sorted(set(d["version"] for d in defs) | {"gdc-1.0.0", "gdc-7.0.0"})
    annots = sorted(set(d["annotation-spec"] for d in defs) | {"gdc-1.0.0-public", "gdc-1.0.0", "nope"})
    q = []
    for v in versions:
        for k in ("findcls", "find", "hdr"):
            q.append([k, v, None])
        q.append(["findcls", v, ""])
    for a in annots:
        q.append([rng.choice(["findcls", "find", "hdr"]), None, a])
    for d in defs:
        q.append([rng.choice(["findcls", "find", "hdr"]), d["version"], d["annotation-spec"]])
    q.append([rng.choice(["findcls", "find", "hdr"]), None, None])
    q.append(["findcls"] + NOREST)
    pre = [x for x in q if rng.random() < 0.5] if rng.random() < 0.6 else []
    return {"stream": "resolve", "note": "lookup rules", "files": files, "runs": [],
            "resolve": {"pre": pre, "extra": extra, "queries": q}}


def generate(rng, n):
    out = []
    for i in range(n):
        r = rng.random()
        if r < 0.08:
            out.append(_gen_resolve(rng))
            continue
        r = rng.random()
        if r < 0.36:
            out.append(_gen_valid(rng))
        elif r < 0.66:
            out.append(_gen_defect(rng))
        elif r < 0.80:
            out.append(_gen_boundary(rng))
        elif r < 0.90:
            out.append(_gen_adversarial(rng))
        else:
            out.append(_gen_shipped(rng))
    return out


def corpus():
    A = {"version": "gdc-1.0.0", "annotation-spec": "gdc-1.0.0-a", "extends": "None",
         "columns": [["c0", "StringColumn"], ["c1", "IntegerColumn", "one"]], "filtered": "None"}
    A2 = {"version": "gdc-1.0.0", "annotation-spec": "gdc-1.0.0-a", "extends": "None",
          "columns": [["c5", "StringColumn"]], "filtered": "None"}
    B = {"version": "gdc-1.0.0", "annotation-spec": "gdc-1.0.0-b", "extends": "gdc-1.0.0-a",
         "columns": [["c1", "RequireNullValue"], ["c2", "FloatColumn"]], "filtered": ["c0"]}
    R = {"version": "gdc-1.0.0", "annotation-spec": "gdc-1.0.0-r", "extends": "None",
         "columns": [["c0", "StringColumn"], ["c1", "IntegerColumn"]], "filtered": ["c1"]}
    R2 = dict(R, filtered=["zz"])
    Z = {"version": "gdc-1.0.0", "annotation-spec": "gdc-1.0.0-z", "extends": "gdc-1.0.0-a",
         "columns": [["c1", "ZeroBasedIntegerColumn"]], "filtered": "None"}
    out = []
    f = _files_of([A, A2, B])
    out.append(_case("corpus", f, _perm_runs(None, f), "duplicate annotation was silently overwritten (order dependent)"))
    f = _files_of([R])
    out.append(_case("corpus", f, _perm_runs(None, f), "a root's filtered list was ignored"))
    f = _files_of([R2, B, A])
    out.append(_case("corpus", f, _perm_runs(None, f), "a root filtering an absent column was accepted"))
    f = _files_of([A, B, Z])
    out.append(_case("corpus", f, _perm_runs(None, f), "override keeps position, new columns appended, filter applied"))
    # "enforces both the inherited and the added constraint": probes of fixed class pairs
    P0 = {"version": "gdc-1.0.0", "annotation-spec": "gdc-1.0.0-p", "extends": "None",
          "columns": [["one", "OneBasedIntegerColumn"], ["txt", "NullableStringColumn"], ["pos", "OneBasedIntegerColumn"]],
          "filtered": "None"}
    P1 = {"version": "gdc-1.0.0", "annotation-spec": "gdc-1.0.0-q", "extends": "gdc-1.0.0-p",
          "columns": [["one", "ZeroBasedIntegerColumn"], ["txt", "RequireNullValue"], ["pos", "RequireNullValue"]],
          "filtered": "None"}
    f = _files_of([P0, P1])
    c = _case("corpus", f, _perm_runs(None, f), "OneBasedIntegerColumn redefined with ZeroBasedIntegerColumn accepts 0; RequireNullValue overrides are conjunctive")
    c["probe_conjunctive"] = True
    out.append(c)
    L = {"version": "gdc-1.0.0", "annotation-spec": "gdc-0.9.0-legacy", "extends": "None", "columns": [["r0", "StringColumn"]], "filtered": "None"}
    X = {"version": "lab-1", "annotation-spec": "lab-1-extended", "extends": "None", "columns": [["r0", "StringColumn"]], "filtered": "None"}
    f = _files_of([L, X], prefix="r")
    out.append({"stream": "corpus", "note": "a version-only lookup is the basic scheme of that version, not the first scheme of that version",
                "files": f, "runs": [], "resolve": {"extra": list(f), "queries": [
                    ["findcls", "gdc-1.0.0", None], ["find", "gdc-1.0.0", None], ["hdr", "gdc-1.0.0", None],
                    ["findcls", "lab-1", None], ["find", "lab-1", None], ["hdr", "lab-1", None],
                    ["find", None, "gdc-0.9.0-legacy"], ["find", "lab-1", "lab-1-extended"]]}})
    out.append({"stream": "corpus", "note": "a pair looked up before it is registered resolves after the registration (no stale answers)",
                "files": f, "runs": [], "resolve": {
                    "pre": [["findcls", "lab-1", "lab-1-extended"], ["find", "gdc-1.0.0", "gdc-0.9.0-legacy"], ["hdr", "gdc-1.0.0", "gdc-1.0.0-public"]],
                    "extra": list(f),
                    "queries": [["findcls", "lab-1", "lab-1-extended"], ["find", "gdc-1.0.0", "gdc-0.9.0-legacy"], ["hdr", "gdc-1.0.0", "gdc-1.0.0-public"]]}})
    Y1 = {"version": "gdc-1.0.0", "annotation-spec": "gdc-1.0.0-zz-b", "extends": "None", "columns": [["y0", "StringColumn"]], "filtered": "None"}
    Y2 = {"version": "gdc-1.0.0", "annotation-spec": "gdc-1.0.0-zz-a", "extends": "None", "columns": [["y1", "StringColumn"]], "filtered": "None"}
    f = _files_of([Y1, Y2], prefix="y")
    out.append(_case("corpus", f, _perm_runs(None, f, mode="load_all"), "the scheme list is sorted by the whole annotation, whatever the load order"))
    return out


def shrink(case):
    if "resolve" in case:
        rs = case["resolve"]
        for i in range(len(rs["queries"])):
            yield dict(case, resolve=dict(rs, queries=rs["queries"][:i] + rs["queries"][i + 1:]))
        for i in range(len(rs.get("pre", []))):
            yield dict(case, resolve=dict(rs, pre=rs["pre"][:i] + rs["pre"][i + 1:]))
        for n in list(rs["extra"]):
            yield dict(case, files={k: v for k, v in case["files"].items() if k != n},
                       resolve=dict(rs, extra=[x for x in rs["extra"] if x != n]))
        return
    files = case["files"]
    names = list(files)
    # drop a file (and rebuild the runs as all orders of what is left)
    for n in names:
        rest = {k: v for k, v in files.items() if k != n}
        modes = set(m for m, _ in case["runs"])
        for mode in modes:
            perms = [list(p) for p in itertools.permutations(list(rest))][:24]
            yield dict(case, files=rest, runs=[[mode, p] for p in perms])
    # fewer runs
    if len(case["runs"]) > 2:
        yield dict(case, runs=case["runs"][:2])
        yield dict(case, runs=case["runs"][-2:])
        for i in range(len(case["runs"])):
            yield dict(case, runs=case["runs"][:i] + case["runs"][i + 1:])
    # drop a column / the filter
    for n in names:
        sp = files[n]
        if sp["kind"] != "json":
            continue
        d = sp["data"]
        for i in range(len(d.get("columns", []))):
            d2 = dict(d, columns=d["columns"][:i] + d["columns"][i + 1:])
            yield dict(case, files=dict(files, **{n: {"kind": "json", "data": d2}}))
        if isinstance(d.get("filtered"), list) and d["filtered"]:
            yield dict(case, files=dict(files, **{n: {"kind": "json", "data": dict(d, filtered="None")}}))
