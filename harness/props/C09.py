"""C09 - Reading enforces the declared sort order exactly."""
import so_common as C
from sexp import S, U, OPT

PID = "C09"
CLUSTER = "SortOrder"
PROPS = "props/C09.v"
N_QUICK = 1200
N_THOROUGH = 20000
RULE = ("MAF texts (header pragmas, column line, 0-7 data lines) read through MafReader(lines, Silent) and a "
        "`for` loop: header declares Coordinate / BarcodesAndCoordinate / Unsorted / Unknown / an unrecognised "
        "name / nothing, with contigs absent / lexical / karyotypic (chr1,chr2,chr10) / reversed; typed under "
        "gdc-1.0.0 (34 columns) or scheme-less; data built as a sorted sequence with ties under the declared "
        "order, then optionally one descent injected at every position (swap / one component lowered: 10 -> 9, "
        "chr10 -> chr2, barcode), plus boundary (empty, single record, all ties) and adversarial streams "
        "(duplicate or invalid sort.order pragmas, unlisted chromosome, non-numeric position, a short line "
        "giving an empty record); contig lists of 4-6 and of 25-30 names; for a share of the cases the same data "
        "under a header with a different contig list (reversed / rotated) is read first in the same interpreter "
        "(\"warm\"); typed lines may carry an invalid value in a column that is not part of the key (Strand, "
        "Variant_Type: the record has a validation error but all its key columns); lines are handed to the reader "
        "bare, LF- or CRLF-terminated; the extra column of scheme-less files is last, first or absent (so that a key "
        "column can be the last one); the iteration is driven by a `for` loop, by next(it), by it.next() or by "
        "iter(iter(reader)) (which must be the same iterator); a share of the scheme-less files is wide (255-300 "
        "filler columns before the key columns, so that these sit right of column index 256); barcodes include "
        "digit-only texts (\"9\", \"10\", \"007\"), which stay text under the typed scheme; observed: records yielded (their accessor values) and how the loop ended; "
        "non-trivial = at least two records in the file and a sortable order declared or at least one record "
        "yielded; distinct by hash of the case")
ASSUMPTIONS = [
    "header lines are ASCII; stringency Silent or Lenient (Strict turns header diagnostics into exceptions before iteration, C16/C17)",
    "data lines parse to records whose key columns have the values the case states (checked per record by the accessor echo); parsing itself is C01/C16",
    "a line with the wrong number of fields yields a record with no columns, which is falsy: the checker does not compare it with its successor (reported, outside the property's well-formed records)",
    "MafReader.__iter__ builds a fresh checker on every call: `for r in reader: break` followed by a second `for r in reader` is not checked across the two loops; one iteration per reader is what is modelled",
] + [
    "values reaching a key are None, int or str; position text is ASCII",
    "integer-like chromosome names under a typed scheme are canonical decimals",
]


# ------------------------------------------------------------ generation
def _header_lines(rng, declared, typed, noise):
    order, contigs = declared
    lines = []
    if typed:
        lines.append("#version gdc-1.0.0")
    elif rng.random() < 0.3:
        lines.append("#version custom-%d" % rng.randint(1, 9))
    so = []
    if order is not None:
        so.append("#sort.order " + order)
    if contigs is not None:
        so.append("#contigs " + ",".join(contigs))
    if rng.random() < 0.5:
        so.reverse()
    lines += so
    if noise and rng.random() < 0.5:
        lines.insert(rng.randrange(len(lines) + 1), "#note made by check")
    if rng.random() < 0.3:
        rng.shuffle(lines)
    return lines


ORDER_NAMES = {"C": "Coordinate", "B": "BarcodesAndCoordinate"}


def _row_desc(typed, names, f):
    if typed:
        return {"kind": "typed", "f": {k: ("" if v is None else v) for k, v in f.items()}}
    return {"kind": "untyped", "cols": [[n, ("" if f[k] is None else f[k])] for n, k in names]}


def _sorted_rows(rng, n, chroms, by_bar, contigs, typed, missing_p):
    rows = []
    base = C.gen_fields(rng, chroms, missing_p, 0.0)
    rows.append(base)
    while len(rows) < n:
        rows.append(C.vary(rng, rng.choice(rows), chroms) if rng.random() < 0.75 else dict(rng.choice(rows)))
    return rows


def _gen_one(rng):
    stream = rng.choice(["valid", "valid", "defect", "defect", "boundary", "adv"])
    typed = rng.random() < 0.4
    chroms = rng.choice(C.CHROM_SETS)
    r = rng.random()
    if stream in ("valid", "defect"):
        order = rng.choice(["C", "B"]) if r < 0.85 else rng.choice(["Unsorted", "Unknown", None])
    else:
        order = rng.choice(["C", "B", "C", "B", "Unsorted", "Unknown", None, "Karyotype"])
    mode = rng.choice(["none", "none", "lexical", "karyotypic", "karyotypic", "reversed"])
    if stream == "adv" and rng.random() < 0.3:
        mode = "partial"
    contigs = C.gen_contigs(rng, chroms, mode)
    declared = [ORDER_NAMES.get(order, order), contigs]
    by_bar = order == "B"
    sortable = order in ("C", "B")
    n = rng.choice([0, 1, 2, 2, 3, 3, 4, 5, 6, 7]) if stream == "boundary" else rng.randint(2, 6)
    missing_p = 0.0 if typed else (0.12 if stream != "valid" else 0.05)
    fields = _sorted_rows(rng, n, chroms, by_bar, contigs, typed, missing_p)
    # columns of a scheme-less file: the five key columns (sometimes fewer) and one more
    names = [[C.F2N[k], k] for k in ("tumor", "normal", "chrom", "start", "end")]
    if not typed:
        if rng.random() < 0.2:
            names = [x for x in names if rng.random() < 0.8]
        rng.shuffle(names)
    if stream == "valid":
        fields = [(dict(f, chrom=chroms[0]) if f["chrom"] is None else f) for f in fields]
    descs = [_row_desc(typed, names, f) for f in fields]
    if typed:
        # typed lines cannot leave chromosome or tumor barcode out
        for d in descs:
            if d["f"]["tumor"] == "":
                d["f"]["tumor"] = "T0"
            if d["f"]["chrom"] == "" and stream != "adv":
                d["f"]["chrom"] = chroms[0]
    # sort by the documented key when it is defined for every row
    keys = [C.documented_key(d, by_bar, contigs) for d in descs]
    if sortable and all(k != "unlisted" for k in keys):
        import functools
        idx = sorted(range(len(descs)), key=functools.cmp_to_key(lambda a, b: C.documented_cmp(keys[a], keys[b])))
        descs = [descs[i] for i in idx]
    elif not sortable:
        rng.shuffle(descs)
    if stream == "boundary" and n >= 2 and rng.random() < 0.3:
        descs = [descs[0]] * n                                    # all ties
    if stream in ("defect", "adv") and len(descs) >= 2:
        i = rng.randrange(1, len(descs))
        r = rng.random()
        if r < 0.5:
            descs[i - 1], descs[i] = descs[i], descs[i - 1]      # swap neighbours
        elif r < 0.8:
            j = rng.randrange(len(descs))
            descs[i], descs[j] = descs[j], descs[i]
        else:
            descs.append(descs[0])
    header = _header_lines(rng, declared, typed, noise=True)
    if stream == "adv":
        r = rng.random()
        if r < 0.2:      # an unrecognised sort.order line first: no record, the next one is accepted
            header.insert(0, "#sort.order Karyotypic")
            if declared[0] == "Karyotype":
                pass
        elif r < 0.35 and declared[0] is not None:   # duplicate key: the first wins
            header.append("#sort.order Unsorted")
        elif r < 0.5 and declared[1] is not None:
            header.append("#contigs " + ",".join(reversed(declared[1])))
        elif r < 0.65 and descs:
            k = rng.randrange(len(descs) + 1)
            descs.insert(k, {"kind": "short"})                     # a line with too few fields
        elif r < 0.8 and descs and not typed:
            k = rng.randrange(len(descs))
            d = descs[k]
            descs[k] = dict(d, cols=[[nm, (rng.choice(["abc", "", "1_0", " 7", "x1"]) if nm in (C.N_START, C.N_END) else v)] for nm, v in d["cols"]])
    if declared[0] == "Karyotype":
        declared = [None, declared[1]]
    # what the header declares by the documented reading (first valid line of a key wins)
    first_so = next((l.split(" ", 1)[1] for l in header if l.startswith("#sort.order ")
                     and l.split(" ", 1)[1] in ("Coordinate", "BarcodesAndCoordinate", "Unsorted", "Unknown")), None)
    first_ct = next((l.split(" ", 1)[1].split(",") for l in header if l.startswith("#contigs ")), None)
    declared = [first_so, first_ct]
    other = "last"
    if not typed and names and rng.random() < 0.5:
        other = rng.choice(["first", "none"])
    pad = rng.choice([255, 256, 257, 258, 300]) if (not typed and rng.random() < 0.08) else 0
    colnames = C.GDC_NAMES if typed else [c for c, _ in _with_other({"other": other, "pad": pad}, [[nm, None] for nm, _ in names])]
    if typed:
        # an invalid value in a column the key does not use: the record keeps all its key columns
        descs = [(dict(d, f=dict(d["f"], **rng.choice([{"strand": "?"}, {"vtype": "XYZ"}, {"strand": "", "vtype": "snp?"}])))
                  if (d["kind"] == "typed" and rng.random() < 0.3) else d) for d in descs]
    eol = rng.choice(["", "", "\n", "\r\n", "\r\n"])
    warm = None
    if declared[1] and len(declared[1]) > 1 and declared[0] in ("Coordinate", "BarcodesAndCoordinate") and rng.random() < 0.35:
        w = list(declared[1])
        if rng.random() < 0.5:
            w.reverse()
        else:
            k = rng.randrange(1, len(w))
            w = w[k:] + w[:k]
        warm = w
    return {"stream": stream, "typed": typed, "header": header, "declared": declared, "names": colnames, "rows": descs,
            "warm": warm, "other": other, "eol": eol, "pad": pad, "iter": rng.choice(["for", "for", "next", "dotnext", "iter"])}


def generate(rng, n):
    return [_gen_one(rng) for _ in range(n)]


def _ucase(header, declared, rows, names=(C.N_CHROM, C.N_START, C.N_END), stream="corpus"):
    return {"stream": stream, "typed": False, "header": header, "declared": declared, "names": list(names) + ["Other"],
            "rows": [{"kind": "untyped", "cols": [[n, v] for n, v in zip(names, r)]} for r in rows]}


def _tcase(header, declared, rows, stream="corpus"):
    return {"stream": stream, "typed": True, "header": ["#version gdc-1.0.0"] + header, "declared": declared,
            "names": C.GDC_NAMES, "rows": [{"kind": "typed", "f": r} for r in rows]}


def corpus():
    return [
        # pinned-tree defects (C08-keys seen through the reader)
        _tcase(["#sort.order Coordinate", "#contigs 1,2,10,X"], ["Coordinate", ["1", "2", "10", "X"]],
               [dict(chrom="1", start="5", end="5"), dict(chrom="2", start="5", end="5"), dict(chrom="10", start="1", end="1"),
                dict(chrom="X", start="1", end="1")]),
        _tcase(["#sort.order Coordinate"], ["Coordinate", None],
               [dict(chrom="1", start="5", end="5"), dict(chrom="X", start="5", end="5")]),
        _ucase(["#sort.order Coordinate"], ["Coordinate", None], [["chr1", "9", "9"], ["chr1", "10", "10"]]),
        _ucase(["#sort.order Coordinate", "#contigs chr1,chr2,chr10"], ["Coordinate", ["chr1", "chr2", "chr10"]],
               [["chr1", "9", "9"], ["chr2", "1", "1"], ["chr10", "1", "1"], ["chr2", "5", "5"], ["chr10", "7", "7"]]),
        _ucase(["#sort.order Unsorted"], ["Unsorted", None], [["chr2", "9", "9"], ["chr1", "10", "10"]]),
        _ucase(["#sort.order Karyotypic", "#sort.order Coordinate"], ["Coordinate", None], [["chr2", "9", "9"], ["chr1", "10", "10"]]),
        _ucase([], [None, None], [["chr2", "9", "9"], ["chr1", "10", "10"]]),
        # two-digit contig ranks: chr3 before chr11 is sorted, chr11 before chr3 is a descent
        _ucase(["#sort.order Coordinate", "#contigs " + ",".join(C.CHR_LONG)], ["Coordinate", C.CHR_LONG],
               [["chr2", "5", "5"], ["chr3", "5", "5"], ["chr9", "1", "1"], ["chr10", "1", "1"], ["chr11", "1", "1"], ["chrX", "1", "1"]]),
        _ucase(["#sort.order Coordinate", "#contigs " + ",".join(C.CHR_LONG)], ["Coordinate", C.CHR_LONG],
               [["chr2", "5", "5"], ["chr11", "5", "5"], ["chr3", "1", "1"]]),
        _tcase(["#sort.order BarcodesAndCoordinate", "#contigs " + ",".join(C.LONG)], ["BarcodesAndCoordinate", C.LONG],
               [dict(chrom="9", start="5", end="5"), dict(chrom="10", start="5", end="5"), dict(chrom="21", start="1", end="1"),
                dict(chrom="X", start="1", end="1")]),
        # the same data read first under another contig list in the same interpreter
        dict(_ucase(["#sort.order Coordinate", "#contigs chr1,chr2,chr10"], ["Coordinate", ["chr1", "chr2", "chr10"]],
                    [["chr1", "9", "9"], ["chr2", "1", "1"], ["chr10", "1", "1"]]), warm=["chr10", "chr2", "chr1"]),
        # wide scheme-less file: key columns right of column index 256 are still keyed
        dict(_ucase(["#sort.order Coordinate"], ["Coordinate", None], [["chr1", "9", "9"], ["chr1", "10", "10"], ["chr1", "2", "2"]]),
             pad=258, names=[n for n, _ in C.pad_cols(258)] + [C.N_CHROM, C.N_START, C.N_END, "Other"]),
        dict(_ucase(["#sort.order BarcodesAndCoordinate"], ["BarcodesAndCoordinate", None],
                    [["9", "chr1", "9"], ["10", "chr1", "1"]], names=(C.N_TUMOR, C.N_CHROM, C.N_START)),
             pad=257, names=[n for n, _ in C.pad_cols(257)] + [C.N_TUMOR, C.N_CHROM, C.N_START, "Other"]),
        # digit-only barcodes under the typed scheme are text: "10" sorts before "9"
        _tcase(["#sort.order BarcodesAndCoordinate"], ["BarcodesAndCoordinate", None],
               [dict(tumor="10", chrom="1", start="5", end="5"), dict(tumor="9", chrom="1", start="5", end="5"), dict(tumor="T1", chrom="1", start="5", end="5")]),
        _tcase(["#sort.order BarcodesAndCoordinate"], ["BarcodesAndCoordinate", None],
               [dict(tumor="9", chrom="1", start="5", end="5"), dict(tumor="10", chrom="1", start="5", end="5")]),
        # the same outcome however the iteration is driven
        dict(_ucase(["#sort.order Coordinate"], ["Coordinate", None], [["chr1", "9", "9"], ["chr1", "10", "10"], ["chr1", "2", "2"]]), iter="dotnext"),
        dict(_ucase(["#sort.order Coordinate"], ["Coordinate", None], [["chr1", "9", "9"], ["chr1", "10", "10"], ["chr1", "2", "2"]]), iter="iter"),
        dict(_ucase(["#sort.order Coordinate"], ["Coordinate", None], [["chr1", "9", "9"], ["chr1", "10", "10"], ["chr1", "2", "2"]]), iter="next"),
        # a record with a validation error in a non-key column still takes part in the order check
        _tcase(["#sort.order Coordinate"], ["Coordinate", None],
               [dict(chrom="1", start="5", end="5"), dict(chrom="1", start="9", end="9"), dict(chrom="1", start="7", end="7", strand="?"),
                dict(chrom="1", start="8", end="8")]),
        _tcase(["#sort.order Coordinate"], ["Coordinate", None],
               [dict(chrom="1", start="5", end="5"), dict(chrom="1", start="9", end="9", vtype="XYZ"), dict(chrom="1", start="7", end="7")]),
        # CRLF lines handed over raw, a key column last: the column line's CR must not end up in the last column name
        dict(_ucase(["#sort.order Coordinate"], ["Coordinate", None], [["chr1", "5", "5"], ["chr1", "5", "9"], ["chr1", "5", "7"]]),
             other="none", names=[C.N_CHROM, C.N_START, C.N_END], eol="\r\n"),
        dict(_ucase(["#sort.order Coordinate", "#contigs chr1,chr2"], ["Coordinate", ["chr1", "chr2"]],
                    [["9", "chr2"], ["1", "chr1"]], names=(C.N_START, C.N_CHROM)),
             other="none", names=[C.N_START, C.N_CHROM], eol="\r\n"),
        # BarcodesAndCoordinate with contigs stays a barcode order
        _ucase(["#sort.order BarcodesAndCoordinate", "#contigs chr1,chr2"], ["BarcodesAndCoordinate", ["chr1", "chr2"]],
               [["T1", "chr2", "5"], ["T2", "chr1", "5"], ["T2", "chr2", "1"]], names=(C.N_TUMOR, C.N_CHROM, C.N_START)),
        _ucase(["#sort.order BarcodesAndCoordinate", "#contigs chr1,chr2"], ["BarcodesAndCoordinate", ["chr1", "chr2"]],
               [["T2", "chr1", "5"], ["T1", "chr2", "5"]], names=(C.N_TUMOR, C.N_CHROM, C.N_START)),
        # falsy values: contigs "0","1" under a typed scheme (chromosome int 0), by name and by contig rank; position 0 untyped
        _tcase(["#sort.order Coordinate"], ["Coordinate", None],
               [dict(chrom="0", start="5", end="5"), dict(chrom="0", start="7", end="7"), dict(chrom="1", start="1", end="1"),
                dict(chrom="X", start="1", end="1")]),
        _tcase(["#sort.order BarcodesAndCoordinate", "#contigs 1,0"], ["BarcodesAndCoordinate", ["1", "0"]],
               [dict(chrom="1", start="5", end="5", normal=""), dict(chrom="0", start="1", end="1", normal=""), dict(chrom="0", start="1", end="2")]),
        _ucase(["#sort.order Coordinate", "#contigs 0,1"], ["Coordinate", ["0", "1"]], [["0", "0", "0"], ["0", "0", "1"], ["1", "0", "0"], ["0", "5", "5"]]),
    ]


def shrink(case):
    rows = case["rows"]
    for i in range(len(rows)):
        yield dict(case, rows=rows[:i] + rows[i + 1:])


# ------------------------------------------------------------ files
def _with_other(case, cols, full=True):
    where = case.get("other", "last")
    if where == "first":
        cols = [["Other", "x"]] + cols
    elif where != "none":
        cols = cols + [["Other", "x"]]
    # wide files: filler columns first (one of them is enough for the model)
    pad = case.get("pad") or 0
    return (C.pad_cols(pad) if full else C.pad_cols(min(pad, 1))) + list(cols)


def _desc(case, d):
    if d["kind"] == "short":
        return {"kind": "untyped", "cols": []}
    if d["kind"] == "untyped":
        return {"kind": "untyped", "cols": _with_other(case, d["cols"], full=False)}
    return d


def _line(case, d):
    if d["kind"] == "short":
        return "\t".join(["x"] * (len(case["names"]) + 1))
    if d["kind"] == "untyped":
        return C.untyped_line(_with_other(case, d["cols"]))
    return C.typed_line(d["f"])


def file_lines(case):
    return list(case["header"]) + ["\t".join(case["names"])] + [_line(case, d) for d in case["rows"]]


def raw_lines(case):
    """the lines as handed to MafReader: bare, or with their LF / CRLF terminator"""
    eol = case.get("eol", "")
    return [l + eol for l in file_lines(case)]


# ------------------------------------------------------------ model wire
def to_model(case):
    return [1, [S(l) for l in case["header"]], [C.m_loc(_desc(case, d)) for d in case["rows"]]]


def from_model(case, sx):
    echo, (n, fin) = sx
    return {"n": n, "end": C.d_unit(fin), "echo": [C.d_echo(e) for e in echo[:n]]}


# ------------------------------------------------------------ implementation
def run_impl(case):
    from maflib.reader import MafReader
    from maflib.validation import ValidationStringency

    if case.get("warm"):
        # the same file under a different contig list is read first (its outcome does not matter)
        hdr = [l for l in case["header"] if not l.startswith("#contigs ")] + ["#contigs " + ",".join(case["warm"])]
        try:
            for _ in MafReader(lines=iter(hdr + raw_lines(case)[len(case["header"]):]),
                               validation_stringency=ValidationStringency.Silent):
                pass
        except Exception:
            pass
    reader = MafReader(lines=iter(raw_lines(case)), validation_stringency=ValidationStringency.Silent)
    echo, end = [], None
    how = case.get("iter", "for")
    try:
        if how == "for":
            for rec in reader:
                echo.append(C.echo_obj(rec))
        else:
            it = iter(reader)                       # the SortOrderEnforcingIterator
            if how == "iter":
                it2 = iter(it)
                if it2 is not it:
                    raise AssertionError("iter() of the enforcing iterator is another object")
                for rec in it2:
                    echo.append(C.echo_obj(rec))
            else:
                while True:
                    try:
                        rec = next(it) if how == "next" else it.next()
                    except StopIteration:
                        break
                    echo.append(C.echo_obj(rec))
    except Exception as e:
        end = C.exc_code(e)
    return {"n": len(echo), "end": end, "echo": echo}


# ------------------------------------------------------------ oracle
def expected(case):
    """(n, end) by the property; None when the case is outside it"""
    order, contigs = case["declared"]
    rows = case["rows"]
    if any(d["kind"] == "short" for d in rows):
        return None
    if order not in ("Coordinate", "BarcodesAndCoordinate"):
        return (len(rows), None)
    by_bar = order == "BarcodesAndCoordinate"
    keys = [C.documented_key(_desc(case, d), by_bar, contigs) for d in rows]
    for i in range(1, len(rows)):
        if keys[i] == "unlisted" or keys[i - 1] == "unlisted":
            return (i, C.EXC["ValueError"])         # reported as an error, not ordered arbitrarily
        if C.documented_cmp(keys[i], keys[i - 1]) < 0:
            return (i, C.EXC["ValueError"])
    return (len(rows), None)


def oracle(case, obs):
    exp = expected(case)
    if exp is None:
        return []
    got = (obs["n"], obs["end"])
    if got == exp:
        return []
    order = case["declared"][0]
    if order not in ("Coordinate", "BarcodesAndCoordinate"):
        return ["rejected-without-declared-order: got %r" % (got,)]
    if exp[1] is None:
        return ["sorted-file-rejected: yielded %d of %d then %r" % (obs["n"], len(case["rows"]), obs["end"])]
    if obs["end"] is None:
        return ["descent-not-detected: expected stop after %d records, read all %d" % (exp[0], obs["n"])]
    if obs["end"] != exp[1]:
        return ["wrong-error-kind: %r after %d records, expected ValueError after %d" % (obs["end"], obs["n"], exp[0])]
    return ["wrong-prefix: stopped after %d records, expected %d" % (obs["n"], exp[0])]


def signature(case, violation):
    return violation.split(":")[0]


def classify(case, obs):
    if obs is None:
        return case["stream"] + "/error"
    order = case["declared"][0]
    o = {"Coordinate": "C", "BarcodesAndCoordinate": "B"}.get(order, "nosort")
    nc = len(case["declared"][1] or [])
    return "%s/%s/%s/contigs=%s%s/%s" % (case["stream"], "typed" if case["typed"] else "untyped", o,
                                      "no" if nc == 0 else ("short" if nc <= 10 else "long"), "+warm" if case.get("warm") else "",
                                      "all" if obs["end"] is None else "stopped")


def nontrivial(case, obs):
    return len(case["rows"]) >= 2 and (case["declared"][0] in ("Coordinate", "BarcodesAndCoordinate") or obs["n"] >= 1)
