"""C02 - Files written by the library read back identically (plain, gzip, handle).

A case is a header (pragma lines, parsed with MafHeader.from_lines), a
stringency and a sequence of records (field texts, built with
MafRecord.from_line under a built-in layout or under explicit scheme-less
column names).  The implementation side writes them through the public API on
all three channels (MafWriter.from_path(path), MafWriter.from_path(path+".gz"),
MafWriter.from_fd(handle)), reads each file back (MafReader.reader_from(path) /
MafReader(lines=handle)) and writes what was read a second time.

Correspondence: the writer session, the bytes of the file, the re-read header /
scheme / records / errors / end of iteration (by path and from the handle) and
the bytes of the second write are compared with the extracted model
(coq/model/FileIO.v on top of the reader cluster's models).

Oracle (independent of the model; the round-trip predicate on the real
library): whenever the writer accepted header and records without a validation
error (and the records are in the declared order when one is declared): the
three channels hold the same bytes; reading back does not raise; the pragmas
are the canonical lines of the kept pragmas (computed by the header spec in
rd_common, not by the library) in order; the column line is the layout's /
the caller's names; the records come back one per record with the same text,
without validation errors, with equal typed values (record.column_values());
the second write is byte-identical."""
import gzip
import io
import os
import random
import shutil

import colgen as G
import colhost as H
import colspec as SP
import rd_common as R
from sexp import S, U

PID = "C02"
CLUSTER = "FileIO"
PROPS = "props/C02.v"
N_QUICK = 420
N_THOROUGH = 6000
RULE = ("header: 0-6 pragma lines from the pragma grammar (version/annotation of one of the 14 built-in layouts, or "
        "none / unknown version / unknown annotation / the no-restrictions pair; sort.order of each kind with rows "
        "supplied in that order, contigs lexical/karyotypic/reversed; unknown keys, inner and trailing blanks, "
        "duplicates, malformed lines), parsed by MafHeader.from_lines; records: 0-4 rows; under a built-in layout "
        "(Strict) every field drawn from the documented domain of its column (null spellings, enum names/values/"
        "case variants, ;-lists, uuid forms, empty last field, all-null rows), scheme-less (Silent) arbitrary text "
        "fields (leading '#', empty trailing fields, blanks, non-ASCII, control characters other than TAB/CR/LF); "
        "streams valid / boundary (no rows, empty header, one column, empty fields everywhere) / defect (one "
        "invalid field, header a Strict writer refuses, rows out of the declared order, Lenient / default "
        "stringency) / adversarial (CR or LF inside a field or pragma value, column names the format cannot carry); "
        "history scenarios on 30% of the cases each: the output paths already hold an earlier MAF and the second write "
        "goes to the same path (overwrite), a MafRecord() without columns handed first to a scheme-less writer; a header object used under another annotation.spec then edited in place; scheme-less layouts of 257/258/300/1000 columns; records built with the column constructors (canonical values, at most one known non-canonical value: str for int, '' for None, 0 for None, [Null] for []) (api); a second writer alive at the same time and fed alternately / abandoned unclosed (sibling), floats needing 16-17 significant digits in 30% of the float cells, cells rendered once with an earlier text and then edited in place by value "
        "assignment or column replacement before the write (stale); all three channels per case; non-trivial = the writer accepted everything and at least one record or one "
        "pragma was written; distinct by hash of the case")
ASSUMPTIONS = [
    "typed column classes (built-in layouts) are represented in the extracted run by an oracle table obtained from "
    "the real classes for exactly the (class, field text) pairs of the case and of its rendered lines: build "
    "ok/failed, custom validation objects, str(column), str/int of the value; the Coq theorems hold for every column "
    "semantics satisfying the stated record_fixpoint hypothesis (property C04)",
    "hypothesis of the theorems: every registered scheme has distinct column names, none containing TAB/CR/LF, the "
    "first not starting with '#' (generated obligation, checked on all_schemes() each run)",
    "host text I/O: open(path,'w') / gzip.open(path,'wt') / the handle receive the concatenation of the write calls "
    "unchanged (newline '\\n', UTF-8); reading by path translates '\\r\\n' and '\\r' to '\\n' (universal newlines) and "
    "iterates '\\n'-terminated lines; io.StringIO does not translate; text contains no lone surrogates",
    "sort-key construction and comparison as in property C08/C09 (the extracted run uses the reader cluster's "
    "concrete key); the scheme registry is read from all_schemes() of the imported library",
    "api-built stream: column values constructed directly (not parsed) are not expressible in the extracted run, whose "
    "records come from MafRecord.from_line; those cases are judged by the oracle only (skip_compare). In the Coq "
    "theorems they are the records outside `typed_by` (a stored value must be one its class builds): "
    "C02_api_built_value_refuted shows the premise is needed",
]
SORTABLE = ("Coordinate", "BarcodesAndCoordinate")
HASH_SIG = "scheme-less-first-column-name-starts-with-hash"
SEP_SIG = "scheme-less-column-name-contains-separator"
ANNOTS = sorted(SP.spec()["layouts"].keys())
N_CHROM, N_START, N_END = "Chromosome", "Start_Position", "End_Position"
N_TUMOR, N_NORMAL = "Tumor_Sample_Barcode", "Matched_Norm_Sample_Barcode"
CHROM_SETS = [["chr1", "chr2", "chrX"], ["1", "2", "10", "X"], ["chr1"], ["chr10", "chr2", "chr1"]]


# ------------------------------------------------------------------ obligations
def carriable_obligation():
    """hypothesis `layout_carriable` of the theorems, on the imported registry"""
    R.ensure_repo()
    bad = []
    for (v, a, nr, cls) in R.registry():
        if nr:
            continue
        names = cls().column_names()
        if (not names or names[0].startswith("#") or len(set(names)) != len(names)
                or any(c in n for n in names for c in "\t\r\n")):
            bad.append(a)
    return ("registered-layouts-are-carriable", not bad,
            "checked %d registry schemes: names distinct, free of TAB/CR/LF, first not starting with '#'; offenders: %r"
            % (len(R.registry()), bad))


def EXTRA_OBLIGATIONS(ctx):
    return [carriable_obligation(), R.schemes_wf_obligation()]


# ------------------------------------------------------------------ case vocabulary
def layout_names(annot):
    return [n for n, _ in SP.layout(annot)["columns"]]


def case_names(case):
    """the column names of the records' lines"""
    return layout_names(case["layout"]) if case["layout"] else list(case["names"])


def specs_of(case):
    if case.get("empty_first") and not case["layout"]:
        rest = specs_of(dict(case, empty_first=False))
        return [{"line": "", "names": [], "scheme": None, "ln": None}] + rest
    if case["layout"]:
        return [{"line": "\t".join(r), "names": None, "scheme": ["builtin", case["layout"]], "ln": None}
                for r in case["rows"]]
    return [{"line": "\t".join(r), "names": list(case["names"]), "scheme": None, "ln": None} for r in case["rows"]]


def header_lines_for(rng, annot, order, contigs, extras, flavour=None):
    hl = []
    if annot is not None:
        hl.append("#version " + SP.layout(annot)["version"])
        if annot != SP.layout(annot)["version"]:
            hl.append("#annotation.spec " + annot)
    elif flavour == "unknown-version":
        hl.append("#version " + rng.choice(R.VERSIONS_BAD))
    elif flavour == "norestr":
        hl += ["#version no-version", "#annotation.spec no-annotation-specification"]
    elif flavour == "unknown-annot":
        hl += ["#version gdc-1.0.0", "#annotation.spec " + rng.choice(R.ANNOTS_BAD)]
    elif flavour == "annot-only":
        hl.append("#annotation.spec " + rng.choice(R.ANNOTS_BAD))
    if order is not None:
        hl.append("#sort.order " + order)
    if contigs is not None:
        hl.append("#contigs " + ",".join(contigs))
    for _ in range(extras):
        key = rng.choice(R.GEN_KEYS)
        hl.append(R.gen_good_line(rng, key))
    rng.shuffle(hl)
    return hl


PLAIN_TEXTS = ["x", "", "a b", " lead", "trail ", "#", "#x", "# pragma like", "é中", "0", "None", "1e5", "a;b", ";", "-",
               "\x0b", "\x1c", " ", "\x00", "\U0001F600", "a\x85b", "  ", "=", "'q'", "\"d\""]
PLAIN_NAMESETS = [
    ["a", "b"], ["a"], ["c1", "c2", "c3", "c4"], ["Hugo_Symbol", "Chromosome", "Start_Position"],
    ["x", "#y"], ["a#b", "c"], ["x#"], [" #lead", "z"], ["a b", " c", "d "], ["é", "中"], ["", "b"], ["a", ""], [""], ["Chromosome", "x"],
    [N_CHROM, N_START, N_END], [N_TUMOR, N_NORMAL, N_CHROM, N_START, N_END, "Other"],
    ["n" + str(i) for i in range(12)],
]
WIDE = [257, 258, 300, 1000]          # int objects above 256 are not shared: identity comparisons of indexes break there



def order_rows(rng, names, rows, order, contigs, typed):
    """overwrite the key columns so that the rows are in the declared order"""
    if order not in SORTABLE or not rows:
        return rows
    idx = {n: i for i, n in enumerate(names)}
    if N_CHROM not in idx and N_START not in idx:
        return rows
    chroms = list(contigs) if contigs else sorted(rng.choice(CHROM_SETS))
    ci, pos = 0, rng.choice([1, 5, 90])
    out = []
    for r in rows:
        r = list(r)
        if rng.random() < 0.4 and ci + 1 < len(chroms):
            ci += 1
            pos = rng.choice([1, 7])
        pos += rng.choice([0, 1, 9, 95])
        if N_CHROM in idx:
            r[idx[N_CHROM]] = chroms[ci]
        if N_START in idx:
            r[idx[N_START]] = str(pos)
        if N_END in idx:
            r[idx[N_END]] = str(pos + rng.choice([0, 0, 3]))
        if N_TUMOR in idx:
            r[idx[N_TUMOR]] = "T1"
        if N_NORMAL in idx:
            r[idx[N_NORMAL]] = "N1"
        out.append(r)
    return out


LONG_FLOATS = [repr(1 / 3), repr(0.1 + 0.2), repr(2 / 3), repr(1.1 * 1.1), repr(1e-17 / 3), repr(123456789.12345678),
               "1.2345678901234567", "0.30000000000000004", "9007199254740993", repr(5e-324), repr(1.7976931348623157e308),
               "0.1", repr(100 / 7)]


def gen_scheme_case(rng, stream):
    annot = rng.choice(ANNOTS)
    cols = SP.layout(annot)["columns"]
    n = rng.choice([0, 1, 2, 3, 4]) if stream != "boundary" else rng.choice([0, 1])
    rows = []
    for _ in range(n):
        row = [G.valid_text(rng, d) for _, d in cols]
        r = rng.random()
        if r < 0.35 and "" in SP.null_keys(cols[-1][1]):
            row[-1] = ""                                   # empty last field
        if r < 0.12 or (stream == "boundary" and r < 0.6):
            for i, (_, d) in enumerate(cols):              # every nullable column null
                if "" in SP.null_keys(d):
                    row[i] = ""
        for i, (_, d) in enumerate(cols):                  # floats that need 16-17 significant digits
            if d["k"] == "float" and row[i] != "" and rng.random() < 0.3:
                row[i] = rng.choice(LONG_FLOATS)
        rows.append(row)
    order = rng.choice([None, None, "Coordinate", "BarcodesAndCoordinate", "Unsorted", "Unknown"])
    contigs = None
    if order in SORTABLE and rng.random() < 0.6:
        contigs = list(rng.choice(CHROM_SETS))
        if rng.random() < 0.3:
            contigs.reverse()
    elif rng.random() < 0.1:
        contigs = list(rng.choice(CHROM_SETS))
    names = [nm for nm, _ in cols]
    rows = order_rows(rng, names, rows, order, contigs, True)
    extras = rng.choice([0, 0, 1, 2, 3])
    if stream == "boundary":
        extras = 0
    return {"stream": stream, "hlines": header_lines_for(rng, annot, order, contigs, extras), "mode": "Strict",
            "layout": annot, "names": None, "rows": rows}


def gen_plain_case(rng, stream):
    flavour = rng.choice(["none", "none", "unknown-version", "norestr", "unknown-annot", "annot-only"])
    order = rng.choice([None, None, None, "Coordinate", "BarcodesAndCoordinate", "Unsorted", "Unknown"])
    names = list(rng.choice(PLAIN_NAMESETS))
    if rng.random() < 0.06:
        names = ["w%d" % i for i in range(rng.choice(WIDE[:3] if rng.random() < 0.85 else WIDE))]
    if order in SORTABLE and rng.random() < 0.7:
        names = list(rng.choice(PLAIN_NAMESETS[-3:-1]))
    contigs = None
    if order in SORTABLE and rng.random() < 0.6:
        contigs = list(rng.choice(CHROM_SETS))
        if rng.random() < 0.3:
            contigs.reverse()
    n = rng.choice([0, 1, 2, 3, 4]) if stream != "boundary" else rng.choice([0, 1, 1])
    rows = []
    for _ in range(n):
        row = [rng.choice(PLAIN_TEXTS) for _ in names]
        if rng.random() < 0.3:
            row[-1] = ""
        if rng.random() < 0.2:
            row[0] = rng.choice(["#", "#version gdc-1.0.0", "#x y"])
        if stream == "boundary" and rng.random() < 0.5:
            row = ["" for _ in names]
        rows.append(row)
    rows = order_rows(rng, names, rows, order, contigs, False)
    extras = rng.choice([0, 0, 1, 2, 3])
    if stream == "boundary":
        extras, flavour = 0, rng.choice(["none", "none", "norestr"])
        if rng.random() < 0.5:
            order, contigs = None, None
    return {"stream": stream, "hlines": header_lines_for(rng, None, order, contigs, extras, flavour), "mode": "Silent",
            "layout": None, "names": names, "rows": rows}


def apply_defect(rng, case):
    case = dict(case, rows=[list(r) for r in case["rows"]], hlines=list(case["hlines"]))
    kinds = ["field", "mode", "order", "header"]
    k = rng.choice(kinds)
    if k == "field" and case["rows"]:
        i = rng.randrange(len(case["rows"]))
        j = rng.randrange(len(case["rows"][i]))
        if case["layout"]:
            d = SP.layout(case["layout"])["columns"][j][1]
            case["rows"][i][j] = G.some_text(rng, d, rng.choice(["defect", "boundary"])).replace("\t", " ").replace(
                "\n", " ").replace("\r", " ")
        else:
            case["rows"][i][j] = rng.choice(["a\rb", "x\r", "\rx"])
        case["defect"] = "field"
    elif k == "order" and len(case["rows"]) >= 2:
        case["rows"].reverse()
        case["defect"] = "order"
    elif k == "header":
        if case["layout"]:
            case["hlines"] = [l for l in case["hlines"] if not l.startswith("#version")] if rng.random() < 0.5 else \
                case["hlines"] + ["#annotation.spec junk"]
        else:
            case["mode"] = "Strict"
        case["defect"] = "header"
    else:
        case["mode"] = rng.choice(["Lenient", None, "Silent", "Strict"])
        case["defect"] = "mode"
    return case


def apply_adversarial(rng, case):
    case = dict(case, rows=[list(r) for r in case["rows"]], hlines=list(case["hlines"]))
    k = rng.choice(["hdr-cr", "field-cr", "field-lf", "name-blank", "hdr-late-hash", "mode"])
    if k == "hdr-cr":
        case["hlines"].append("#note a" + rng.choice(["\r", "\n", "\r\n"]) + "b")
    elif k in ("field-cr", "field-lf") and case["rows"] and not case["layout"]:
        i = rng.randrange(len(case["rows"]))
        j = rng.randrange(len(case["rows"][i]))
        case["rows"][i][j] = "p" + ("\r" if k == "field-cr" else "\n") + "q"
    elif k == "name-blank" and not case["layout"]:
        case["names"] = [n + rng.choice([" ", "\x0b", " "]) for n in case["names"]]
    elif k == "hdr-late-hash" and case["rows"]:
        case["rows"][0][0] = "#sort.order Coordinate" if not case["layout"] else case["rows"][0][0]
    else:
        case["mode"] = rng.choice(["Lenient", None])
    case["adv"] = k
    return case


def generate(rng, n):
    out = []
    for annot in ANNOTS:                       # every built-in layout at least once per run
        c = gen_scheme_case(random.Random(rng.random()), "valid")
        cols = SP.layout(annot)["columns"]
        r2 = random.Random(rng.random())
        rows = [[G.valid_text(r2, d) for _, d in cols] for _ in range(2)]
        out.append({"stream": "valid", "hlines": header_lines_for(r2, annot, None, None, 1), "mode": "Strict",
                    "layout": annot, "names": None, "rows": rows})
    while len(out) < n:
        stream = rng.choice(["valid", "valid", "valid", "boundary", "defect", "adversarial"])
        base = "valid" if stream in ("defect", "adversarial") else stream
        c = gen_scheme_case(rng, base) if rng.random() < 0.5 else gen_plain_case(rng, base)
        if stream == "defect":
            c = apply_defect(rng, c)
        elif stream == "adversarial":
            c = apply_adversarial(rng, c)
        c["stream"] = stream
        add_scenarios(rng, c)
        out.append(c)
    return out[:max(n, 1)]


def header_edit_for(rng, case):
    """the header object starts out as `pre` (used once: scheme() asked, validated), then its annotation.spec
    record is replaced or deleted in place so that it becomes the header of case["hlines"]"""
    hl = case["hlines"]
    idx = [i for i, l in enumerate(hl) if l.startswith("#annotation.spec ")]
    kept, _ = R.spec_header(hl)
    keys = [k for (_, k, _) in kept]
    if len(idx) == 1 and keys.count("annotation.spec") == 1 and hl[idx[0]].rstrip() == hl[idx[0]]:
        other = rng.choice([a for a in ANNOTS if a != "gdc-1.0.0" and ("#annotation.spec " + a) != hl[idx[0]]])
        pre = list(hl)
        pre[idx[0]] = "#annotation.spec " + other
        return {"how": "replace", "pre": pre, "value": hl[idx[0]][len("#annotation.spec "):]}
    if not idx and "annotation.spec" not in keys:
        return {"how": "delete", "pre": list(hl) + ["#annotation.spec " + rng.choice([a for a in ANNOTS if a != "gdc-1.0.0"])]}
    return None


NONCANON = {
    # kind -> (does the documented domain of the column fit, the field text the row gets)
    "str-int": (lambda d: d["k"] == "textorint", lambda rng: rng.choice(["01", "+1", " 7", "1_0", "007"])),
    "empty-str": (lambda d: d["k"] == "text" and d.get("null") == "", lambda rng: ""),
    "int-zero": (lambda d: d["k"] == "entrez", lambda rng: "0"),
    "single-null": (lambda d: d["k"] == "seq" and d["elem"].get("k") == "enum" and bool(d["elem"].get("nulls")),
                    lambda rng: ""),
}


def api_plan(rng, case):
    """records built with the column constructors: canonical values everywhere (what parsing the row text gives),
    except at most one cell holding a value a constructor accepts but parsing never produces:
      str-int      StringOrIntegerColumn holding the str '01' (parsing gives the int 1)
      empty-str    NullableStringColumn holding '' (parsing gives None)
      int-zero     EntrezGeneId holding the int 0 (parsing gives None)
      single-null  SequenceOfNullableYesOrNo holding [Null] (parsing '' gives [])"""
    plan = {"noncanon": None}
    if rng.random() < 0.5:
        cols = SP.layout(case["layout"])["columns"]
        kind = rng.choice(sorted(NONCANON))
        fits, text = NONCANON[kind]
        js = [j for j, (n, d) in enumerate(cols) if fits(d) and n not in (N_CHROM, N_START, N_END, N_TUMOR, N_NORMAL)]
        if kind == "str-int":
            js = [j for j, (n, d) in enumerate(cols) if fits(d)]
        _, order, _ = _declared(case)
        if js and not (kind == "str-int" and order in SORTABLE):
            i, j = rng.randrange(len(case["rows"])), rng.choice(js)
            if len(case["rows"][i]) == len(cols):
                case["rows"][i][j] = text(rng)
                plan["noncanon"] = [i, j, kind]
    return plan


def add_scenarios(rng, case):
    """history-dependent scenarios on top of a case (the model sees only the final rows):
    overwrite - the output paths already hold an earlier MAF written by the library, and the second write of the
                round trip goes to the same path again;
    sibling   - a second writer on another path / handle is alive during the first write: "first" / "last": fed
                alternately and closed before / after the writer under test; "abandon": fed before it is created and
                never closed;
    empty_first - a MafRecord() without columns is handed to the scheme-less writer first (refused with ValueError);
    hdr_edit  - the header object was used under another annotation.spec, whose record is then replaced / deleted;
    api       - the records are built with the column constructors (see api_plan);
    stale     - [[row, column, earlier text, how]]: the record is first built with the earlier text in that cell and
                rendered (str(record)), then the cell is edited in place to its final text ("value": assign
                column.value; "replace": record[name] = a new column) before it is handed to the writer"""
    if rng.random() < 0.3:
        case["overwrite"] = True
    if case["rows"] and rng.random() < 0.3:
        case["sibling"] = rng.choice(["first", "last", "abandon"])
    if not case["layout"] and rng.random() < 0.12:
        case["empty_first"] = True
    if rng.random() < 0.15:
        e = header_edit_for(rng, case)
        if e:
            case["hdr_edit"] = e
    if case["layout"] and case["rows"] and not case.get("stale") and rng.random() < 0.25:
        case["api"] = api_plan(rng, case)
    if case["rows"] and rng.random() < 0.3:
        names = case_names(case)
        cols = SP.layout(case["layout"])["columns"] if case["layout"] else None
        stale = []
        for _ in range(rng.choice([1, 1, 2, 3])):
            i = rng.randrange(len(case["rows"]))
            if len(case["rows"][i]) != len(names):
                continue
            j = rng.randrange(len(names))
            if names.count(names[j]) != 1:
                continue
            old = G.valid_text(rng, cols[j][1]) if cols else rng.choice(PLAIN_TEXTS)
            if any(ch in old for ch in "\t\r\n") or any(e[0] == i and e[1] == j for e in stale):
                continue
            stale.append([i, j, old, rng.choice(["value", "value", "replace"])])
        if stale:
            case["stale"] = stale


def _typed_rows():
    """three valid gdc-1.0.0 lines (the SortOrder cluster's template) in karyotypic order, empty last field"""
    import so_common as C
    rows = []
    for chrom, start in (("2", "7"), ("10", "5"), ("10", "100")):
        f = C.typed_line({"chrom": chrom, "start": start, "end": start}).split("\t")
        f[-1] = ""
        rows.append(f)
    return rows


def _long_float_row():
    cols = SP.layout("gdc-1.0.0-protected")["columns"]
    rng = random.Random(11)
    row = []
    k = 0
    for n, d in cols:
        t = G.valid_text(rng, d)
        if d["k"] == "seq" and d["elem"].get("k") == "enum":
            t = ""
        if d["k"] == "float":
            t = LONG_FLOATS[k % 4]
            k += 1
        row.append(t)
    return row


def _single_null_row():
    cols = SP.layout("gdc-1.0.0-protected")["columns"]
    rng = random.Random(7)
    row = []
    for n, d in cols:
        t = G.valid_text(rng, d)
        if d["k"] == "seq" and d["elem"].get("k") == "enum":
            t = "Null" if n == "SOMATIC" else ""
        row.append(t)
    return row


def _with(row, j, text):
    row = list(row)
    row[j] = text
    return row


def corpus():
    return [
        # repaired defect (regress seed C02-uncarriable-names): a scheme-less first column name starting with '#' was
        # written and read back as a pragma; the writer now refuses it with ValueError (nothing to round-trip)
        {"stream": "corpus", "hlines": [], "mode": "Silent", "layout": None, "names": ["#x", "y"], "rows": [["1", "2"]]},
        # a data field starting with '#' is harmless
        {"stream": "corpus", "hlines": ["#k v"], "mode": "Silent", "layout": None, "names": ["x", "y"],
         "rows": [["#1", "2"], ["#version gdc-1.0.0", ""]]},
        # empty trailing fields, no header at all
        {"stream": "corpus", "hlines": [], "mode": "Silent", "layout": None, "names": ["a", "b", "c"],
         "rows": [["1", "", ""], ["", "", ""]]},
        # basic layout, empty last field (nullable uuid), declared order with karyotypic contigs, blanks in a value
        {"stream": "corpus", "hlines": ["#version gdc-1.0.0", "#sort.order Coordinate", "#contigs 1,2,10,X",
                                        "#center  a  b  "],
         "mode": "Strict", "layout": "gdc-1.0.0", "names": None, "rows": _typed_rows()},
        # a path that already holds an earlier MAF is overwritten, not appended to (plain and .gz)
        {"stream": "corpus", "hlines": ["#version gdc-1.0.0", "#k v"], "mode": "Strict", "layout": "gdc-1.0.0",
         "names": None, "rows": _typed_rows()[:2], "overwrite": True},
        {"stream": "corpus", "hlines": ["#k v"], "mode": "Silent", "layout": None, "names": ["a", "b"],
         "rows": [["1", ""]], "overwrite": True},
        # repaired defect (regress seed C06-empty-first-record): a first record without columns is refused
        {"stream": "corpus", "hlines": [], "mode": "Silent", "layout": None, "names": ["a", "b"],
         "rows": [["1", "2"], ["3", "4"]], "empty_first": True},
        # more than 256 columns without a scheme
        {"stream": "corpus", "hlines": [], "mode": "Silent", "layout": None, "names": ["w%d" % i for i in range(258)],
         "rows": [[str(i) for i in range(258)]]},
        {"stream": "corpus", "hlines": ["#k v"], "mode": "Silent", "layout": None, "names": ["w%d" % i for i in range(1000)],
         "rows": [["" if i % 7 == 0 else "v%d" % i for i in range(1000)]]},
        # a header used under another annotation, whose pragma is then replaced / deleted in place
        {"stream": "corpus", "hlines": ["#version gdc-1.0.0", "#annotation.spec gdc-1.0.0-public"], "mode": "Strict",
         "layout": "gdc-1.0.0-public", "names": None, "rows": [],
         "hdr_edit": {"how": "replace", "pre": ["#version gdc-1.0.0", "#annotation.spec gdc-1.0.0-protected"],
                      "value": "gdc-1.0.0-public"}},
        {"stream": "corpus", "hlines": ["#version gdc-1.0.0"], "mode": "Strict", "layout": "gdc-1.0.0", "names": None,
         "rows": _typed_rows()[:1],
         "hdr_edit": {"how": "delete", "pre": ["#version gdc-1.0.0", "#annotation.spec gdc-1.0.0-protected"]}},
        {"stream": "corpus", "hlines": ["#k v"], "mode": "Silent", "layout": None, "names": ["a"], "rows": [],
         "hdr_edit": {"how": "delete", "pre": ["#k v", "#annotation.spec gdc-1.0.0-public"]}},
        # records built with the column constructors: canonical values round-trip ...
        {"stream": "corpus", "hlines": ["#version gdc-1.0.0"], "mode": "Strict", "layout": "gdc-1.0.0", "names": None,
         "rows": _typed_rows()[:2], "api": {"noncanon": None}},
        # ... known findings: a Strict writer accepts constructor-given values that parsing their rendering never gives
        {"stream": "corpus", "hlines": ["#version gdc-1.0.0"], "mode": "Strict", "layout": "gdc-1.0.0", "names": None,
         "rows": [_with(_typed_rows()[0], 4, "01")], "api": {"noncanon": [0, 4, "str-int"]}},
        {"stream": "corpus", "hlines": ["#version gdc-1.0.0"], "mode": "Strict", "layout": "gdc-1.0.0", "names": None,
         "rows": [_with(_typed_rows()[0], 30, "")], "api": {"noncanon": [0, 30, "empty-str"]}},
        {"stream": "corpus", "hlines": ["#version gdc-1.0.0"], "mode": "Strict", "layout": "gdc-1.0.0", "names": None,
         "rows": [_with(_typed_rows()[0], 1, "0")], "api": {"noncanon": [0, 1, "int-zero"]}},
        {"stream": "corpus", "hlines": ["#version gdc-1.0.0", "#annotation.spec gdc-1.0.0-protected"], "mode": "Strict",
         "layout": "gdc-1.0.0-protected", "names": None,
         "rows": [_with(_single_null_row(), layout_names("gdc-1.0.0-protected").index("SOMATIC"), "")],
         "api": {"noncanon": [0, layout_names("gdc-1.0.0-protected").index("SOMATIC"), "single-null"]}},
        # two writers alive at once, fed alternately: each file holds its own records only
        {"stream": "corpus", "hlines": ["#k v"], "mode": "Silent", "layout": None, "names": ["a", "b"],
         "rows": [["1", "2"], ["3", ""]], "sibling": "last"},
        {"stream": "corpus", "hlines": ["#version gdc-1.0.0"], "mode": "Strict", "layout": "gdc-1.0.0", "names": None,
         "rows": _typed_rows()[:2], "sibling": "abandon"},
        # non-ASCII text in a pragma and in free-text columns, on all three channels
        {"stream": "corpus", "hlines": ["#center Universit\u00e9 \u4e2d\u6587", "#\u00e9 \u00fc"], "mode": "Silent", "layout": None,
         "names": ["g\u00e8ne", "b"], "rows": [["\u00e9\u4e2d", "\U0001F600"], ["", "\u00df"]]},
        # a float that needs 17 significant digits keeps its value
        {"stream": "corpus", "hlines": ["#version gdc-1.0.0", "#annotation.spec gdc-1.0.0-protected"], "mode": "Strict",
         "layout": "gdc-1.0.0-protected", "names": None, "rows": [_long_float_row()]},
        # a record rendered once and then edited in place is written as it is when handed to the writer
        {"stream": "corpus", "hlines": ["#version gdc-1.0.0"], "mode": "Strict", "layout": "gdc-1.0.0", "names": None,
         "rows": _typed_rows()[:2], "stale": [[0, 0, "KRAS", "value"], [1, 5, "3", "replace"], [1, 13, "rs1;rs2", "value"]]},
        {"stream": "corpus", "hlines": [], "mode": "Silent", "layout": None, "names": ["a", "b"],
         "rows": [["new", ""], ["x", "y"]], "stale": [[0, 0, "old", "value"], [1, 1, "", "replace"]]},
        # repaired defect (same seed): scheme-less column names containing a separator; refused by the writer now
        {"stream": "corpus", "hlines": [], "mode": "Silent", "layout": None, "names": ["a\tb", "c"], "rows": [["1", "2"]]},
        # known finding: a one-element list holding the null member renders '' and comes back as the empty list
        {"stream": "corpus", "hlines": ["#version gdc-1.0.0", "#annotation.spec gdc-1.0.0-protected"], "mode": "Strict",
         "layout": "gdc-1.0.0-protected", "names": None, "rows": [_single_null_row()]},
    ]


def _restale(case, drop_row=None, drop_col=None):
    out = []
    for (i, j, old, how) in case.get("stale", []):
        if i == drop_row or j == drop_col:
            continue
        out.append([i - (1 if drop_row is not None and i > drop_row else 0),
                    j - (1 if drop_col is not None and j > drop_col else 0), old, how])
    return out


def _reapi(case, drop_row):
    a = case.get("api")
    if not a or not a.get("noncanon"):
        return a
    i, j, kind = a["noncanon"]
    if i == drop_row:
        return {"noncanon": None}
    return {"noncanon": [i - (1 if i > drop_row else 0), j, kind]}


def shrink(case):
    if case.get("overwrite"):
        yield dict(case, overwrite=False)
    if case.get("sibling"):
        yield dict(case, sibling=None)
    if case.get("hdr_edit"):
        yield dict(case, hdr_edit=None)
    if case.get("empty_first"):
        yield dict(case, empty_first=False)
    st = case.get("stale", [])
    for k in range(len(st)):
        yield dict(case, stale=st[:k] + st[k + 1:])
    rows = case["rows"]
    for i in range(len(rows)):
        yield dict(case, rows=rows[:i] + rows[i + 1:], stale=_restale(case, drop_row=i), api=_reapi(case, i))
    hl = case["hlines"]
    for i in range(len(hl)):
        yield dict(case, hlines=hl[:i] + hl[i + 1:])
    if not case["layout"]:
        names = case["names"]
        if len(names) > 1:
            for j in range(len(names)):
                yield dict(case, names=names[:j] + names[j + 1:], rows=[r[:j] + r[j + 1:] for r in rows],
                           stale=_restale(case, drop_col=j))
        for i, r in enumerate(rows):
            for j, f in enumerate(r):
                if f not in ("", "x"):
                    yield dict(case, rows=rows[:i] + [r[:j] + ["x"] + r[j + 1:]] + rows[i + 1:])
    else:
        cols = SP.layout(case["layout"])["columns"]
        rng = random.Random(1)
        for i, r in enumerate(rows):
            for j, f in enumerate(r):
                if j < len(cols):
                    v = SP.preferred_null(cols[j][1])
                    if v is None:
                        v = G.valid_text(rng, cols[j][1])
                    if v != f and cols[j][0] not in (N_CHROM, N_START, N_END):
                        yield dict(case, rows=rows[:i] + [r[:j] + [v] + r[j + 1:]] + rows[i + 1:])


# ------------------------------------------------------------------ implementation side
_COUNTER = [0]


class _KeepIO(io.StringIO):
    """a caller's handle whose content survives MafWriter.close()"""

    def close(self):
        self.kept = self.getvalue()
        super().close()


def _workdir():
    _COUNTER[0] += 1
    d = "/verif/work/c02_%d_%d_%s" % (os.getpid(), _COUNTER[0], "%08x" % random.getrandbits(32))
    os.makedirs(d)
    return d


def _build_inputs(case):
    from maflib.header import MafHeader
    from maflib.record import MafRecord
    h = _build_header(case)
    specs = specs_of(dict(case, empty_first=False))
    recs = [MafRecord.from_line(validation_stringency=R.py_mode("Silent"), **R._recspec_args(s)) for s in specs]
    names = case_names(case)
    stale = [e for e in case.get("stale", []) if e[0] < len(case["rows"]) and e[1] < len(names)
             and len(case["rows"][e[0]]) == len(names)]
    for i in sorted({e[0] for e in stale}):
        edits = [e for e in stale if e[0] == i]
        row = list(case["rows"][i])
        for (_, j, old, _how) in edits:
            row[j] = old
        r = MafRecord.from_line(validation_stringency=R.py_mode("Silent"), **R._recspec_args(dict(specs[i], line="\t".join(row))))
        if r.validation_errors or len(r) != len(names):
            continue                     # the earlier text does not build: keep the record built from the final row
        str(r)                           # rendered once before the edit
        ok = True
        for (_, j, _old, how) in edits:
            fresh = recs[i][names[j]] if names[j] in recs[i] else None
            if fresh is None:
                ok = False
                break
            if how == "replace":
                r[names[j]] = type(fresh)(key=names[j], value=fresh.value, column_index=j)
            else:
                r[names[j]].value = fresh.value
        if ok:
            recs[i] = r
    if case.get("api") and case["layout"]:
        recs = [_api_record(r, names, (case["api"].get("noncanon") if case["api"].get("noncanon") and
                                         case["api"]["noncanon"][0] == i else None), case["rows"][i])
                for i, r in enumerate(recs)]
    if case.get("empty_first") and not case["layout"]:
        recs = [MafRecord()] + recs
    return h, recs


def _build_header(case):
    from maflib.header import MafHeader, MafHeaderAnnotationSpecRecord
    from maflib.writer import MafWriter
    e = case.get("hdr_edit")
    if e:
        h = MafHeader.from_lines(list(e["pre"]), validation_stringency=R.py_mode("Silent"))
        if "annotation.spec" in h:
            h.scheme()                                   # used once under the earlier pragma
            try:
                MafWriter.from_fd(io.StringIO(), header=h, validation_stringency=R.py_mode("Silent")).close()
            except Exception:  # noqa
                pass
            if e["how"] == "replace":
                h["annotation.spec"] = MafHeaderAnnotationSpecRecord(value=e["value"])
            else:
                del h["annotation.spec"]
            return h
    return MafHeader.from_lines(list(case["hlines"]), validation_stringency=R.py_mode("Silent"))


def _class_family(c):
    return [k.__name__ for k in type(c).__mro__]


def _api_record(parsed, names, noncanon, row):
    """the same record built with the column constructors (values as parsed; one cell possibly non-canonical)"""
    from maflib.record import MafRecord
    if parsed.validation_errors or len(parsed) != len(names) or any(parsed[j] is None for j in range(len(names))):
        return parsed
    r = MafRecord()
    for j, n in enumerate(names):
        c = parsed[j]
        v = c.value
        if noncanon is not None and noncanon[1] == j:
            fam, kind = _class_family(c), noncanon[2]
            if kind == "str-int" and "StringOrIntegerColumn" in fam:
                v = row[j]
            elif kind == "empty-str" and "NullableStringColumn" in fam and "RequireNullValue" not in fam:
                v = ""
            elif kind == "int-zero" and "EntrezGeneId" in fam:
                v = 0
            elif kind == "single-null" and "SequenceOfNullableYesOrNo" in fam:
                from maflib.column_values import NullableYesOrNoEnum
                v = [NullableYesOrNoEnum.Null]
        r[n] = type(c)(key=n, value=v, column_index=j)
    return r


def _column_text(r):
    """the record's line from its columns, not from MafRecord.__str__"""
    return "\t".join(str(c) for c in r.values())


def _open_writer(channel, path, header, mode):
    from maflib.writer import MafWriter
    if channel == "handle":
        handle = _KeepIO()
        return MafWriter.from_fd(handle, header=header, validation_stringency=R.py_mode(mode)), handle
    return MafWriter.from_path(path, header=header, validation_stringency=R.py_mode(mode)), None


def _write(channel, path, header, recs, mode, cap, sibling=None):
    """one writer session; returns (session observation, text or None).
    sibling = (how, path, header, records): a second writer (Silent) on another path / handle is alive at the same
    time; how = "abandon": it got its records before this writer was created and is never closed; "first" / "last":
    it is fed alternately with this writer and closed before / after it"""
    sib, srecs, how = None, [], None
    if sibling is not None:
        how, spath, sheader, srecs = sibling
        try:
            sib, _ = _open_writer(channel, spath, sheader, "Silent")
        except Exception:  # noqa
            sib = None
        if sib is not None and how == "abandon":
            for sr in srecs:
                try:
                    sib += sr
                except Exception:  # noqa
                    pass
            srecs = []
        cap.take()
    try:
        w, handle = _open_writer(channel, path, header, mode)
    except Exception as e:  # noqa
        return {"log": cap.take(), "init": ["exc", R.c_exn(e)], "adds": []}, None
    sess = {"log": cap.take(), "init": ["ok", R.c_errs(header.validation_errors)], "adds": []}
    srecs = list(srecs)
    for r in recs:
        if sib is not None and srecs:
            try:
                sib += srecs.pop(0)
            except Exception:  # noqa
                pass
            cap.take()
        try:
            w += r
            res = ["ok", R.c_errs(r.validation_errors)]
        except Exception as e:  # noqa
            res = ["exc", R.c_exn(e)]
        sess["adds"].append({"log": cap.take(), "res": res})
    if sib is not None and how == "first":
        try:
            sib.close()
        except Exception:  # noqa
            pass
    w.close()
    if sib is not None and how == "last":
        try:
            sib.close()
        except Exception:  # noqa
            pass
    cap.take()
    if channel == "handle":
        data = handle.kept.encode("utf-8")
    elif channel == "gz":
        data = gzip.decompress(open(path, "rb").read())
    else:
        data = open(path, "rb").read()
    return sess, data.decode("utf-8")


def _read(channel, path, text, mode, cap, nlines):
    """open a reader on what was written and iterate it; returns (observation, header, records, typed values)"""
    from maflib.reader import MafReader
    out = {"init": None, "recs": [], "end": None, "errs": None}
    try:
        if channel == "handle":
            src = io.StringIO(text)
            rd = MafReader(lines=src, closeable=src, validation_stringency=R.py_mode(mode))
        else:
            rd = MafReader.reader_from(path, validation_stringency=R.py_mode(mode))
    except Exception as e:  # noqa
        out["init"] = ["exc", R.c_exn(e)]
        out["end"] = R.c_exn(e)
        out["errs"] = []
        out["log"] = cap.take()
        return out, None, [], []
    sch = rd.scheme()
    out["init"] = ["ok", {"header": R.c_header(rd.header()),
                          "scheme": (None if sch is None else R.c_scheme_id(sch) + [sch.column_names()]),
                          "errs": R.c_errs(rd.validation_errors)}]
    it = iter(rd)
    recs, values = [], []
    n = 0
    while n < nlines + 5:
        n += 1
        try:
            r = next(it)
        except StopIteration:
            break
        except Exception as e:  # noqa
            out["end"] = R.c_exn(e)
            break
        out["recs"].append(R.c_record(r))
        recs.append(r)
        values.append([H.enc_value(v) for v in r.column_values()])
    else:
        out["end"] = ["DidNotTerminate"]
    out["errs"] = R.c_errs(rd.validation_errors)
    out["log"] = cap.take()
    hdr = rd.header()
    rd.close()
    return out, hdr, recs, values


def _channel(case, channel, wd):
    mode = case["mode"]
    ext = ".maf.gz" if channel == "gz" else ".maf"
    p1, p2 = os.path.join(wd, channel + "1" + ext), os.path.join(wd, channel + "2" + ext)
    h, recs = _build_inputs(case)
    orig = {"texts": [], "values": [[H.enc_value(v) for v in r.column_values()] for r in recs],
            "classes": [[(type(c).__name__ if c is not None else None) for c in r.values()] for r in recs],
            "parse_errs": [R.c_errs(r.validation_errors) for r in recs]}
    for r in recs:
        try:
            orig["texts"].append(_column_text(r))
        except Exception:  # noqa
            orig["texts"].append(None)
    if case.get("overwrite") and channel != "handle":
        p2 = p1                                        # the second write goes to the same path again
        try:                                           # an earlier MAF at the same path
            h0, recs0 = _build_inputs(dict(case, stale=[]))
            with R.LogCapture() as cap0:
                _write(channel, p1, h0, recs0[:1], "Silent", cap0)
        except Exception:  # noqa
            pass
    sibling = None
    if case.get("sibling"):
        try:
            hs, recs_s = _build_inputs(dict(case, stale=[]))
            recs_s.reverse()
            sibling = (case["sibling"], os.path.join(wd, channel + "s" + ext), hs, recs_s)
        except Exception:  # noqa
            sibling = None
    with R.LogCapture() as cap:
        first, text = _write(channel, p1, h, recs, mode, cap, sibling)
        res = {"first": first, "text": text, "read": None, "second": None, "values": None}
        if text is not None:
            rd_obs, hdr2, recs2, values = _read(channel, p1, text, mode, cap, text.count("\n") + 1)
            res["read"] = rd_obs
            res["values"] = values
            if hdr2 is not None:
                s2, t2 = _write(channel, p2, hdr2, recs2, mode, cap)
                res["second"] = {"session": s2, "text": t2}
    return res, orig


def run_impl(case):
    R.ensure_repo()
    wd = _workdir()
    try:
        obs = {}
        for ch in ("plain", "gz", "handle"):
            obs[ch], orig = _channel(case, ch, wd)
        obs["orig"] = orig
        return obs
    finally:
        shutil.rmtree(wd, ignore_errors=True)


def comparable(obs):
    p, hd = obs["plain"], obs["handle"]
    return {"first": p["first"], "text": p["text"],
            "path": (None if p["text"] is None else {"read": p["read"], "second": p["second"]}),
            "handle": (None if hd["text"] is None else {"read": hd["read"], "second": hd["second"]})}


# ------------------------------------------------------------------ model side
def _rendered(spec):
    """str() of the record the library builds from the line (None when it cannot)"""
    from maflib.record import MafRecord
    try:
        return str(MafRecord.from_line(validation_stringency=R.py_mode("Silent"), **R._recspec_args(spec)))
    except Exception:  # noqa
        return None


def to_model(case):
    R.ensure_repo()
    ids = R.Ids()
    reg, reach = R.m_registry(case["hlines"], ids)
    specs = specs_of(case)
    rss, schemes, seen = [], list(reach), {(s.version(), s.annotation_spec()) for s in reach}
    for s in specs:
        rs, sch = R.m_recspec(s, ids)
        rss.append(rs)
        if sch is not None and (sch.version(), sch.annotation_spec()) not in seen:
            seen.add((sch.version(), sch.annotation_spec()))
            schemes.append(sch)
    # the tables must also answer for the lines the file will hold (the rendered records) and their re-rendering
    lines, names_for = [], []
    for s in specs:
        cur = s
        for _ in range(3):
            lines.append(cur["line"])
            names_for.append(cur["names"])
            t = _rendered(cur)
            if t is None or t == cur["line"]:
                break
            cur = dict(cur, line=t)
    # the model's completeness guard looks at every line of the file, the column line included
    for extra in ["\t".join(case_names(case))] + list(case["hlines"]):
        lines.append(extra)
        names_for.append(None)
    tb = R.m_tables(schemes, lines, ids, names_for)
    return [R.m_mode(case["mode"]), [S(l) for l in case["hlines"]], reg, tb, rss]


def _d_session(sx):
    lg, init, adds, _names = sx
    return {"log": R.d_log(lg), "init": R.d_res(init, R.d_errs),
            "adds": [{"log": R.d_log(a[0]), "res": R.d_res(a[1], R.d_errs)} for a in adds]}


def _d_leg(sx):
    run, second = sx
    out = {"read": R.dec_reader(run), "second": None}
    if second:
        w2, t2 = second[0]
        out["second"] = {"session": _d_session(w2), "text": U(t2)}
    return out


def from_model(case, sx):
    first, text, a, b = sx
    f = _d_session(first)
    if f["init"][0] != "ok":
        return {"first": f, "text": None, "path": None, "handle": None}
    return {"first": f, "text": U(text), "path": _d_leg(a), "handle": _d_leg(b)}


# ------------------------------------------------------------------ oracle
def _declared(case):
    kept, _ = R.spec_header([l for l in case["hlines"]])
    d = {k: v for (_, k, v) in kept}
    order = d.get("sort.order")
    contigs = d["contigs"].split(",") if ("contigs" in d and order in SORTABLE) else None
    return kept, order, contigs


def _in_declared_order(case, order, contigs):
    """are the rows, read as text, in the order the header declares? (independent of the library)"""
    if order not in SORTABLE:
        return True
    names = case_names(case)
    idx = {}
    for i, n in enumerate(names):
        idx.setdefault(n, i)

    def opt(v):
        return (1,) if v is None else (0, v)

    descr = dict(SP.layout(case["layout"])["columns"]) if case["layout"] else {}

    def nullable(n):
        """does the empty text denote the column's null value (which sorts last)?"""
        return n in descr and "" in SP.null_keys(descr[n])

    def key(row):
        def get(n):
            return row[idx[n]] if n in idx and idx[n] < len(row) else None

        def num(n):
            t = get(n)
            try:
                return int(t) if t not in (None, "") or t == "" and False else None
            except ValueError:
                return None
        ch = get(N_CHROM)
        if ch == "" and nullable(N_CHROM):
            ch = None
        if ch is not None and contigs:
            if ch not in contigs:
                raise KeyError(ch)
            ch = contigs.index(ch)
        k = [opt(ch), opt(num(N_START)), opt(num(N_END))]
        if order == "BarcodesAndCoordinate":
            t, nm = get(N_TUMOR), get(N_NORMAL)
            if nm == "" and nullable(N_NORMAL):
                nm = None
            if t == "" and nullable(N_TUMOR):
                t = None
            k = [opt(t), opt(nm)] + k
        return k
    try:
        keys = [key(r) for r in case["rows"]]
    except KeyError:
        return False
    return all(keys[i] <= keys[i + 1] for i in range(len(keys) - 1))


def premise(case, obs):
    """the writer accepted header and records without validation errors; lines are lines; order respected"""
    p = obs["plain"]
    if p["first"]["init"][0] != "ok":
        return False
    if (case["mode"] or "Silent") == "Strict" and p["first"]["init"][1]:
        return False
    for a in p["first"]["adds"]:
        if a["res"][0] != "ok" or a["res"][1]:
            return False
    if any(("\r" in l or "\n" in l) for l in case["hlines"]):
        return False
    names = case_names(case)
    if not names:
        return False
    if not case["layout"] and not case["rows"] and (case["mode"] or "Silent") == "Strict":
        # scheme-less and no record: no column line is ever written, which only a non-Strict reader tolerates
        # (the property asks for Silent on scheme-less column sets; theorem C02_round_trip_header_only)
        return False
    if any(len(r) != len(names) for r in case["rows"]):
        return False
    if any(t is None for t in obs["orig"]["texts"]) or any(e for e in obs["orig"]["parse_errs"]):
        return False
    _, order, contigs = _declared(case)
    return _in_declared_order(case, order, contigs)


def _value_diff_shape(orig, got, texts):
    """'/single-null-element-list' when every differing cell is a one-element list of a null member that was
    rendered as the empty text and came back as the empty list"""
    shapes = set()
    for i, (a, b) in enumerate(zip(orig, got)):
        fields = texts[i].split("\t")
        for j, (x, y) in enumerate(zip(a, b)):
            if x != y:
                one_null = (x[0] == 7 and len(x[1]) == 1 and y == [7, []] and j < len(fields) and fields[j] == "")
                shapes.add("single-null-element-list" if one_null else "other")
        if len(a) != len(b):
            shapes.add("other")
    return "/single-null-element-list" if shapes == {"single-null-element-list"} else ""


def _api_diff_families(orig, got, texts):
    """one label per class of a differing cell: api-built-noncanonical/<class> when the given value is one of the
    known constructor-accepted values parsing never produces, api-built/<class> for anything else"""
    fams = []
    for i, (a, b) in enumerate(zip(orig["values"], got)):
        fields = texts[i].split("\t")
        for j, (x, y) in enumerate(zip(a, b)):
            if x == y:
                continue
            cls = orig["classes"][i][j]
            known = ((cls == "StringOrIntegerColumn" and x[0] == 4 and y[0] == 2)
                     or (cls == "NullableStringColumn" and x == [4, ""] and y == [0])
                     or (cls == "EntrezGeneId" and x == [2, 0] and y == [0])
                     or (cls == "SequenceOfNullableYesOrNo" and x[0] == 7 and len(x[1]) == 1 and y == [7, []]
                         and j < len(fields) and fields[j] == ""))
            lab = ("api-built-noncanonical/%s" if known else "api-built/%s") % cls
            if lab not in fams:
                fams.append(lab)
        if len(a) != len(b) and "api-built/length" not in fams:
            fams.append("api-built/length")
    return fams


def _text_diff_is_str_int(orig, got, i, rt, t):
    """record i's text differs from the re-read text only in cells of class StringOrIntegerColumn that were given a
    str and came back as an int (the int renders canonically)"""
    a, b = t.split("\t"), rt.split("\t")
    if len(a) != len(b) or i >= len(got):
        return False
    for j, (x, y) in enumerate(zip(a, b)):
        if x != y:
            if not (orig["classes"][i][j] == "StringOrIntegerColumn" and orig["values"][i][j][0] == 4
                    and j < len(got[i]) and got[i][j][0] == 2):
                return False
    return True


def skip_compare(case):
    """directly constructed column values are not expressible in the extracted run (its records come from
    from_line); the api-built stream is judged by the oracle only"""
    return bool(case.get("api"))


def _schemeless_valid_by_construction(case):
    """scheme-less, distinct carriable names, every row of the right length with fields free of TAB/CR/LF, built by
    parsing: there is nothing a writer or parser could object to"""
    if case["layout"] or case.get("empty_first") or case.get("api") or not case["names"]:
        return False
    names = case["names"]
    if len(set(names)) != len(names) or names[0].startswith("#") or any(c in n for n in names for c in "\t\r\n"):
        return False
    rows = case["rows"]
    if any(len(r) != len(names) or any(c in f for f in r for c in "\t\r\n") for r in rows):
        return False
    # a trailing CR/LF-free last field is required by the line framing; stale cells must build too
    return all(not any(c in e[2] for c in "\t\r\n") for e in case.get("stale", []))


def oracle(case, obs):
    if _schemeless_valid_by_construction(case) and obs["plain"]["first"]["init"][0] == "ok":
        bad = [e for e in obs["orig"]["parse_errs"] if e] + \
              [a for a in obs["plain"]["first"]["adds"] if a["res"][0] != "ok" or a["res"][1]]
        if bad:
            return ["scheme-less-valid-record-has-validation-errors plain"]
    if not premise(case, obs):
        return []
    out = []
    kept, order, contigs = _declared(case)
    pragmas = ["#%s %s" % (k, v) for (_, k, v) in kept]
    names = case_names(case)
    texts = obs["orig"]["texts"]
    p = obs["plain"]
    for ch in ("gz", "handle"):
        if obs[ch]["text"] != p["text"]:
            out.append("channels-differ %s" % ch)
        if obs[ch]["first"] != p["first"]:
            out.append("channel-sessions-differ %s" % ch)
    for ch in ("plain", "gz", "handle"):
        o = obs[ch]
        folded = False
        if o["text"] is None:
            out.append("nothing-written %s" % ch)
            continue
        rd = o["read"]
        if rd["init"][0] != "ok":
            out.append("reread-open-raises %s %s" % (rd["init"][1][0], ch))
            continue
        if rd["end"] is not None:
            out.append("reread-raises %s %s" % (rd["end"][0], ch))
        got = rd["init"][1]
        if got["header"]["print"] != pragmas:
            out.append("pragmas-differ %s" % ch)
        if case["rows"] or case["layout"]:
            sch = got["scheme"]
            if sch is None or "\t".join(sch[3]) != "\t".join(names) or (len(sch[3]) != len(names)):
                out.append("column-line-differs %s" % ch)
        if len(rd["recs"]) != len(texts):
            out.append("record-count %d-for-%d %s" % (len(rd["recs"]), len(texts), ch))
        else:
            for i, (r, t) in enumerate(zip(rd["recs"], texts)):
                rt = None if any(s is None or s[2] is None for s in r["slots"]) else "\t".join(s[2] for s in r["slots"])
                if rt != t:
                    if case.get("api") and rt is not None and _text_diff_is_str_int(obs["orig"], o["values"], i, rt, t):
                        folded = True       # the text consequence of the known str-for-int value (reported below)
                        continue
                    out.append("record-text-differs %s" % ch)
                    break
            if any(r["errs"] for r in rd["recs"]):
                out.append("reread-record-has-errors %s" % ch)
            if case["layout"] and o["values"] != obs["orig"]["values"]:
                if case.get("api"):
                    for fam in _api_diff_families(obs["orig"], o["values"], texts):
                        out.append("typed-value-differs/%s %s" % (fam, ch))
                else:
                    out.append("typed-value-differs%s %s" % (_value_diff_shape(obs["orig"]["values"], o["values"], texts), ch))
        lines = o["text"].split("\n")
        if lines[-1] != "" or lines[:-1] != pragmas + (["\t".join(names)] if (case["rows"] or case["layout"]) else []) + texts:
            out.append("file-is-not-header-columns-records %s" % ch)
        if o["second"] is None or o["second"]["text"] != o["text"]:
            if not (case.get("api") and folded):
                out.append("second-write-differs %s" % ch)
    return out


def signature(case, violation):
    if violation.startswith("typed-value-differs/api-built"):
        return violation.split(" ")[0]
    if not case["layout"] and case["names"]:
        if case["names"][0].startswith("#") and not any(c in n for n in case["names"] for c in "\t\r\n"):
            return HASH_SIG
        if any(c in n for n in case["names"] for c in "\t\r\n"):
            return SEP_SIG
    return violation.split(" ")[0] + ("/layout" if case["layout"] else "/scheme-less")


def classify(case, obs):
    kind = "layout" if case["layout"] else "scheme-less"
    if obs is None:
        return "%s/%s/error" % (case["stream"], kind)
    ok = premise(case, obs)
    _, order, _ = _declared(case)
    return "%s/%s/%s/%s/rows%d/%s" % (case["stream"], kind, case["mode"], "order" if order in SORTABLE else "no-order",
                                    min(len(case["rows"]), 2), "accepted" if ok else "not-accepted")


def nontrivial(case, obs):
    return premise(case, obs) and (bool(case["rows"]) or bool(obs["plain"]["text"]))
