"""C19 - Reading, unsorted writing and overlap iteration are incremental; a
sorter with capacity m keeps fewer than m records in memory."""
import C11 as K
from sexp import S

PID = "C19"
CLUSTER = "Overlap"
PROPS = "props/C19.v"
N_QUICK = 2400
N_THOROUGH = 30000
LEVEL_TEXT = ("Partial: Coq counting theorems over a Gallina model of the consumption discipline (reader look-ahead, "
              "unsorted write-through, overlap iterator pulls, sorter stash/spill), for every input length and every "
              "exception-free history; the model's pull/write/spill counters are tied to /repo by instrumenting the "
              "caller-supplied iterators, the output handle and the sorter's temp directory after every consumer action, "
              "and an independent oracle checks the bounds on the real library.")
LEVEL_NOTE = ("Partial in this sense: the theorems are about the modelled consumption discipline; the tie to the code is "
              "by instrumentation on generated histories (tested, not proved); parsing/validation/rendering are abstract "
              "parameters of the stream models; sorter I/O is assumed to succeed (faults are C18's subject). Trusted: Coq "
              "kernel, extraction (ExtrOcamlBasic), harness counters, CPython as modelled.")
RULE = ("four kinds of history: (overlap) the C11 case streams, with the default PeekableIterator or a caller's subclass passed as "
        "peekable_iterator_class, pulls on each counting input iterator observed after construction and after every next(); (reader) 0-4 '#' lines, a column line and 0-8 data lines with LF / CRLF / "
        "no line ends, blank and short lines, k <= n+2 calls of next(), lines pulled observed after construction and "
        "after every call, the same through MafReader.reader_from on plain and gzip files (lines leaving the opened "
        "handle are counted), plus Strict readers under the built-in scheme gdc-1.0.0 (34 columns) over valid lines and lines "
        "that fail to parse (bad position, bad enum member, short line), calls continuing after each failure; (writer) 1-6 scheme-less records on a recording handle observed after every write call, "
        "headers declaring no order / Coordinate / BarcodesAndCoordinate / Unsorted / Unknown, sorting not asked for "
        "(assume_sorted=True passed or left at its default) / asked for / asked for but undecidable, += and .write(), "
        "records that fail Strict validation; (sorter) capacities 0-6, 0-20 adds (and runs past 256 spill files at capacity 1-3), temp-dir "
        "listing and spill-file record counts after every add. Oracle-only histories (outside the model): a handle that "
        "raises BlockingIOError at one write call, one failing spill (mkstemp raises once) after which the caller keeps "
        "adding, overlap inputs containing records without start/end; a long-sparse overlap case; maflib.util.PeekableIterator used directly (peek, next(p), p.next(), iter(p)). Overlap inputs "
        "are plain locatables built through the constructor or the property setters; the caller's PeekableIterator subclass "
        "may read the iterator it is handed through iter() or .next(). Non-trivial: at least 3 consumer actions with no error.")
ASSUMPTIONS = [
    "the overlap clause is claimed, proved and judged for LocatableOverlapIterator; LocatableByAlleleOverlapIterator as written pulls and discards whole positional groups that have nothing from the first input inside one call (Example demo_allele_subclass_pulls_whole_groups), so for it only the pull counts are compared with the model",
    "overlap inputs are list-backed counting iterators; the bound is claimed for histories without a raised error (a report loses the group in progress)",
    "scheme-less reader cases use Silent/Lenient stringency (parsing never raises); Strict reader cases use the built-in scheme gdc-1.0.0 with lines whose parsing raises MafFormatException before the next line is pulled (which physical lines fail is part of the case; the model takes it as given)",
    "writer cases use a header without version pragma (optionally declaring a sort order); only MafWriter.__iadd__ is modelled (constructor output is observed and subtracted); an unsorted writer = one for which the caller did not ask for sorting (assume_sorted True or default), whatever order the header declares",
    "sorter temp-file I/O succeeds; sorted() returns a permutation of its argument (hypothesis of the theorem)",
]

EXC = dict(K.EXC, MafFormatException=10)


# ---------------------------------------------------------------- implementation side
def _exc(e):
    return EXC.get(type(e).__name__, type(e).__name__)


def run_reader(case):
    from maflib.reader import MafReader
    from maflib.validation import ValidationStringency as VS

    if case.get("file"):
        return run_reader_file(case)
    cnt = K.Counting(list(case["lines"]))
    strict = bool(case.get("strict"))
    stg = VS.Strict if strict else (VS.Lenient if case.get("lenient") else VS.Silent)
    try:
        r = MafReader(cnt, validation_stringency=stg)
    except Exception as e:
        return {"init": [1, _exc(e), cnt.n], "steps": [], "_recs": []}
    it = iter(r) if case.get("via_iter") else r
    obs = {"init": [0, cnt.n], "steps": [], "_recs": []}
    for _ in range(case["k"]):
        try:
            rec = next(it)
            obs["steps"].append([0, cnt.n])
            obs["_recs"].append(str(rec))
        except StopIteration:
            obs["steps"].append([1, 6, cnt.n])
            break
        except Exception as e:
            obs["steps"].append([1, _exc(e), cnt.n])
            if not strict:
                break
    return obs


class CountingFile:
    """wraps the text handle reader_from opens: counts the lines that leave it"""

    def __init__(self, fh):
        self.fh = fh
        self.n = 0

    def __iter__(self):
        return self

    def __next__(self):
        line = next(self.fh)
        self.n += 1
        return line

    def readline(self, *a):
        line = self.fh.readline(*a)
        if line:
            self.n += 1
        return line

    def readlines(self, *a):
        ls = self.fh.readlines(*a)
        self.n += len(ls)
        return ls

    def read(self, *a):
        txt = self.fh.read(*a)
        self.n += txt.count("\n") + (1 if txt and not txt.endswith("\n") else 0)
        return txt

    def close(self):
        self.fh.close()

    def __getattr__(self, name):
        return getattr(self.fh, name)


def run_reader_file(case):
    """MafReader.reader_from(path) on a plain or gzip-compressed file; the handle it opens is counted"""
    import builtins
    import gzip
    import os
    import shutil
    import tempfile

    import maflib.reader as MR
    from maflib.reader import MafReader
    from maflib.validation import ValidationStringency as VS

    d = tempfile.mkdtemp(prefix="c19f_")
    gz = case["file"] == "gz"
    path = os.path.join(d, "in.maf" + (".gz" if gz else ""))
    text = "".join(case["lines"])
    if gz:
        with gzip.open(path, "wt", newline="") as fh:
            fh.write(text)
    else:
        with open(path, "w", newline="") as fh:
            fh.write(text)
    handles = []
    real_gzip = MR.gzip

    class GzipProxy:
        def __getattr__(self, name):
            return getattr(real_gzip, name)

        def open(self, *a, **k):
            handles.append(CountingFile(real_gzip.open(*a, **k)))
            return handles[-1]

    def counting_open(*a, **k):
        handles.append(CountingFile(builtins.open(*a, **k)))
        return handles[-1]

    def pulled():
        return sum(h.n for h in handles)

    MR.gzip = GzipProxy()
    MR.open = counting_open
    try:
        try:
            r = MafReader.reader_from(path, validation_stringency=VS.Silent)
        except Exception as e:
            return {"init": [1, _exc(e), pulled()], "steps": [], "_recs": []}
        it = iter(r) if case.get("via_iter") else r
        obs = {"init": [0, pulled()], "steps": [], "_recs": []}
        for _ in range(case["k"]):
            try:
                rec = next(it)
                obs["steps"].append([0, pulled()])
                obs["_recs"].append(str(rec))
            except StopIteration:
                obs["steps"].append([1, 6, pulled()])
                break
            except Exception as e:
                obs["steps"].append([1, _exc(e), pulled()])
                break
        return obs
    finally:
        MR.gzip = real_gzip
        del MR.open
        for h in handles:
            try:
                h.close()
            except Exception:
                pass
        shutil.rmtree(d, ignore_errors=True)


class Handle:
    def __init__(self, fail_at=None):
        self.w = []
        self.calls = 0
        self.fail_at = fail_at      # index of the write call that finds the pipe full

    def write(self, x):
        n = self.calls
        self.calls += 1
        if self.fail_at is not None and n == self.fail_at:
            raise BlockingIOError(11, "Resource temporarily unavailable")
        self.w.append(x)

    def close(self):
        pass


def run_writer(case):
    from maflib.header import MafHeader
    from maflib.record import MafRecord
    from maflib.validation import ValidationStringency as VS
    from maflib.writer import MafWriter

    h = Handle()
    mode = case["mode"]
    fault = case.get("fault")
    # the header may declare a sort order; mode 0 = the caller did not ask for sorting
    # (assume_sorted True, passed explicitly or left at its default), mode 1 = sorting asked
    # for and possible, mode 2 = sorting asked for but the declared order has no key
    order = case.get("order", "BarcodesAndCoordinate" if mode == 1 else None)
    hdr = (MafHeader.from_lines(["#sort.order " + order], validation_stringency=VS.Silent)
           if order else MafHeader())
    kw = {}
    if mode != 0:
        kw["assume_sorted"] = False
    elif case.get("explicit", True):
        kw["assume_sorted"] = True
    w = MafWriter(h, hdr, validation_stringency=VS.Silent, **kw)
    w.validation_stringency = VS.Strict
    base = len(h.w)
    if fault is not None:
        h.fail_at = h.calls + fault   # counted from the first write after construction
    steps = []
    checks = []
    for cols, line, _valid in case["recs"]:
        rec = MafRecord.from_line(line, column_names=cols.split("\t"), validation_stringency=VS.Silent)
        before = "".join(h.w)
        exc = None
        try:
            if case.get("use_write"):
                w.write(rec)
            else:
                w += rec
        except Exception as e:
            exc = _exc(e)
        srt = getattr(w, "_sorter", None)
        held = None if srt is None else srt._objects_in_memory
        steps.append([exc, list(h.w[base:]), held])
        after = "".join(h.w)
        checks.append([exc, after.startswith(before), after.endswith(str(rec) + "\n"),
                       after[len(before):].count("\n") if after.startswith(before) else -1])
    if getattr(w, "_sorter", None) is not None:
        w._sorter.close()
    obs = {"steps": steps, "_checks": checks}
    if case.get("nomodel"):
        obs["_nomodel"] = True
    return obs


def run_sorter(case):
    import gzip
    import os
    import shutil
    import struct
    import tempfile

    from maflib.sorter import Sorter, SorterCodec

    class Codec(SorterCodec):
        def encode(self, obj):
            return bytearray(str(obj), "utf-8")

        def decode(self, data, start, length):
            return int(bytes(data[start:start + length]).decode("utf-8"))

    seen = {}

    def chunk_sizes(d):
        out = []
        for f in os.listdir(d):
            if f in seen:
                out.append(seen[f])
                continue
            n = 0
            with gzip.open(os.path.join(d, f), "rb") as fh:
                while True:
                    hd = fh.read(4)
                    if len(hd) < 4:
                        break
                    fh.read(struct.unpack("i", hd)[0])
                    n += 1
            seen[f] = n
            out.append(n)
        return sorted(out)

    d = tempfile.mkdtemp(prefix="c19_")
    steps = []
    import maflib.sorter as MS
    real_tempfile = MS.tempfile
    state = {"n": 0}

    class TempfileProxy:
        """the k-th mkstemp of the sorter finds no room (once); everything else is the real module"""

        def __getattr__(self, name):
            return getattr(real_tempfile, name)

        def mkstemp(self, *a, **k):
            state["n"] += 1
            if state["n"] == case.get("fail_spill"):
                raise OSError(28, "No space left on device")
            return real_tempfile.mkstemp(*a, **k)

    if case.get("fail_spill"):
        MS.tempfile = TempfileProxy()
    try:
        s = Sorter(max_objects_in_ram=case["cap"], codec=Codec(), key_func=lambda x: (x * 7) % 5, tmp_dir=d)
        for i in range(case["n"]):
            exc = None
            try:
                s += i
            except Exception as e:
                exc = _exc(e)
            sizes = chunk_sizes(d)
            steps.append([exc, s._objects_in_memory, sizes])
        try:
            s.close()
        except Exception:
            pass
    finally:
        MS.tempfile = real_tempfile
        shutil.rmtree(d, ignore_errors=True)
    obs = {"steps": steps}
    if case.get("nomodel"):
        obs["_nomodel"] = True
    return obs


def run_peekable(case):
    """maflib.util.PeekableIterator used directly: peek(), next(p), p.next(), iter(p)"""
    from maflib.util import PeekableIterator

    cnt = K.Counting(list(case["items"]))
    p = PeekableIterator(cnt)
    steps = [["init", None, cnt.n]]
    it = p
    for op in case["ops"]:
        try:
            if op == "peek":
                v = p.peek()
            elif op == "next":
                v = next(it)
            elif op == "dotnext":
                v = it.next()
            else:
                it = iter(p)
                v = "same" if it is p else "other"
            steps.append([op, v, cnt.n])
        except StopIteration:
            steps.append([op, "stop", cnt.n])
    return {"steps": steps, "_nomodel": True}


def run_impl(case):
    w = case["what"]
    if w == "peekable":
        return run_peekable(case)
    if w == "overlap":
        obs = K.run_overlap(case["case"])
        if case.get("nomodel"):
            obs["_nomodel"] = True
        return obs
    if w == "reader":
        return run_reader(case)
    if w == "writer":
        return run_writer(case)
    return run_sorter(case)


def comparable(obs):
    if obs.get("_nomodel"):
        # histories the model does not cover (injected I/O faults, records without position):
        # judged by the oracle only
        return {"nomodel": True}
    return {k: v for k, v in obs.items() if not k.startswith("_")}


# ---------------------------------------------------------------- model wire
def to_model(case):
    w = case["what"]
    if case.get("nomodel"):
        return [3, 1, 0]
    if w == "overlap":
        return K.m_overlap(case["case"])
    if w == "reader":
        if case.get("strict"):
            return [5, [S(l) for l in case["lines"]], list(case["bad"]), case["k"]]
        return [1, [S(l) for l in case["lines"]], case["k"]]
    if w == "writer":
        return [2, case["mode"], [[S(c), S(l), 1 if v else 0] for c, l, v in case["recs"]]]
    return [3, case["cap"], case["n"]]


def from_model(case, sx):
    from sexp import U

    w = case["what"]
    if case.get("nomodel"):
        return {"nomodel": True}
    if w == "overlap":
        return K.from_model(case["case"], sx)
    if w == "reader":
        init = sx[0]
        if init[0] == 1:
            return {"init": [1, init[1][0], init[2]], "steps": []}
        steps = []
        for st in sx[1:]:
            steps.append([0, st[2]] if st[0] == 0 else [1, st[1][0], st[2]])
        return {"init": [0, init[1]], "steps": steps}
    if w == "writer":
        return {"steps": [[(o[0] if o else None), [U(c) for c in chunks], (held[0] if held else None)]
                          for o, chunks, held in sx]}
    return {"steps": [[(o[0] if o else None), mem, sorted(sizes)] for o, mem, sizes in sx]}


# ---------------------------------------------------------------- the property oracle
def oracle(case, obs):
    w = case["what"]
    out = []
    if w == "peekable":
        items = case["items"]
        taken = 0
        for op, v, pulled in obs["steps"]:
            if op in ("next", "dotnext"):
                want = items[taken] if taken < len(items) else "stop"
                if v != want:
                    out.append("peekable-returned-the-wrong-element")
                    break
                taken = min(taken + 1, len(items))
            elif op == "peek":
                if v != (items[taken] if taken < len(items) else None):
                    out.append("peekable-peek-is-not-the-next-element")
                    break
            elif op == "iter" and v != "same":
                out.append("peekable-iter-is-not-itself")
                break
            if pulled > taken + 1:
                out.append("peekable-pulled-more-than-one-element-ahead")
                break
        return out
    if w == "overlap":
        c = case["case"]
        if obs["init"][0] != 0:
            return []
        n = len(c["inputs"])
        if any(x > 1 for x in obs["init"][1]):
            out.append("overlap-constructor-pulled-more-than-one-record")
        if c["kind"] != 0:
            return out
        emitted = [0] * n
        for o, cons in obs["steps"]:
            if o[0] == 1 and o[1] != 6:
                break                       # a report: the group in progress is lost, no claim afterwards
            if o[0] == 0:
                for i in range(n):
                    emitted[i] += len(o[1][i])
            if any(cons[i] > emitted[i] + 1 for i in range(n)):
                out.append("overlap-pulled-more-than-one-record-beyond-the-emitted-groups")
                break
        return out
    if w == "reader":
        lines = [l.rstrip("\r\n") for l in case["lines"]]
        nh = 0
        while nh < len(lines) and lines[nh].startswith("#"):
            nh += 1
        if obs["init"][0] != 0:
            return []
        # after construction: header lines, the column line, one look-ahead line
        if obs["init"][1] > nh + 2:
            out.append("reader-constructor-pulled-beyond-one-lookahead-line")
        if obs["init"][1] < min(len(lines), nh + 1):
            out.append("reader-constructor-did-not-reach-the-column-line")
        k = 0
        prev = obs["init"][1]
        for st in obs["steps"]:
            if st[0] != 0:
                if st[2] != prev:
                    out.append("reader-pulled-lines-during-a-failing-next")
                    break
                continue
            k += 1
            prev = st[1]
            at = nh + 1 + k                 # physical line number of the record just returned
            if st[1] > at + 1:
                out.append("reader-pulled-more-than-one-line-beyond-the-returned-record")
                break
            if st[1] < at:
                out.append("reader-returned-a-record-it-had-not-pulled")
                break
            ncols = len(lines[nh].split("\t"))
            if len(lines[at - 1].split("\t")) == ncols and obs["_recs"][k - 1] != lines[at - 1]:
                out.append("reader-returned-a-different-line")
                break
        return out
    if w == "writer":
        if case["mode"] == 1:
            return []
        for (exc, grew, ends, nl), (cols, line, valid) in zip(obs["_checks"], case["recs"]):
            if exc is None and not (grew and ends):
                out.append("unsorted-writer-had-not-emitted-the-record-when-write-returned")
                break
            if not grew:
                out.append("writer-rewrote-earlier-output")
                break
        return out
    # sorter: every add that returns normally must leave fewer than m of the accepted records unspilled
    # (an add that raised makes no claim; the caller may carry on adding after a failed spill)
    m = case["cap"]
    added = 0
    for exc, mem, sizes in obs["steps"]:
        if exc is not None:
            continue
        added += 1
        spilled = sum(sizes)
        if m >= 1 and not (0 <= added - spilled < m):
            out.append("sorter-holds-capacity-or-more-records-in-memory")
            break
    return out


def signature(case, violation):
    return violation.split(" ")[0]


def classify(case, obs):
    w = case["what"]
    if obs is None:
        return w + "/error"
    if w == "peekable":
        return "peekable/direct"
    if w == "overlap":
        c = case["case"]
        if case.get("nomodel"):
            return "overlap/records-without-position"
        return "overlap/%s/%s%s" % (c["stream"], "plain" if c["kind"] == 0 else "allele",
                                   "/peekable-subclass" if c.get("peek_sub") and c["kind"] == 0 else "")
    if w == "reader":
        if case.get("strict"):
            return "reader/strict-gdc-1.0.0/%s" % ("some-lines-fail" if case["bad"] else "all-valid")
        if case.get("file"):
            return "reader/reader_from-%s/lines=%s" % (case["file"], "0-3" if len(case["lines"]) < 4 else "4+")
        return "reader/%s/lines=%s" % ("iter" if case.get("via_iter") else "next", "0-3" if len(case["lines"]) < 4 else "4+")
    if w == "writer":
        if case.get("fault") is not None:
            return "writer/pipe-full-at-one-write"
        return "writer/mode=%d/order=%s/%s/%s" % (
            case["mode"], case.get("order"), "explicit" if case.get("explicit", True) else "default-assume-sorted",
            "all-valid" if all(v for _, _, v in case["recs"]) else "some-invalid")
    return "sorter/cap=%s%s" % ("0" if case["cap"] == 0 else "1" if case["cap"] == 1 else "2+",
                                "/one-spill-fails" if case.get("fail_spill") else "")


def nontrivial(case, obs):
    steps = obs["steps"]
    if case["what"] == "peekable":
        return len(steps) >= 4
    if case["what"] == "overlap":
        return sum(1 for o, _ in steps if o[0] == 0) >= 2
    if case["what"] == "reader":
        return sum(1 for s in steps if s[0] == 0) >= 2
    return sum(1 for s in steps if s[0] is None) >= 3


# ---------------------------------------------------------------- generation
ORDERS = [None, "Coordinate", "BarcodesAndCoordinate", "Unsorted", "Unknown"]
LOCCOLS = "\t".join(["Chromosome", "Start_Position", "End_Position", "Tumor_Sample_Barcode", "Matched_Norm_Sample_Barcode"])


def gen_reader(rng):
    nh = rng.choice([0, 0, 1, 2, 3, 4])
    lines = ["#" + rng.choice(["k v", "note", "x y z", "", "#"]) for _ in range(nh)]
    r = rng.random()
    if r > 0.1:
        ncol = rng.randint(1, 4)
        lines.append("\t".join("C%d" % i for i in range(ncol)))
        for _ in range(rng.choice([0, 1, 2, 3, 5, 8])):
            q = rng.random()
            if q < 0.75:
                lines.append("\t".join(str(rng.randint(0, 99)) for _ in range(ncol)))
            elif q < 0.85:
                lines.append("")
            elif q < 0.95:
                lines.append("\t".join("v" for _ in range(rng.randint(1, 5))))
            else:
                lines.append("#late")
    end = rng.choice(["", "\n", "\r\n", "mixed"])
    lines = [l + (rng.choice(["", "\n", "\r\n"]) if end == "mixed" else end) for l in lines]
    return {"what": "reader", "lines": lines, "k": max(0, len(lines) - nh + rng.choice([-2, 0, 1, 2])),
            "lenient": rng.random() < 0.3, "via_iter": rng.random() < 0.3}


GDC_VALS = K.GDC_VALS
gdc_cols = K.gdc_cols


def gen_reader_file(rng):
    """the same histories through MafReader.reader_from on a plain / gzip file"""
    c = gen_reader(rng)
    c["lines"] = [l.rstrip("\r\n") + "\n" for l in c["lines"]]
    if rng.random() < 0.4:
        extra = rng.randint(5, 40)            # a longer body: materialising the file shows at once
        ncol = len(c["lines"][-1].split("\t")) if c["lines"] else 1
        c["lines"] += ["\t".join(str(rng.randint(0, 9)) for _ in range(ncol)) + "\n" for _ in range(extra)]
    c["file"] = rng.choice(["gz", "gz", "plain"])
    c["lenient"] = False
    c["k"] = min(c["k"], rng.choice([1, 2, 3, 5, 50]))
    return c


def gen_reader_strict(rng):
    """a Strict reader under gdc-1.0.0: valid lines, and lines whose parsing raises before the next line is pulled"""
    cols = gdc_cols()
    lines = ["#version gdc-1.0.0", "\t".join(cols)]
    bad = []
    for _ in range(rng.choice([0, 1, 2, 3, 5])):
        vals = dict(GDC_VALS)
        vals["Start_Position"] = str(rng.randint(1, 500))
        vals["End_Position"] = str(int(vals["Start_Position"]) + rng.randint(0, 3))
        q = rng.random()
        if q < 0.65:
            line = "\t".join(vals.get(c, "") for c in cols)
        elif q < 0.8:
            vals["Start_Position"] = rng.choice(["x", "0", "1.5"])
            line = "\t".join(vals.get(c, "") for c in cols)
        elif q < 0.9:
            vals["Variant_Type"] = "NOT-A-TYPE"
            line = "\t".join(vals.get(c, "") for c in cols)
        else:
            line = "\t".join(vals.get(c, "") for c in cols[:rng.randint(1, 33)])
        lines.append(line)
        if q >= 0.65:
            bad.append(len(lines))
    end = rng.choice(["", "\n", "\r\n"])
    lines = [l + end for l in lines]
    return {"what": "reader", "strict": True, "lines": lines, "bad": bad,
            "k": len(lines) + rng.choice([-2, 0, 2]), "via_iter": rng.random() < 0.3}


def gen_writer(rng):
    ncol = rng.randint(1, 4)
    cols = "\t".join("C%d" % i for i in range(ncol))
    recs = []
    for _ in range(rng.randint(1, 6)):
        q = rng.random()
        if q < 0.8 or not recs:
            recs.append([cols, "\t".join(str(rng.randint(0, 99)) for _ in range(ncol)), True])
        elif q < 0.9:
            c2 = "\t".join("C%d" % i for i in range(ncol + 1))
            recs.append([c2, "\t".join("9" for _ in range(ncol + 1)), False])
        else:
            c2 = "\t".join(["X"] + ["C%d" % i for i in range(1, ncol)])
            recs.append([c2, "\t".join("7" for _ in range(ncol)), False])
    mode = rng.choice([0, 0, 0, 0, 1, 2])
    case = {"what": "writer", "mode": mode, "recs": recs, "use_write": rng.random() < 0.3}
    if mode == 0:
        # no sorting asked for: every declared order (with a key, without, none), assume_sorted
        # passed as True or left at its default
        case["order"] = rng.choice(ORDERS)
        case["explicit"] = rng.random() < 0.4
    elif mode == 1:
        case["order"] = rng.choice(["Coordinate", "BarcodesAndCoordinate"])
    else:
        case["order"] = rng.choice([None, "Unsorted", "Unknown"])
    if rng.random() < 0.5:
        # records that really carry coordinates and barcodes, in both sort orders
        pos = sorted(rng.randint(1, 60) for _ in range(rng.randint(1, 6)))
        case["recs"] = [[LOCCOLS, "\t".join(["chr1", str(q), str(q + 1), "T1", "N1"]), True] for q in pos]
    return case


def gen_peekable(rng):
    n = rng.choice([0, 1, 2, 3, 5, 8])
    items = [rng.choice([0, 1, 2, 7, -3]) for _ in range(n)]      # 0 is a false element, never None
    ops = [rng.choice(["peek", "next", "dotnext", "next", "dotnext", "iter"]) for _ in range(rng.randint(1, n + 4))]
    return {"what": "peekable", "items": items, "ops": ops, "nomodel": True}


def gen_sorter(rng):
    c = {"what": "sorter", "cap": rng.choice([0, 1, 1, 2, 2, 3, 4, 5, 6]), "n": rng.randint(0, 20)}
    if c["cap"] >= 1 and rng.random() < 0.2:
        # one spill finds the temporary directory full; the caller carries on adding
        c["fail_spill"] = rng.randint(1, 3)
        c["n"] = max(c["n"], c["cap"] * c["fail_spill"] + rng.randint(1, 2 * c["cap"] + 1))
        c["nomodel"] = True
    return c


def gen_sorter_many_files(rng):
    """more than 256 spill files: the capacity asked for still bounds what is held"""
    cap = rng.choice([1, 1, 2, 3])
    return {"what": "sorter", "cap": cap, "n": 256 * cap + cap + rng.randint(1, 3 * cap + 2)}


def gen_writer_fault(rng):
    """an unsorted writer on a handle that finds the pipe full at one write call"""
    c = gen_writer(rng)
    c["mode"] = 0
    c["recs"] = [r for r in c["recs"] if r[2]] or c["recs"][:1]
    while len(c["recs"]) < 3:
        c["recs"].append(list(c["recs"][0]))
    c["fault"] = rng.randint(0, len(c["recs"]))
    c["nomodel"] = True
    return c


def gen_overlap_noposition(rng):
    """records whose start or end is missing (a damaged line handed out by a Silent reader)"""
    c = K.gen_valid(rng, 0, 0)
    c["rectype"] = rng.choice(["loc", "maf"])
    recs = [r for inp in c["inputs"] for r in inp]
    if c["rectype"] == "maf":
        for r in recs:
            r[K.TUM] = r[K.TUM] or ""
            r[K.NOR] = r[K.NOR] or ""
    if not recs:
        return gen_overlap(rng)
    for r in rng.sample(recs, min(len(recs), rng.choice([1, 1, 2, 3]))):
        r[rng.choice([K.ST, K.EN])] = None
    if rng.random() < 0.5 and c["inputs"] and c["inputs"][0]:
        c["inputs"][0][0][K.ST] = None
    return {"what": "overlap", "case": c, "nomodel": True}


def gen_overlap(rng):
    r = rng.random()
    kind = 0 if rng.random() < 0.8 else 1
    ot = rng.randrange(3)
    if r < 0.5:
        c = K.gen_valid(rng, kind, ot)
    elif r < 0.7:
        c = K.gen_boundary(rng, kind, ot)
    elif r < 0.85:
        c = K.gen_defect(rng, kind, ot)
    else:
        c = K.gen_adversarial(rng, kind, ot)
    if kind == 0 and rng.random() < 0.35:
        c["peek_sub"] = rng.choice([1, 2, 3])   # the caller passes its own PeekableIterator subclass
    return {"what": "overlap", "case": c}


def generate(rng, n):
    out = []
    for k in range(n):
        r = k % 12
        if k % 1200 == 13:
            out.append({"what": "overlap", "case": K.gen_long_sparse(rng, rng.choice([0, 1]), 0, rng.randint(1100, 1500))})
        elif k % 24 == 1:
            out.append(gen_overlap_noposition(rng))
        elif k % 24 == 8:
            out.append(gen_writer_fault(rng))
        elif k % 24 == 15:
            out.append(gen_peekable(rng))
        elif k % 1200 == 23:
            out.append(gen_sorter_many_files(rng))
        elif r < 5:
            out.append(gen_overlap(rng))
        elif r < 8:
            out.append(gen_reader_strict(rng) if k % 36 in (5, 17) else
                       gen_reader_file(rng) if k % 12 == 6 else gen_reader(rng))
        elif r < 10:
            out.append(gen_writer(rng))
        else:
            out.append(gen_sorter(rng))
    return out


def corpus():
    return [
        {"what": "reader", "lines": ["#a b\n", "#c d\n", "A\tB\n", "1\t2\n", "3\t4\n", "5\t6\n"], "k": 5, "lenient": False, "via_iter": False},
        {"what": "reader", "lines": ["A\tB"], "k": 1, "lenient": False, "via_iter": True},
        {"what": "writer", "mode": 0, "recs": [["A\tB", "1\t2", True], ["A\tB", "3\t4", True], ["A\tB\tC", "1\t2\t3", False], ["A\tB", "5\t6", True]]},
        {"what": "writer", "mode": 2, "recs": [["A\tB", "1\t2", True], ["A\tB", "3\t4", True]]},
        # an already sorted file copied record by record: the header declares its order, assume_sorted left at its default
        {"what": "writer", "mode": 0, "order": "Coordinate", "explicit": False, "use_write": False,
         "recs": [[LOCCOLS, "chr1\t5\t6\tT1\tN1", True], [LOCCOLS, "chr1\t10\t11\tT1\tN1", True]]},
        {"what": "writer", "mode": 0, "order": "BarcodesAndCoordinate", "explicit": False, "use_write": True,
         "recs": [[LOCCOLS, "chr1\t5\t6\tT1\tN1", True], [LOCCOLS, "chr1\t10\t11\tT1\tN1", True]]},
        {"what": "writer", "mode": 0, "order": "Unsorted", "explicit": False, "use_write": False,
         "recs": [["A\tB", "1\t2", True], ["A\tB", "3\t4", True]]},
        {"what": "sorter", "cap": 3, "n": 10},
        {"what": "sorter", "cap": 2, "n": 5},
        {"what": "sorter", "cap": 1, "n": 259},
        {"what": "peekable", "items": [0, 4, 0], "ops": ["peek", "iter", "next", "dotnext", "peek", "dotnext", "next", "peek"], "nomodel": True},
        {"what": "sorter", "cap": 3, "n": 8, "fail_spill": 1, "nomodel": True},
        {"what": "writer", "mode": 0, "fault": 3, "nomodel": True, "recs": [["A\tB", "%d\t%d" % (i, i), True] for i in range(5)]},
        {"what": "reader", "file": "gz", "lines": ["#a b\n", "A\tB\n"] + ["%d\t%d\n" % (i, i) for i in range(12)], "k": 3, "lenient": False, "via_iter": False},
        {"what": "reader", "file": "plain", "lines": ["A\tB\n"] + ["%d\t%d\n" % (i, i) for i in range(12)], "k": 3, "lenient": False, "via_iter": True},
        {"what": "overlap", "case": dict(K.corpus()[4], peek_sub=True)},
        {"what": "sorter", "cap": 1, "n": 4},
        {"what": "overlap", "case": K.corpus()[2]},
    ]


def shrink(case):
    w = case["what"]
    if w == "overlap":
        for c in K.shrink(case["case"]):
            yield dict(case, case=c)
    elif w == "reader" and case.get("strict"):
        ls = case["lines"]
        for i in range(2, len(ls)):          # keep the version pragma and the column line
            bad = [b if b < i + 1 else b - 1 for b in case["bad"] if b != i + 1]
            yield dict(case, lines=ls[:i] + ls[i + 1:], bad=bad)
        if case["k"] > 0:
            yield dict(case, k=case["k"] - 1)
    elif w == "reader":
        ls = case["lines"]
        for i in range(len(ls)):
            yield dict(case, lines=ls[:i] + ls[i + 1:])
        if case["k"] > 0:
            yield dict(case, k=case["k"] - 1)
    elif w == "writer":
        rs = case["recs"]
        for i in range(1, len(rs)):          # the first record fixes the column names
            yield dict(case, recs=rs[:i] + rs[i + 1:])
    elif w == "peekable":
        for i in range(len(case["ops"])):
            yield dict(case, ops=case["ops"][:i] + case["ops"][i + 1:])
    else:
        if case["n"] > 0:
            yield dict(case, n=case["n"] - 1)
        if case["cap"] > 1:
            yield dict(case, cap=case["cap"] - 1)
