"""C07 - The external sorter returns a sorted permutation for every capacity and order."""
import ast
import os
import shutil
import tempfile
from collections import OrderedDict

PID = "C07"
CLUSTER = "Sorter"
PROPS = "props/C07.v"
N_QUICK = 4000
N_THOROUGH = 60000
RULE = ("histories add*/list(sorter) on Sorter and MafSorter through the public API: multisets of 0-9 items over a "
        "small key alphabet (ties, duplicates), every capacity 1..n+1 (plus 0), both spill policies, shuffled insertion "
        "orders, re-iteration and adding after iterating; generic sorter with int/str/tuple/list/float/bool keys "
        "including 0, '', (), [], 0.0, False as keys and as values; items whose key function or codec raises; "
        "MAF records under the three codec configurations (scheme, explicit names, inferred) and under the built-in typed "
        "scheme gdc-1.0.0 (all-digit barcodes included), text values holding VT/FF/FS/GS/RS/NEL/LS/PS, str items that "
        "encode to zero bytes, capacities 255-258/300 and 10000 with the record just beyond, both sortable orders, "
        "contigs present/absent; sequences of 2-4 sorter sessions in ONE interpreter, each with its own order and its own "
        "contig list (same names ranked differently, names left out -> the add must raise ValueError, no list); "
        "two or three sorters ALIVE at the same time in one interpreter sharing the temporary directory, their adds and "
        "iterations interleaved; callers that re-use ONE record object (MafRecord, or a mutable item of the generic "
        "sorter) or add/remove a column of the FIRST record after handing it over (before and after the first spill; inferred-names codec included) - "
        "callers of the first kind use ONE record object (MafRecord, or a mutable item of the generic "
        "sorter) and edit it in place between adds - the oracle compares with the texts as they were at hand-over; about half of the cases iterate through the other public entry points (next() by hand and beyond "
        "exhaustion, a partial iteration followed by a fresh iter(), _MergingIterator/_SortedIterator driven directly "
        "over the sorter's spill files through __iter__/next()/__next__/peek_key/has_next/close, also closed early). Streams: valid, single-defect (one raising item), boundary (n multiple of cap, n=0, "
        "cap=1, cap=n, cap=n+1, all ties), adversarial (falsy keys/values, cap 0). Every case is also run under a "
        "second (capacity, policy, insertion order) and its key sequence compared. Non-trivial: at least one "
        "iteration returning two or more records; distinct by hash of the case")
ASSUMPTIONS = [
    "the order on MAF sort keys is the documented one (chromosome by contig index or by name, then start, end as numbers; "
    "barcodes first for BarcodesAndCoordinate): property C08; here it is used to rank the keys sent to the model",
    "sorted()/heapq satisfy the pick_min contract of DESIGN section 3; the extracted model picks the left-most minimum "
    "and outputs are compared modulo the order inside runs of equal keys",
    "codec hypothesis of the theorems (decode(encode x) keeps text and key class) is checked case by case by the oracle",
]
TRUSTED_EXTRA = ["ranking of python keys by the harness (ints as such; str/tuple/list by length; MAF keys by the documented order)"]

WORK = "/verif/work"
EXC = {"KeyError": 1, "ValueError": 2, "TypeError": 3, "IndexError": 4, "AssertionError": 5,
       "StopIteration": 6, "NotImplementedError": 7, "OSError": 8}
COLS = ["Tumor_Sample_Barcode", "Matched_Norm_Sample_Barcode", "Chromosome", "Start_Position", "End_Position", "Id", "Note"]
# characters at which str.splitlines() breaks but which do not end a line of a MAF file
BREAKS = [0x0b, 0x0c, 0x1c, 0x1d, 0x1e, 0x85, 0x2028, 0x2029]
CONTIGS = ["chr10", "chr2", "chrX", "chr1"]           # deliberately not in name order
CHROMS = ["chr1", "chr10", "chr2", "chrX"]
PLAIN = ("pint", "pstr", "ptup", "plist", "praw")


def exc_code(e):
    n = type(e).__name__
    if n == "MafFormatException":
        return [10]
    if isinstance(e, OSError):
        import errno
        return [8, 1 if e.errno == errno.ENOENT else 0]
    return [EXC.get(n, 9)]


# ------------------------------------------------------------ python items
def py_key(flavour, k):
    """the python key object of rank k for the tuple flavours"""
    t = flavour.split("/")[1]
    if t == "int":
        return k
    if t == "str":
        return "a" * k
    if t == "tup":
        return tuple(range(k))
    if t == "float":
        return float(k) / 2.0
    if t == "bool":
        return bool(k)
    raise ValueError(flavour)


def py_item(flavour, k, i, bad, off):
    if flavour == "mut":
        return [k, i, bad, 0]              # a mutable item: the caller may re-use and edit it
    if flavour == "pint":
        return k + off
    if flavour in ("pstr", "praw"):
        return "a" * k
    if flavour == "ptup":
        return tuple(range(k))
    if flavour == "plist":
        return [0] * k
    return (k, i, bad, 0)


def item_rank(flavour, obj, off):
    """[k, id] of an object returned by the sorter"""
    if flavour == "pint":
        return [obj - off, 0]
    if flavour in ("pstr", "ptup", "plist", "praw"):
        return [len(obj), 0]
    return [obj[0], obj[1]]


class TupleCodec:
    def encode(self, obj):
        return bytearray("%d,%d,%d" % tuple(obj[:3]), "utf-8")

    def decode(self, data, start, length):
        k, i, b = (int(x) for x in bytes(data[start:start + length]).decode("utf-8").split(","))
        if b == 2:
            raise ValueError("undecodable")
        return (k, i, b, 1)


class RawCodec:
    """the text of a str item as it is: the empty string is stored as zero bytes"""

    def encode(self, obj):
        return bytearray(obj, "utf-8")

    def decode(self, data, start, length):
        return bytes(data[start:start + length]).decode("utf-8")


class PlainCodec:
    def encode(self, obj):
        return bytearray(repr(obj), "utf-8")

    def decode(self, data, start, length):
        return ast.literal_eval(bytes(data[start:start + length]).decode("utf-8"))


def make_generic(case, cap, always, tmp):
    from maflib.sorter import Sorter
    fl = case["flavour"]
    off = case.get("off", 0)
    if fl in PLAIN:
        if fl == "pint":
            key = lambda x: x - off  # noqa: E731
        else:
            key = lambda x: x  # noqa: E731
        codec = RawCodec() if fl == "praw" else PlainCodec()
    else:
        def key(x):
            if x[2] == 1:
                raise ValueError("no key")
            if x[2] == 3 and x[3] == 1:
                raise TypeError("no key for the decoded copy")
            return py_key("t/int" if fl == "mut" else fl, x[0])
        codec = TupleCodec()
    return Sorter(cap, codec, key, tmp_dir=tmp, always_spill=always), key, codec


# ------------------------------------------------------------ MAF items
def _scheme():
    from maflib.column_types import IntegerColumn, StringColumn
    from maflib.schemes import MafScheme

    class SorterScheme(MafScheme):
        @classmethod
        def version(cls):
            return "verif-sorter"

        @classmethod
        def annotation_spec(cls):
            return "verif-sorter"

        @classmethod
        def __column_dict__(cls):
            return OrderedDict([(COLS[0], StringColumn), (COLS[1], StringColumn), (COLS[2], StringColumn),
                                (COLS[3], IntegerColumn), (COLS[4], IntegerColumn), (COLS[5], StringColumn),
                                (COLS[6], StringColumn)])

        @classmethod
        def __column_desc__(cls):
            return OrderedDict((c, "") for c in COLS)

    return SorterScheme()


def maf_fields(case, k, i):
    """the record of key class k (index into case['keys']) and identity i"""
    tb, nb, ch, st, en = case["keys"][k]
    note = "n"
    if case.get("breaks"):
        note = "n" + chr(BREAKS[i % len(BREAKS)]) + "see" + chr(BREAKS[(i // len(BREAKS) + 3) % len(BREAKS)])
    return [tb, nb, ch, str(st), str(en), "r%d" % i, note]


def _gdc_scheme():
    from maflib.scheme_factory import find_scheme
    return find_scheme(version="gdc-1.0.0", annotation=None)


def names_of(case):
    if case.get("codec") == "gdc":
        import so_common
        return so_common.GDC_NAMES
    return COLS


def id_column(case):
    return "Hugo_Symbol" if case.get("codec") == "gdc" else "Id"


def maf_record(case, k, i, scheme):
    from maflib.record import MafRecord
    from maflib.validation import ValidationStringency
    if case["codec"] == "gdc":
        # a line of the built-in typed scheme gdc-1.0.0 (34 columns); the identity travels in Hugo_Symbol
        import so_common
        tb, nb, ch, st, en = case["keys"][k]
        d = dict(so_common.GDC_TEMPLATE)
        d.update({"Tumor_Sample_Barcode": tb, "Matched_Norm_Sample_Barcode": nb, "Chromosome": ch,
                  "Start_Position": str(st), "End_Position": str(en), "Hugo_Symbol": "r%d" % i})
        line = "\t".join(d.get(n, "") for n in so_common.GDC_NAMES)
        return MafRecord.from_line(line, scheme=scheme, validation_stringency=ValidationStringency.Strict)
    line = "\t".join(maf_fields(case, k, i))
    if case["codec"] == "scheme":
        return MafRecord.from_line(line, scheme=scheme, validation_stringency=ValidationStringency.Strict)
    return MafRecord.from_line(line, column_names=COLS, validation_stringency=ValidationStringency.Strict)


def case_contigs(case):
    """the contig list of this sorter: None, the default list, or the case's own list"""
    c = case.get("contigs")
    if not c:
        return None
    return list(CONTIGS) if c is True else list(c)


def unlisted(case, k):
    """key class k names a chromosome that the sorter's contig list does not have: the key function must raise"""
    cl = case_contigs(case)
    return bool(cl) and case["keys"][k][2] not in cl


def maf_rank_table(case):
    """rank of each key class under the documented order (C08); 0 for unlisted chromosomes (their add raises)"""
    cl = case_contigs(case)

    def doc_key(t):
        tb, nb, ch, st, en = t
        if cl and ch not in cl:
            return None
        c = cl.index(ch) if cl else ch
        co = (c, st, en)
        return (tb, nb) + co if case["order"] == "BarcodesAndCoordinate" else co
    ds = sorted(set(doc_key(t) for t in case["keys"]) - {None})
    return [(ds.index(doc_key(t)) if doc_key(t) is not None else 0) for t in case["keys"]]


def make_maf(case, cap, always, tmp, scheme):
    from maflib.sorter import MafSorter, MafSorterCodec, Sorter
    from maflib.sort_order import SortOrder
    contigs = case_contigs(case)
    if case["codec"] in ("scheme", "gdc") and always and case.get("api", "MafSorter") == "MafSorter":
        s = MafSorter(case["order"], scheme=scheme, max_objects_in_ram=cap, contigs=contigs)
        s._tmp_dir = tmp      # MafSorter has no tmp_dir parameter; only the location of the spill files changes
        return s, SortOrder.find(case["order"])(contigs=contigs).sort_key(), None
    so = SortOrder.find(case["order"])(contigs=contigs)
    if case["codec"] in ("scheme", "gdc"):
        codec = MafSorterCodec(scheme=scheme)
    elif case["codec"] == "names":
        codec = MafSorterCodec(column_names=list(COLS))
    else:
        codec = MafSorterCodec()
    return Sorter(cap, codec, so.sort_key(), tmp_dir=tmp, always_spill=always), so.sort_key(), codec


# ------------------------------------------------------------ generation
def _ops(items, reiter, tail):
    ops = [["add"] + list(it) for it in items] + [["iter"]]
    if reiter:
        ops.append(["iter"])
    if tail:
        ops += [["add"] + list(it) for it in tail] + [["iter"]]
    return ops


def _alt(rng, n):
    return {"cap": rng.randint(1, n + 1), "always": rng.random() < 0.5, "seed": rng.randint(0, 10 ** 6)}


def _gen_generic(rng, stream):
    n = rng.choice([0, 1, 2, 3, 3, 4, 5, 6, 7, 9])
    nk = rng.choice([1, 2, 3, 4, 6])
    fl = rng.choice(["t/int", "t/int", "t/str", "t/tup", "t/float", "t/bool", "pint", "pstr", "ptup", "plist", "praw"])
    lo = 0
    if fl == "t/int":
        lo = rng.choice([-2, -1, 0, 0])
    if fl == "t/bool":
        nk = min(nk, 2)
    items = [[lo + rng.randrange(nk), i, 0] for i in range(n)]
    if fl in PLAIN:
        items = [[k, 0, 0] for k, _, _ in items]
    cap = rng.randint(1, n + 1)
    if stream == "boundary" and n:
        cap = rng.choice([1, n, n + 1, max(1, n // 2), max(1, n // 3)])
        if rng.random() < 0.3:
            items = [[items[0][0], it[1], 0] for it in items]      # all ties
    if stream == "adversarial":
        if rng.random() < 0.15:
            cap = 0
        if rng.random() < 0.5 and items:
            items[rng.randrange(n)][0] = lo                        # make sure the falsy key / value is there
    if stream == "defect" and items and fl not in PLAIN:
        items[rng.randrange(n)][2] = rng.choice([1, 2, 3])
    off = rng.choice([0, 0, 1, -1]) if fl == "pint" else 0
    if stream == "boundary" and rng.random() < 0.06:
        # capacities around 256 (CPython caches the int objects up to 256) and the record just beyond
        fl, lo, off = "t/int", 0, 0
        cap = rng.choice([255, 256, 257, 258, 300])
        n = rng.choice([cap - 1, cap, cap + 1, 2 * cap + 1])
        items = [[rng.randrange(5), i, 0] for i in range(n)]
    tail = []
    if rng.random() < 0.25:
        tail = [[lo + rng.randrange(nk), n + j, 0] for j in range(rng.randint(1, 3))]
        if fl in PLAIN:
            tail = [[k, 0, 0] for k, _, _ in tail]
    return {"stream": stream, "flavour": fl, "cap": cap, "always": rng.random() < 0.5, "off": off,
            "ops": _ops(items, rng.random() < 0.5, tail), "alt": _alt(rng, n + len(tail))}


def _gen_maf(rng, stream):
    nk = rng.choice([1, 2, 3, 4, 5])
    keys = []
    for _ in range(nk):
        keys.append([rng.choice(["TB-A", "TB-B", "123", "45"]), rng.choice(["NB-A", "NB-B", "7", "10"]), rng.choice(CHROMS),
                     rng.choice([1, 2, 9, 10, 100]), rng.choice([1, 2, 9, 10, 100, 1000])])
        if keys[-1][4] < keys[-1][3]:
            keys[-1][4] = keys[-1][3]
    n = rng.choice([0, 1, 2, 3, 4, 5, 6, 8])
    items = [[rng.randrange(nk), i, 0] for i in range(n)]
    cap = rng.randint(1, n + 1)
    if stream == "boundary" and n:
        cap = rng.choice([1, n, n + 1, max(1, n // 2)])
    return {"stream": stream, "flavour": "maf", "cap": cap, "always": rng.random() < 0.6,
            "codec": rng.choice(["scheme", "names", "inferred", "gdc"]), "breaks": rng.random() < 0.3,
            "order": rng.choice(["Coordinate", "BarcodesAndCoordinate"]), "contigs": rng.random() < 0.5,
            "api": rng.choice(["MafSorter", "Sorter"]), "keys": keys,
            "edit_first": rng.choice([None, None, None, "add", "del"]), "edit_at": rng.randint(1, max(1, n)),
            "ops": _ops(items, rng.random() < 0.5, []), "alt": _alt(rng, n)}


def _gen_reuse(rng, stream):
    """the caller fills ONE object again and again, editing it in place between adds"""
    if rng.random() < 0.6:
        c = _gen_maf(rng, "valid")
    else:
        c = _gen_generic(rng, "valid")
        c["flavour"] = "mut"
        c["ops"] = [([o[0], o[1], o[2] if len(o) > 2 else 0, 0] if o[0] == "add" else o) for o in c["ops"]]
        n = 0
        for o in c["ops"]:
            if o[0] == "add":
                o[2] = n
                n += 1
    c["reuse"] = True
    c["edit_first"] = None
    c["stream"] = stream
    return c


def _gen_interleaved(rng, stream):
    """two or three sorters alive at the same time, sharing the temporary directory, adds interleaved, one
    iterated while the others still hold spill files"""
    ss = []
    for _ in range(rng.randint(2, 3)):
        r = rng.random()
        if r < 0.45:
            c = _gen_maf(rng, "valid")
        elif r < 0.6:
            c = _gen_reuse(rng, "valid")
        else:
            c = _gen_generic(rng, "valid")
            if c["flavour"] in PLAIN:
                c["flavour"] = "t/int"
                n = 0
                for o in c["ops"]:
                    if o[0] == "add":
                        o[2] = n
                        n += 1
        if rng.random() < 0.7:
            c["cap"] = rng.randint(1, 2)               # make sure chunks with the same ordinal exist side by side
            c["always"] = True
        ss.append(c)
    sched = [k for k, c in enumerate(ss) for _ in c["ops"]]
    rng.shuffle(sched)
    return {"stream": stream, "flavour": "interleaved", "sessions": ss, "schedule": sched}


def _gen_sessions(rng, stream):
    """2-4 sorter sessions in one process: different orders, and contig lists that rank the same names
    differently, leave names out, or are absent"""
    ss = []
    for _ in range(rng.randint(2, 4)):
        c = _gen_maf(rng, "valid")
        r = rng.random()
        if r < 0.2:
            c["contigs"] = False
        else:
            cl = list(CHROMS)
            rng.shuffle(cl)
            if rng.random() < 0.4:
                cl = cl[:rng.randint(2, 3)]            # some chromosomes are not listed: their records must be refused
            c["contigs"] = cl
        ss.append(c)
    return {"stream": stream, "flavour": "sessions", "sessions": ss}


def _style(rng, c):
    """a share of the iterations goes through the other public entry points"""
    if c["flavour"] in ("sessions", "interleaved"):
        for x in c["sessions"]:
            _style(rng, x)
        return c
    r = rng.random()
    if r < 0.2:
        c["iter_style"] = "next-beyond"
    elif r < 0.35:
        c["iter_style"] = "partial-then-fresh"
        c["pulls"] = rng.randint(0, 4)
    elif r < 0.55:
        c["iter_style"] = "classes"
    return c


def generate(rng, n):
    return [_style(rng, c) for c in _generate(rng, n)]


def _generate(rng, n):
    out = []
    for _ in range(n):
        stream = rng.choice(["valid", "valid", "boundary", "defect", "adversarial"])
        r0 = rng.random()
        if r0 < 0.10:
            out.append(_gen_sessions(rng, stream))
            continue
        if r0 < 0.20:
            out.append(_gen_interleaved(rng, stream))
            continue
        if r0 < 0.30:
            out.append(_gen_reuse(rng, stream))
            continue
        if rng.random() < 0.3:
            out.append(_gen_maf(rng, "valid" if stream in ("defect", "adversarial") else stream))
        else:
            out.append(_gen_generic(rng, stream))
    return out


def _maf_session(contigs, order):
    keys = [["TB-A", "NB-A", ch, p, p] for ch in ("chr2", "chrX", "chr1") for p in (5, 1)]
    items = [[k, i, 0] for i, k in enumerate([0, 2, 4, 1, 3, 5, 2])]
    return {"stream": "corpus", "flavour": "maf", "cap": 2, "always": True, "codec": "names", "order": order,
            "contigs": contigs, "api": "Sorter", "keys": keys, "ops": _ops(items, False, []),
            "alt": {"cap": 3, "always": False, "seed": 7}}


def corpus():
    alt = {"cap": 2, "always": True, "seed": 1}
    return [
        # Sorter(10, key=x-1) over [3,1,2,1,4,5]: the pinned tree returned [1] (key 0 is falsy)
        {"stream": "corpus", "flavour": "pint", "cap": 10, "always": True, "off": 1,
         "ops": _ops([[2, 0, 0], [0, 0, 0], [1, 0, 0], [0, 0, 0], [3, 0, 0], [4, 0, 0]], True, []), "alt": alt},
        # values 0: the pinned tree returned []
        {"stream": "corpus", "flavour": "pint", "cap": 2, "always": True, "off": 0,
         "ops": _ops([[2, 0, 0], [0, 0, 0], [1, 0, 0], [0, 0, 0]], False, []), "alt": alt},
        # empty values / empty keys
        {"stream": "corpus", "flavour": "pstr", "cap": 2, "always": True, "off": 0,
         "ops": _ops([[2, 0, 0], [0, 0, 0], [1, 0, 0]], False, []), "alt": alt},
        {"stream": "corpus", "flavour": "ptup", "cap": 3, "always": False, "off": 0,
         "ops": _ops([[1, 0, 0], [0, 0, 0], [2, 0, 0], [0, 0, 0]], True, []), "alt": alt},
        {"stream": "corpus", "flavour": "t/int", "cap": 2, "always": True, "off": 0,
         "ops": _ops([[1, 0, 0], [0, 1, 0], [-1, 2, 0], [0, 3, 0], [2, 4, 0]], True, []), "alt": alt},
        {"stream": "corpus", "flavour": "t/float", "cap": 1, "always": True, "off": 0,
         "ops": _ops([[1, 0, 0], [0, 1, 0], [2, 2, 0]], False, []), "alt": alt},
        # n = 0 ; n an exact multiple of the capacity
        {"stream": "corpus", "flavour": "t/int", "cap": 3, "always": True, "off": 0, "ops": _ops([], True, []), "alt": alt},
        {"stream": "corpus", "flavour": "t/int", "cap": 2, "always": False, "off": 0,
         "ops": _ops([[3, 0, 0], [1, 1, 0], [2, 2, 0], [1, 3, 0]], True, []), "alt": alt},
        # seeded change: contig ranks memoised in a class-level dict shared by every sort order of the process.
        # Two sorters with contig lists that rank the same names differently; a third whose list lacks a name.
        {"stream": "corpus", "flavour": "sessions", "sessions": [
            dict(_maf_session(["chr1", "chr2", "chrX"], "Coordinate"), cap=2),
            dict(_maf_session(["chr1", "chrX", "chr2"], "Coordinate"), cap=1),
            dict(_maf_session(["chrX", "chr1"], "BarcodesAndCoordinate"), cap=3)]},
        # seeded change: the sort key of "the most recent record object" memoised by identity -> a caller who
        # re-uses one record object and edits it in place got stale keys
        dict(_maf_session(None, "Coordinate"), cap=4, reuse=True),
        dict(_maf_session(["chr1", "chr2", "chrX"], "BarcodesAndCoordinate"), cap=10, always=False, reuse=True, codec="scheme"),
        {"stream": "corpus", "flavour": "mut", "cap": 3, "always": True, "off": 0, "reuse": True,
         "ops": _ops([[3, 0, 0], [1, 1, 0], [2, 2, 0], [1, 3, 0], [0, 4, 0]], True, []), "alt": alt},
        # capacity beyond the small-int cache of CPython, and the default capacity of MafSorter (10000): the record
        # just beyond the capacity (seeded change: `is` for `==` in the stash-full test)
        {"stream": "corpus", "flavour": "t/int", "cap": 257, "always": True, "off": 0,
         "ops": _ops([[i % 3, i, 0] for i in range(259)], False, []), "alt": {"cap": 300, "always": False, "seed": 5}},
        {"stream": "corpus", "flavour": "t/int", "cap": 10000, "always": True, "off": 0, "big": True,
         "ops": _ops([[i % 2, i, 0] for i in range(10001)], False, []), "alt": {"cap": 10000, "always": False, "seed": 5}},
        # a record whose text is empty (zero bytes in the spill file) in the middle of a chunk
        {"stream": "corpus", "flavour": "praw", "cap": 3, "always": True, "off": 0,
         "ops": _ops([[2, 0, 0], [0, 0, 0], [1, 0, 0], [3, 0, 0], [0, 0, 0], [1, 0, 0]], True, []), "alt": alt},
        # values holding the characters at which str.splitlines() breaks (VT FF FS GS RS NEL LS PS); a typed
        # built-in scheme with all-digit sample barcodes under BarcodesAndCoordinate
        dict(_maf_session(None, "Coordinate"), cap=2, breaks=True),
        dict(_maf_session(None, "Coordinate"), cap=3, breaks=True, codec="scheme", always=False),
        {"stream": "corpus", "flavour": "maf", "cap": 2, "always": True, "codec": "gdc", "order": "BarcodesAndCoordinate",
         "contigs": False, "api": "MafSorter",
         "keys": [["123", "N1", "chr1", 5, 5], ["45", "N1", "chr1", 5, 5], ["TB-A", "7", "chr2", 1, 1], ["9", "10", "chr1", 1, 2]],
         "ops": _ops([[0, 0, 0], [1, 1, 0], [2, 2, 0], [3, 3, 0], [1, 4, 0]], True, []), "alt": {"cap": 4, "always": False, "seed": 3}},
        # pinned tree before 22d153c: an inferred-names codec kept record.keys(), a live view of the FIRST record;
        # the caller adding / removing a column of that record after hand-over (before the first spill, and after
        # it) made the other records fail to re-parse
        dict(_maf_session(None, "Coordinate"), cap=4, codec="inferred", edit_first="add", edit_at=1),
        dict(_maf_session(None, "Coordinate"), cap=2, codec="inferred", edit_first="del", edit_at=3),
        dict(_maf_session(None, "BarcodesAndCoordinate"), cap=3, codec="inferred", always=False, edit_first="add", edit_at=5),
        # the cursor classes through their own methods (next() aliases, __iter__, beyond exhaustion, closed early)
        {"stream": "corpus", "flavour": "t/int", "cap": 2, "always": True, "off": 0, "iter_style": "classes",
         "ops": _ops([[3, 0, 0], [1, 1, 0], [2, 2, 0], [1, 3, 0], [0, 4, 0]], True, []), "alt": alt},
        dict(_maf_session(["chr1", "chr2", "chrX"], "Coordinate"), cap=3, iter_style="classes"),
        {"stream": "corpus", "flavour": "t/str", "cap": 2, "always": True, "off": 0, "iter_style": "next-beyond",
         "ops": _ops([[3, 0, 0], [0, 1, 0], [2, 2, 0]], True, []), "alt": alt},
        {"stream": "corpus", "flavour": "pint", "cap": 2, "always": False, "off": 1, "iter_style": "partial-then-fresh", "pulls": 2,
         "ops": _ops([[2, 0, 0], [0, 0, 0], [1, 0, 0]], True, []), "alt": alt},
        # seeded change: spill files named by pid and chunk number -> two sorters alive at the same time
        # overwrote each other's chunks
        {"stream": "corpus", "flavour": "interleaved", "schedule": [0, 1, 0, 1, 0, 1, 0, 1, 0, 1, 1, 0],
         "sessions": [
             {"stream": "corpus", "flavour": "t/int", "cap": 2, "always": True, "off": 0,
              "ops": _ops([[3, 0, 0], [1, 1, 0], [2, 2, 0], [0, 3, 0]], True, []), "alt": alt},
             {"stream": "corpus", "flavour": "t/int", "cap": 2, "always": True, "off": 0,
              "ops": _ops([[13, 10, 0], [11, 11, 0], [12, 12, 0], [10, 13, 0]], True, []), "alt": alt}]},
    ]


def shrink(case):
    if case["flavour"] == "interleaved":
        ss = case["sessions"]
        for i in range(len(ss)):
            for c in shrink(ss[i]):
                yield dict(case, sessions=ss[:i] + [c] + ss[i + 1:])
        return
    if case["flavour"] == "sessions":
        ss = case["sessions"]
        for i in range(len(ss)):
            if len(ss) > 1:
                yield dict(case, sessions=ss[:i] + ss[i + 1:])
        for i in range(len(ss)):
            for c in shrink(ss[i]):
                yield dict(case, sessions=ss[:i] + [c] + ss[i + 1:])
        return
    ops = case["ops"]
    for i in range(len(ops)):
        if ops[i][0] == "add" or sum(1 for o in ops if o[0] == "iter") > 1:
            yield dict(case, ops=ops[:i] + ops[i + 1:])
    if case["cap"] > 1:
        yield dict(case, cap=case["cap"] - 1)


# ------------------------------------------------------------ model wire
def _model_item(case, ranks, o):
    k = ranks[o[1]] if ranks is not None else o[1]
    bad = o[3]
    if ranks is not None and unlisted(case, o[1]):
        bad = 1
    return [0, k, o[2], bad]


def _is_big(case):
    return bool(case.get("big")) or sum(1 for o in case.get("ops", []) if o[0] == "add") > 700


def skip_compare(case):
    """the extracted model sorts by repeated selection: thousands of records are left to the oracle"""
    if case["flavour"] in ("sessions", "interleaved"):
        return any(skip_compare(c) for c in case["sessions"])
    return _is_big(case)


def to_model(case):
    if case["flavour"] in ("sessions", "interleaved"):
        return [5] + [to_model(c) for c in case["sessions"]]
    if _is_big(case):
        return [0, 1, 1 if case["always"] else 0, []]
    ranks = maf_rank_table(case) if case["flavour"] == "maf" else None
    ops = [(_model_item(case, ranks, o) if o[0] == "add" else [1]) for o in case["ops"]]
    # a capacity the history never reaches behaves like any other such capacity: keep the model's numbers small
    n = sum(1 for o in case["ops"] if o[0] == "add")
    return [0, min(case["cap"], n + 1), 1 if case["always"] else 0, ops]


def _canon_items(items):
    """order inside runs of equal keys is the host's business: sort each run"""
    out, i = [], 0
    while i < len(items):
        j = i
        while j < len(items) and items[j][0] == items[i][0]:
            j += 1
        out.extend(sorted(items[i:j]))
        i = j
    return out


def _has_ties(case):
    ks = [o[1] for o in case["ops"] if o[0] == "add"]
    if case["flavour"] == "maf":
        r = maf_rank_table(case)
        ks = [r[k] for k in ks]
    return len(set(ks)) != len(ks)


def _step(case, items, exc):
    """an iteration that ends with an exception has yielded a prefix that depends on how the host breaks
    ties between cursors; it is compared only when all keys are distinct"""
    if exc is not None and _has_ties(case):
        return {"items": None, "exc": exc}
    return {"items": _canon_items(items), "exc": exc}


def from_model(case, sx):
    if case["flavour"] in ("sessions", "interleaved"):
        return {"sessions": [from_model(c, r) for c, r in zip(case["sessions"], sx)]}
    steps = []
    for o, r in zip(case["ops"], sx):
        if o[0] == "add":
            steps.append({"exc": (r[0][0] if r[0] else None)})
        else:
            items = [[x[0], x[1]] for x in r[0]]
            steps.append(_step(case, items, (r[1][0] if r[1] else None)))
    return {"steps": steps}


# ------------------------------------------------------------ implementation
class _Hist:
    """one live sorter driven through the public API, operation by operation"""

    def __init__(self, case, cap, always, tmp):
        self.case = case
        fl = self.fl = case["flavour"]
        self.scheme = (_gdc_scheme() if case.get("codec") == "gdc" else _scheme()) if fl == "maf" else None
        self.ranks = maf_rank_table(case) if fl == "maf" else None
        self.sorter, self.kf, self.codec = (make_maf(case, cap, always, tmp, self.scheme) if fl == "maf"
                                else make_generic(case, cap, always, tmp))
        self.tmp = tmp
        self.own_tmp = True      # False when other live sorters spill into the same directory
        self.steps, self.details = [], []
        self.added = []          # [rank, id, text, values] of every item handed over, as it was at hand-over
        self.shared = None       # the ONE object a re-using caller fills again and again
        self.first = None        # the first record handed over (the caller may go on editing it)
        self.nadd = 0

    def _maf_obj(self, k, i):
        fresh = maf_record(self.case, k, i, self.scheme)
        if not self.case.get("reuse"):
            return fresh
        if self.shared is None:
            self.shared = fresh
        else:
            for name in names_of(self.case):       # edit the caller's record in place
                self.shared[name].value = fresh[name].value
        return self.shared

    def _gen_obj(self, o):
        fl = self.fl
        obj = py_item(fl, o[1], o[2], o[3], self.case.get("off", 0))
        if fl == "mut" and self.case.get("reuse"):
            if self.shared is None:
                self.shared = obj
            else:
                self.shared[:] = obj               # same list object, new content
            return self.shared
        return obj

    def step(self, o):
        case, fl, sorter, added = self.case, self.fl, self.sorter, self.added
        if o[0] == "add":
            exc = None
            try:
                if fl == "maf":
                    if case.get("edit_first") and self.first is not None and self.nadd == case.get("edit_at", 1):
                        # the caller adds or removes a column of the FIRST record after having handed it over
                        try:
                            if case["edit_first"] == "add":
                                from maflib.column import MafColumnRecord
                                self.first["Extra"] = MafColumnRecord(key="Extra", value="x")
                            else:
                                del self.first[names_of(case)[-1]]
                        except Exception:  # noqa: BLE001
                            pass
                    obj = self._maf_obj(o[1], o[2])
                    text, vals = str(obj), [repr(v) for v in obj.column_values()]
                    self.nadd += 1
                    sorter += obj
                    if self.first is None:
                        self.first = obj
                    added.append([self.ranks[o[1]], o[2], text, vals])
                else:
                    obj = self._gen_obj(o)
                    text = repr(tuple(obj[:3]) if fl not in PLAIN else obj)
                    sorter += obj
                    added.append([o[1], o[2] if fl not in PLAIN else 0, text, None])
            except Exception as e:  # noqa: BLE001
                exc = exc_code(e)
            self.steps.append({"exc": exc})
            self.details.append(None)
            return
        got, exc = [], None
        api = []                 # problems seen while going through the alternative public entry points
        style = case.get("iter_style", "for")
        try:
            if style == "for":
                for r in sorter:
                    got.append(r)
            elif style == "partial-then-fresh":
                # pull a few records, abandon the iterator, start again with a fresh iter(): everything comes back
                it = iter(sorter)
                part = []
                for _ in range(case.get("pulls", 1)):
                    try:
                        part.append(next(it))
                    except StopIteration:
                        break
                    except Exception:  # noqa: BLE001   the fresh iteration below meets the same record again
                        break
                del it
                for r in sorter:
                    got.append(r)
                if len(part) > len(got):
                    api.append("partial-iteration-returned-more-than-the-full-one")
            else:
                # next() by hand, and beyond exhaustion: StopIteration has to be raised again and again
                it = iter(sorter)
                if iter(it) is not it:
                    api.append("iter(iterator)-is-not-the-iterator")
                while len(got) <= len(added) + 3:
                    try:
                        got.append(next(it))
                    except StopIteration:
                        break
                else:
                    api.append("iterator-never-raises-StopIteration")
                for _ in range(2):
                    try:
                        extra = next(it)
                        api.append("next()-after-exhaustion-returned-a-record")
                        got.append(extra)
                    except StopIteration:
                        pass
        except Exception as e:  # noqa: BLE001
            exc = exc_code(e)
        if style == "classes" and exc is None and self.own_tmp and self.codec is not None:
            try:
                api += self._cursor_classes(got)
            except Exception as e:  # noqa: BLE001
                api.append("cursor-classes-raised-%s" % type(e).__name__)
        items, texts, keys_sorted = [], [], True
        prev = None
        for r in got:
            try:
                if fl == "maf":
                    i = int(r[id_column(case)].value[1:])
                    kcls = next((a[0] for a in added if a[1] == i), -1)
                    items.append([kcls, i])
                    texts.append([i, str(r), [repr(v) for v in r.column_values()]])
                else:
                    items.append(item_rank(fl, r, case.get("off", 0)))
                    texts.append([items[-1][1], repr(tuple(r[:3]) if fl not in PLAIN else r), None])
            except Exception:  # noqa: BLE001      something that is not one of our records came back
                items.append([-1, -1])
                texts.append([-1, repr(r)[:80], None])
            try:
                kk = self.kf(r)
                if prev is not None and kk < prev[0]:
                    keys_sorted = False
                prev = (kk,)
            except Exception:  # noqa: BLE001
                pass
        self.steps.append(_step(case, items, exc))
        self.details.append({"n_items": len(items), "raw_keys": [x[0] for x in items], "texts": texts,
                             "sorted_by_real_lt": keys_sorted, "added": [list(a) for a in added], "api": api})

    def _ident(self, r):
        if self.fl == "maf":
            return str(r)
        return repr(tuple(r[:3]) if self.fl not in PLAIN else r)

    def _cursor_classes(self, got):
        """_MergingIterator and _SortedIterator over the spill files of this sorter, through their own public
        methods: __iter__, next(), __next__, peek_key(), has_next(), close()"""
        from maflib.sorter import _MergingIterator, _SortedIterator
        codec, kf = self.codec, self.kf
        paths = [os.path.join(self.tmp, f) for f in sorted(os.listdir(self.tmp))]
        bad = []
        if not paths:
            return bad
        want = sorted(self._ident(r) for r in got)

        def drain(it, use_next_alias):
            out = []
            while len(out) <= len(want) + 3:
                try:
                    out.append(it.next() if use_next_alias else next(it))
                except StopIteration:
                    return out
            bad.append("cursor-never-raises-StopIteration")
            return out

        m = _MergingIterator(paths=paths, codec=codec, key_func=kf)
        if iter(m) is not m:
            bad.append("merging-iterator-__iter__-is-not-self")
        seq = drain(m, True)
        for _ in range(2):
            try:
                m.next()
                bad.append("merging-iterator-next()-after-exhaustion-returned")
            except StopIteration:
                pass
        if sorted(self._ident(r) for r in seq) != want:
            bad.append("merging-iterator-next()-is-not-a-permutation: %d of %d" % (len(seq), len(want)))
        ks = [kf(r) for r in seq]
        if any(ks[i + 1] < ks[i] for i in range(len(ks) - 1)):
            bad.append("merging-iterator-next()-not-sorted")
        m.close()
        union = []
        for n, pth in enumerate(paths):
            c = _SortedIterator(path=pth, codec=codec, key_func=kf)
            if iter(c) is not c:
                bad.append("sorted-iterator-__iter__-is-not-self")
            if not c.has_next() or c.peek_key() is None:
                bad.append("sorted-iterator-on-a-spill-file-has-no-next")
            one = drain(c, n % 2 == 0)
            for _ in range(2):
                try:
                    c.next()
                    bad.append("sorted-iterator-next()-after-exhaustion-returned")
                except StopIteration:
                    pass
            if c.has_next() or c.peek_key() is not None:
                bad.append("sorted-iterator-exhausted-but-has_next")
            k1 = [kf(r) for r in one]
            if any(k1[i + 1] < k1[i] for i in range(len(k1) - 1)):
                bad.append("spill-file-not-sorted")
            union += one
            c.close()
            # closed early: the record already read is still handed out, then the cursor is exhausted
            c2 = _SortedIterator(path=pth, codec=codec, key_func=kf)
            c2.close()
            try:
                first = c2.next()
                if not one or self._ident(first) != self._ident(one[0]):
                    bad.append("sorted-iterator-closed-early-returned-a-different-record")
            except StopIteration:
                bad.append("sorted-iterator-closed-early-lost-the-record-it-had-read")
            try:
                c2.next()
                bad.append("sorted-iterator-closed-early-went-on-reading")
            except StopIteration:
                pass
            except Exception as e:  # noqa: BLE001
                bad.append("sorted-iterator-closed-early-raised-%s" % type(e).__name__)
            c2.close()
        if sorted(self._ident(r) for r in union) != want:
            bad.append("spill-files-together-are-not-the-records: %d of %d" % (len(union), len(want)))
        return bad

    def finish(self):
        try:
            self.sorter.close()
        except Exception:  # noqa: BLE001
            pass
        return self.steps, self.details


def _run_history(case, cap, always, ops, tmp):
    """drives the public API; returns (steps, details)"""
    h = _Hist(case, cap, always, tmp)
    try:
        for o in ops:
            h.step(o)
    finally:
        h.finish()
    return h.steps, h.details


def run_impl(case):
    if case["flavour"] == "sessions":
        # several sorters one after the other in ONE interpreter, each with its own order and contig list
        return {"sessions": [run_impl(c) for c in case["sessions"]]}
    import random
    os.makedirs(WORK, exist_ok=True)
    tmp = tempfile.mkdtemp(prefix="c07_", dir=WORK)
    if case["flavour"] == "interleaved":
        # several sorters ALIVE AT THE SAME TIME in one interpreter, sharing one temporary directory; their
        # operations are interleaved as the schedule says; all are closed at the end
        try:
            hs = [_Hist(c, c["cap"], c["always"], tmp) for c in case["sessions"]]
            for h in hs:
                h.own_tmp = False
            pos = [0] * len(hs)
            try:
                for k in case["schedule"]:
                    if pos[k] < len(case["sessions"][k]["ops"]):
                        hs[k].step(case["sessions"][k]["ops"][pos[k]])
                        pos[k] += 1
                for k, h in enumerate(hs):                  # whatever the schedule left out
                    for o in case["sessions"][k]["ops"][pos[k]:]:
                        h.step(o)
            finally:
                for h in hs:
                    h.finish()
            left = len(os.listdir(tmp))
        finally:
            shutil.rmtree(tmp, ignore_errors=True)
        return {"sessions": [{"steps": h.steps, "_details": h.details, "_alt": None, "_left": 0} for h in hs], "_left": left}
    try:
        steps, details = _run_history(case, case["cap"], case["always"], case["ops"], tmp)
        left = len(os.listdir(tmp))
        # the same multiset under another capacity, policy and insertion order
        alt = case["alt"]
        adds = [o for o in case["ops"] if o[0] == "add"]
        random.Random(alt["seed"]).shuffle(adds)
        a_steps, a_details = _run_history(case, alt["cap"], alt["always"], adds + [["iter"]], tmp)
    finally:
        shutil.rmtree(tmp, ignore_errors=True)
    return {"steps": steps, "_details": details, "_alt": {"steps": a_steps, "details": a_details}, "_left": left}


def comparable(obs):
    if "sessions" in obs:
        return {"sessions": [comparable(o) for o in obs["sessions"]]}
    return {"steps": obs["steps"]}


# ------------------------------------------------------------ oracle
def _clean(case):
    return all(o[0] != "add" or o[3] == 0 for o in case["ops"]) and case["cap"] >= 1


def oracle(case, obs):
    if case["flavour"] in ("sessions", "interleaved"):
        out = []
        if obs.get("_left"):
            out.append("spill-files-left-after-close: %d" % obs["_left"])
        for n, (c, o) in enumerate(zip(case["sessions"], obs["sessions"])):
            out += ["%s [session %d of %d, contigs %r]" % (v, n, len(case["sessions"]), case_contigs(c)) for v in oracle(c, o)]
        return out
    out = []
    if case["flavour"] == "maf":
        # a chromosome that the sorter's own contig list does not have must be reported (ValueError), not sorted in
        for n, (o, st) in enumerate(zip(case["ops"], obs["steps"])):
            if o[0] == "add" and unlisted(case, o[1]) and st["exc"] != [2]:
                out.append("unlisted-chromosome-accepted at op %d: %r is not in %r, add returned %r" % (
                    n, case["keys"][o[1]][2], case_contigs(case), st["exc"]))
        if out:
            return out
    if not _clean(case):
        # with raising items only: nothing may be lost silently
        for n, (st, d) in enumerate(zip(obs["steps"], obs["_details"])):
            if d is not None and st["exc"] is None and d["n_items"] != len(d["added"]):
                out.append("silent-loss at op %d: %d of %d records and no exception" % (n, d["n_items"], len(d["added"])))
        return out
    last_keys = None
    for n, (o, st, d) in enumerate(zip(case["ops"], obs["steps"], obs["_details"])):
        if o[0] == "add":
            if st["exc"] is not None and not (case["flavour"] == "maf" and unlisted(case, o[1])):
                out.append("add-raised at op %d: %r" % (n, st["exc"]))
            last_keys = None
            continue
        if st["exc"] is not None:
            out.append("iteration-raised at op %d: %r" % (n, st["exc"]))
            continue
        want = sorted([a[0], a[1]] for a in d["added"])
        got = sorted(st["items"])
        if got != want:
            out.append("not-a-permutation at op %d: returned %d of %d records" % (n, len(got), len(want)))
            continue
        if d["raw_keys"] != sorted(d["raw_keys"]):
            out.append("not-sorted at op %d: key ranks %r" % (n, d["raw_keys"]))
        if not d["sorted_by_real_lt"]:
            out.append("not-sorted-by-key-lt at op %d" % n)
        src = {}
        for a in d["added"]:
            src.setdefault((a[1], a[2]), []).append(a[3])
        for i, text, vals in d["texts"]:
            if (i, text) not in src:
                out.append("text-changed at op %d: %r" % (n, text[:60]))
                break
            if vals is not None and vals not in src[(i, text)]:
                out.append("values-changed at op %d: %r" % (n, vals[:6]))
                break
        for pb in d.get("api") or []:
            out.append("%s at op %d (iter_style=%s)" % (pb, n, case.get("iter_style", "for")))
        if last_keys is not None and last_keys != d["raw_keys"]:
            out.append("re-iteration-differs at op %d" % n)
        last_keys = d["raw_keys"]
    # independence of capacity, policy and insertion order
    its = [i for i, o in enumerate(case["ops"]) if o[0] == "iter"]
    if its and not out and obs.get("_alt"):
        final = obs["_details"][its[-1]]["raw_keys"]
        a = obs["_alt"]
        if a["steps"][-1].get("exc") is not None or a["details"][-1]["raw_keys"] != final:
            out.append("key-sequence-depends-on-configuration: cap=%d always=%s gives %r, cap=%d always=%s shuffled gives %r" % (
                case["cap"], case["always"], final, case["alt"]["cap"], case["alt"]["always"],
                a["details"][-1]["raw_keys"] if a["steps"][-1].get("exc") is None else a["steps"][-1]["exc"]))
    if obs.get("_left"):
        out.append("spill-files-left-after-close: %d" % obs["_left"])
    return out


def signature(case, violation):
    return violation.split(" ")[0]


def classify(case, obs):
    if case["flavour"] == "interleaved":
        kinds = sorted(set(c["flavour"] + ("/reuse" if c.get("reuse") else "") for c in case["sessions"]))
        return "%s/interleaved=%d/%s" % (case["stream"], len(case["sessions"]), "+".join(kinds))
    if case["flavour"] == "sessions":
        kinds = sorted(set((c["order"][0] + ("c" if case_contigs(c) else "-")) for c in case["sessions"]))
        return "%s/sessions=%d/%s" % (case["stream"], len(case["sessions"]), "+".join(kinds))
    n = sum(1 for o in case["ops"] if o[0] == "add")
    fl = ((case["flavour"] if case["flavour"] != "maf" else "maf/" + case["codec"]) + ("/reuse" if case.get("reuse") else "")
          + ("/edit-first-" + case["edit_first"] if case.get("edit_first") else "")
          + ("/" + case["iter_style"] if case.get("iter_style") else ""))
    if obs is None:
        return "%s/%s/error" % (case["stream"], fl)
    chunks = "nospill" if (not case["always"] and n < max(case["cap"], 1)) else ("1chunk" if n <= max(case["cap"], 1) else "merge")
    exc = any(s.get("exc") is not None for s in obs["steps"])
    return "%s/%s/%s/%s" % (case["stream"], fl, chunks, "raises" if exc else "ok")


def nontrivial(case, obs):
    if case["flavour"] in ("sessions", "interleaved"):
        return sum(1 for c, o in zip(case["sessions"], obs["sessions"]) if nontrivial(c, o)) >= 2
    return any(len(s.get("items") or []) >= 2 for s in obs["steps"])
