"""C20 - Registered extra schemes are first-class and registration is monotone.

A case is a history on a fresh interpreter: registration calls
`all_schemes(extra_filenames=[...])`, lookups `find_scheme` /
`find_scheme_class`, header validation `MafHeader.from_lines(...)`, and Strict
write+read round trips, over generated extra definition files (written under
/verif/work/<unique>/, removed afterwards).  After every operation every
version/annotation pair of the case's universe (all shipped definitions, all
definitions in the case's files, two absent pairs) is looked up with
`find_scheme`.  The registry is process-global, so every case runs in its own
interpreter (ISOLATE).
"""
import hashlib
import io
import json
import os
import shutil
import tempfile

from sexp import S, U, OPT
import C14

PID = "C20"
CLUSTER = "Schemes"
PROPS = "props/C20.v"
ISOLATE = True
N_QUICK = 64
N_THOROUGH = 640
RULE = ("histories of 2-9 operations (register / find_scheme / find_scheme_class / header validation / Strict "
        "write+read round trip / keep = parse a valid line under a resolved pair and keep the record / reuse = validate and "
        "Strict-write the kept record against the pair as resolved later) on a fresh interpreter over 1-4 generated extra files (extending shipped "
        "definitions, extending each other across files and calls, standalone, clones of shipped layouts; repeated "
        "names, the same file under another spelling, ill-formed files of each C14 kind, missing files), versions "
        "and annotations in the documented patterns gdc-N.N.N / gdc-N.N.N-word or not starting with gdc-; after "
        "every operation all pairs of the universe are looked up; streams valid / single-defect / boundary / "
        "adversarial; a case is non-trivial when at least one registration succeeded and a later operation "
        "looked the registered pairs up; distinct by hash of files+ops")
ASSUMPTIONS = C14.ASSUMPTIONS + [
    "the extra files and the shipped files do not change during a history (every registration re-reads all of them)",
    "file names are compared as given (two spellings of one path are two names, as in the library)",
    "histories are sequential: all_schemes() is not safe under concurrent registration from two threads (unchanged tree, not examined)",
    "a registered file that is deleted afterwards makes every later registration fail with FileNotFoundError (earlier "
    "registrations stay resolvable from the cache); version strings of other shapes such as 'gdc-1.0' cannot be sorted "
    "(TypeError) and fail the registration; a registered definition with zero columns is falsy (len 0) and is treated as "
    "'no scheme' by writer/record code - its round trip is reported as no-columns, not judged",
    "the Registry model identifies a synthesised column class with its (extra, base) structure and has no notion of python "
    "class-object identity; that a record parsed before a registration is still an instance of the column classes resolved "
    "after it (extend_class returns the same object for the same pair) is judged by the oracle on /repo only (keep/reuse ops)",
]
TRUSTED_EXTRA = C14.TRUSTED_EXTRA

HERR = ["HEADER_MISSING_VERSION", "HEADER_UNSUPPORTED_VERSION", "HEADER_MISSING_ANNOTATION_SPEC",
        "HEADER_UNSUPPORTED_ANNOTATION_SPEC"]
ABSENT = [["gdc-7.7.7", "gdc-7.7.7-absent"], ["gdc-1.0.0", "gdc-1.0.0-absent"]]


def digest(layout):
    return hashlib.sha1(json.dumps(layout).encode()).hexdigest()[:12]


def file_defs(case):
    """{file name: (version, annotation)} of the files that carry a definition"""
    out = {}
    for n, sp in case["files"].items():
        if sp["kind"] == "json" and "version" in sp["data"] and "annotation-spec" in sp["data"]:
            out[n] = (sp["data"]["version"], sp["data"]["annotation-spec"])
    return out


def universe(case):
    u = []
    for _, j in C14.builtin_files():
        u.append([j["version"], j["annotation-spec"]])
    for n, p in sorted(file_defs(case).items()):
        if list(p) not in u:
            u.append(list(p))
    for p in ABSENT:
        if p not in u:
            u.append(p)
    return u


# ------------------------------------------------------------ model wire
def _names(case):
    names = []
    for op in case["ops"]:
        if op[0] == "reg":
            names.extend(op[1])
    return names


def to_model(case):
    ops = []
    for op in case["ops"]:
        if op[0] == "reg":
            ops.append([0, [S(n) for n in op[1]]])
        else:
            code = {"findcls": 1, "find": 2, "hdr": 3, "rt": 3, "keep": 2, "reuse": 2}[op[0]]
            v, a = op[1], op[2]
            if op[0] == "rt" and v == a:
                a = None
            ops.append([code, OPT(v, S), OPT(a, S)])
    u = [[[S(v)], [S(a)]] for v, a in universe(case)]
    return [1, C14.enc_world(case["files"], _names(case), True), u, ops]


def _dec_scheme(s, digests):
    if s[0] == 0:
        return ["norestr"]
    return [U(s[1]), U(s[2]), digests[s[3]]]


def _dec_outcome(op, o, digests):
    if o[0] == 0:
        return {"exc": C14.dec_exn(o[1])}
    v = o[1]
    if op[0] == "reg":
        return {"ok": [_dec_scheme(s, digests) for s in v]}
    if op[0] in ("find", "findcls", "keep", "reuse"):
        return {"ok": _dec_scheme(v[0], digests) if v else None}
    return {"ok": [HERR[c] for c in v]}


def from_model(case, sx):
    table, steps = sx
    digests = [digest(C14.dec_layout(l)) for l in table]
    out = []
    for op, (o, looks) in zip(case["ops"], steps):
        out.append({"out": _dec_outcome(op, o, digests),
                    "look": [_dec_outcome(["find"], l, digests) for l in looks]})
    return {"steps": out}


# ------------------------------------------------------------ implementation
CANDS = ["abc", "5", "1", "0.5", "", "A", "ACGT", "Yes", "True", "+", "1;2",
         "01234567-89ab-cdef-0123-456789abcdef", ".", "-"]


def _sample(cls, name):
    from maflib.column_types import EnumColumn
    c = list(CANDS)
    try:
        if issubclass(cls, EnumColumn):
            c = [str(e.value) for e in cls.__enum_class__()] + c
    except Exception:
        pass
    for t in c:
        try:
            col = cls.build(name, t)
            # (a class over a base that is not a custom column builds a plain MafColumnRecord, which no
            #  record of that scheme accepts: C14's known finding .../base-is-not-a-custom-column; no sample then)
            if isinstance(col, cls) and not col.validate() and str(col) == t:
                return t
        except Exception:
            pass
    return None


class _KeepIO(io.StringIO):
    def close(self):
        pass


def _round_trip(v, a):
    """write one valid record under the header naming (v, a) in Strict mode and read it back"""
    import maflib.scheme_factory as sf
    from maflib.header import MafHeader
    from maflib.reader import MafReader
    from maflib.writer import MafWriter
    from maflib.record import MafRecord
    from maflib.validation import ValidationStringency as VS
    try:
        s = sf.find_scheme(version=v, annotation=a)
    except Exception as e:
        return "find-raised-" + type(e).__name__
    if s is None:
        return "no-scheme"
    names = s.column_names()
    if not names:
        return "no-columns"
    texts = [_sample(s.column_class(n), n) for n in names]
    if any(t is None for t in texts):
        return "no-sample"
    if all(t == "" for t in texts):
        return "no-sample"            # an all-empty line is not a data line
    line = "\t".join(texts)
    hl = ["#version " + v] + ([] if v == a else ["#annotation.spec " + a])
    try:
        h = MafHeader.from_lines(hl, validation_stringency=VS.Strict)
        out = _KeepIO()
        w = MafWriter.from_fd(out, h, validation_stringency=VS.Strict)
        rec = MafRecord.from_line(line, scheme=s, line_number=1, validation_stringency=VS.Strict)
        w += rec
        w.close()
        text = out.getvalue()
        if text.splitlines()[:len(hl)] != hl:
            return "header-not-written"
        if text.splitlines()[len(hl)] != "\t".join(names):
            return "column-names-not-written"
        r = MafReader(lines=text.splitlines(), validation_stringency=VS.Strict)
        recs = list(r)
        if type(r.scheme()).__name__ == "NoRestrictionsScheme":
            return "reader-fell-back-to-no-restrictions"
        if r.scheme().column_names() != names:
            return "reader-scheme-differs"
        if len(recs) != 1 or str(recs[0]) != line:
            return "record-differs"
        if r.validation_errors or r.header().validation_errors:
            return "reader-errors"
        if len(texts) > 1:
            try:
                MafRecord.from_line("\t".join(texts[:-1]), scheme=s, line_number=1, validation_stringency=VS.Strict)
                return "short-line-accepted"
            except Exception:
                pass
        return "ok"
    except Exception as e:
        return "raised-" + type(e).__name__ + ":" + str(getattr(getattr(e, "tpe", None), "name", ""))


def _sample_line(s):
    names = s.column_names()
    if not names:
        return None
    texts = [_sample(s.column_class(n), n) for n in names]
    if any(t is None for t in texts) or all(t == "" for t in texts):
        return None
    return "\t".join(texts)


def _keep(v, a):
    """parse a valid line under the scheme (v, a) resolves to now and keep the record"""
    import maflib.scheme_factory as sf
    from maflib.record import MafRecord
    from maflib.validation import ValidationStringency as VS
    s = sf.find_scheme(version=v, annotation=a)
    if s is None:
        return "no-scheme", None
    line = _sample_line(s)
    if line is None:
        return "no-sample", None
    try:
        rec = MafRecord.from_line(line, scheme=s, line_number=1, validation_stringency=VS.Strict)
        errs = rec.validate(validation_stringency=VS.Strict, scheme=s)
        if errs or str(rec) != line:
            return "not-accepted-when-parsed", None
    except Exception as e:
        return "raised-" + type(e).__name__, None
    return "ok", (rec, line)


def _reuse(v, a, kept):
    """validate and Strict-write the kept record against the scheme (v, a) resolves to NOW"""
    import maflib.scheme_factory as sf
    from maflib.header import MafHeader
    from maflib.writer import MafWriter
    from maflib.validation import ValidationStringency as VS
    rec, line = kept
    try:
        s = sf.find_scheme(version=v, annotation=a)
        if s is None:
            return "no-scheme"
        errs = rec.validate(validation_stringency=VS.Silent, scheme=s)
        if errs:
            return "kept-record-fails-validation:" + ",".join(sorted(set(e.tpe.name for e in errs)))
        hl = ["#version " + v] + ([] if v == a else ["#annotation.spec " + a])
        h = MafHeader.from_lines(hl, validation_stringency=VS.Strict)
        out = _KeepIO()
        w = MafWriter.from_fd(out, h, validation_stringency=VS.Strict)
        w += rec
        w.close()
        if out.getvalue().splitlines()[-1] != line:
            return "kept-record-renders-differently"
        return "ok"
    except Exception as e:
        return "raised-" + type(e).__name__ + ":" + str(getattr(getattr(e, "tpe", None), "name", ""))


def run_impl(case):
    import maflib.scheme_factory as sf
    from maflib.column_types import get_column_types

    ct = get_column_types()
    known = {id(c): n for n, c in ct}
    byname = {n: c for n, c in ct}
    os.makedirs(C14.WORK, exist_ok=True)
    wd = tempfile.mkdtemp(prefix="c20_", dir=C14.WORK)
    uni = universe(case)
    steps = []
    full = {}
    kept = {}

    acc = set(C14._base_api_problems())
    acc_seen = set()

    def obs(s):
        c = s if isinstance(s, type) else type(s)
        o = C14.obs_scheme(c, known)
        if o == ["norestr"]:
            return o
        if id(c) not in acc_seen:          # accessors, descriptions, is_basic, str: also for registered extras
            acc_seen.add(id(c))
            acc.update("%s for %s/%s" % (p, o[0], o[1]) for p in C14._accessor_problems(c))
        d = digest(o[2])
        full.setdefault(d, o[2])
        return [o[0], o[1], d]

    def call(f):
        try:
            return {"ok": f()}
        except Exception as e:
            return {"exc": C14.excname(e)}

    def look():
        out = []
        for v, a in uni:
            def one():
                s = sf.find_scheme(version=v, annotation=a)
                return None if s is None else obs(s)
            out.append(call(one))
        return out

    try:
        C14.write_files(wd, case["files"])
        for op in case["ops"]:
            extra = {}
            if op[0] == "reg":
                fn = [C14.real_path(wd, n) for n in op[1]]
                out = call(lambda: [obs(s) for s in sf.all_schemes(extra_filenames=fn)])
            elif op[0] == "find":
                def f():
                    s = sf.find_scheme(version=op[1], annotation=op[2])
                    return None if s is None else obs(s)
                out = call(f)
            elif op[0] in ("keep", "reuse"):
                def f():
                    s = sf.find_scheme(version=op[1], annotation=op[2])
                    return None if s is None else obs(s)
                out = call(f)
                if op[0] == "keep":
                    r, k = _keep(op[1], op[2])
                    extra["_keep"] = r
                    if k is not None:
                        kept[op[3]] = k
                else:
                    extra["_reuse"] = _reuse(op[1], op[2], kept[op[3]]) if op[3] in kept else "nothing-kept"
            elif op[0] == "findcls":
                def f():
                    s = sf.find_scheme_class(version=op[1], annotation=op[2])
                    return None if s is None else obs(s)
                out = call(f)
            else:
                v, a = op[1], op[2]
                if op[0] == "rt" and v == a:
                    a = None

                def f():
                    from maflib.header import MafHeader
                    lines = ([] if v is None else ["#version " + v]) + ([] if a is None else ["#annotation.spec " + a])
                    h = MafHeader.from_lines(lines)
                    return [e.tpe.name for e in h.validation_errors]
                out = call(f)
                if op[0] == "rt":
                    extra["_rt"] = _round_trip(op[1], op[2])
            steps.append(dict({"out": out, "look": look()}, **extra))
    finally:
        shutil.rmtree(wd, ignore_errors=True)
    # which synthesised classes of the expected layouts python can create
    typeok = {}
    for t in C14.spec_eval(case, "load_all", sorted(n for n in case["files"]))["terms"] + _all_terms(case):
        k = json.dumps(t)
        if k not in typeok:
            try:
                C14._real(t, byname)
                typeok[k] = True
            except TypeError:
                typeok[k] = False
            except KeyError:
                typeok[k] = True
    return {"steps": steps, "_typeok": typeok, "_acc": sorted(acc)}


def _all_terms(case):
    """terms of every prefix of registrations the history can reach"""
    out = []
    reg = []
    for op in case["ops"]:
        if op[0] == "reg":
            cand = reg + [n for n in dict.fromkeys(op[1]) if n not in reg]
            sp = C14.spec_eval(case, "load_all", cand)
            out.extend(sp["terms"])
            if not sp["ill"]:
                reg = cand
    return out


def skip_compare(case):
    """see C14.skip_compare: undocumented gdc- patterns are outside the model of the sort"""
    for sp in case["files"].values():
        if sp["kind"] == "json":
            for k in ("version", "annotation-spec"):
                v = sp["data"].get(k)
                if isinstance(v, str) and not C14.documented(v):
                    return True
    return False


def comparable(obs):
    return {"steps": [{"out": s["out"], "look": s["look"]} for s in obs["steps"]]}


# ------------------------------------------------------------ the property
def _documented(s):
    return C14.documented(s)


def _expect(case, names, typeok):
    """('ok', {pair: digest}) | ('ill', kinds) | ('dontcare', why) for the registry holding `names`"""
    sp = C14.spec_eval(case, "load_all", names)
    if sp["ill"]:
        return "ill", sorted(set(sp["ill"]))
    if any(typeok.get(json.dumps(t)) is False for t in sp["terms"]):
        return "ill", ["uncreatable-class"]
    if sp["unclean"]:
        return "dontcare", "duplicate column names"
    for a, v in sp["versions"].items():
        if not _documented(a) or not _documented(v):
            return "dontcare", "undocumented version pattern"
    return "ok", {(sp["versions"][a], a): digest(lay) for a, lay in sp["layouts"].items()}


def oracle(case, obs):
    out = [p + " (scheme accessors disagree with the resolved layout)" for p in obs.get("_acc", [])]
    uni = [tuple(p) for p in universe(case)]
    typeok = obs.get("_typeok", {})
    st, base = _expect(case, [], typeok)
    if st != "ok":
        return ["shipped-definitions-not-well-formed " + str(base)]
    registered = []            # file names registered by successful calls, in order
    expected = dict(base)      # pair -> digest the registry must resolve now
    sure = True                # False once the history left the zone the property speaks about
    prev_look = None
    kept_ok = set()
    wrongly = False            # an ill-formed registration was accepted: only "earlier pairs stay" is judged from here on
    for n, (op, stp) in enumerate(zip(case["ops"], obs["steps"])):
        o = stp["out"]
        where = "after op %d %s" % (n, op[0])
        if op[0] == "reg":
            new = [x for x in dict.fromkeys(op[1]) if x not in registered]
            st, exp = _expect(case, registered + new, typeok)
            if "ok" in o:
                if st == "ill":
                    # it should have been refused: what was registered before must stay as it was
                    out.append("ill-formed-registration-accepted (%s) %s" % (",".join(exp), where))
                    wrongly = True
                elif st == "dontcare":
                    sure = False
                else:
                    expected = dict(exp)
                if st != "ill":
                    registered = registered + new
                pairs = [tuple(s[:2]) if s != ["norestr"] else tuple(C14.NOREST) for s in o["ok"]]
                if len(set(pairs)) != len(pairs):
                    out.append("two-schemes-for-one-pair " + where)
                out.extend(p + " " + where for p in C14.list_order_problems([s[:2] if s != ["norestr"] else s for s in o["ok"]]))
                if sure and st != "ill":
                    got = {tuple(s[:2]): s[2] for s in o["ok"] if s != ["norestr"]}
                    if got != expected:
                        miss = [p for p in expected if p not in got]
                        wrong = [p for p in expected if p in got and got[p] != expected[p]]
                        more = [p for p in got if p not in expected]
                        out.append("all-schemes-result-wrong missing=%s wrong-layout=%s unexpected=%s %s" % (miss[:3], wrong[:3], more[:3], where))
            else:
                if st == "ok" and sure and not wrongly:
                    out.append("%s-registration-rejected %s %s" % ("well-formed" if new else "repeated", o["exc"], where))
                if prev_look is not None and stp["look"] != prev_look:
                    out.append("failed-registration-changed-registry " + where)
        # the universe after the operation
        if sure:
            for p, l in zip(uni, stp["look"]):
                if p in expected:
                    kind = "built-in" if p in base else "registered"
                    if "exc" in l:
                        out.append("%s-scheme-lookup-raises %s %s %s" % (kind, l["exc"], list(p), where))
                    elif l["ok"] is None:
                        out.append("%s-scheme-does-not-resolve %s %s" % (kind, list(p), where))
                    elif l["ok"][:2] != list(p) or l["ok"][2] != expected[p]:
                        out.append("%s-scheme-wrong-layout %s %s" % (kind, list(p), where))
                elif l.get("ok") is not None and "exc" not in l and not wrongly:
                    out.append("unregistered-pair-resolves %s %s" % (list(p), where))
        if op[0] in ("find", "findcls", "keep", "reuse") and sure:
            p = (op[1], op[2])
            if p in expected:
                if o.get("ok") is None or o["ok"][:2] != list(p) or o["ok"][2] != expected[p]:
                    out.append("lookup-of-known-pair-wrong %s %s" % (list(p), where))
        if op[0] == "keep" and stp.get("_keep") == "ok":
            kept_ok.add(op[3])
        if op[0] == "reuse" and sure and op[3] in kept_ok and (op[1], op[2]) in expected:
            kind = "built-in" if (op[1], op[2]) in base else "registered"
            if stp.get("_reuse") != "ok":
                out.append("%s-record-accepted-before-not-after %s %s %s" % (kind, stp.get("_reuse"), [op[1], op[2]], where))
        if op[0] in ("hdr", "rt") and sure:
            p = (op[1], op[2])
            proper = p in expected and (op[0] == "rt" or p[0] != p[1])
            if proper:
                kind = "built-in" if p in base else "registered"
                if o.get("ok") != []:
                    out.append("%s-header-rejected %s %s %s" % (kind, o.get("ok", o.get("exc")), list(p), where))
            if op[0] == "rt" and p in expected:
                kind = "built-in" if p in base else "registered"
                r = stp.get("_rt")
                if r not in ("ok", "no-sample", "no-columns"):
                    out.append("%s-strict-round-trip-fails %s %s %s" % (kind, r, list(p), where))
        prev_look = stp["look"]
    seen = []
    for v in out:
        if v not in seen:
            seen.append(v)
    return seen[:8]


def signature(case, violation):
    return violation.split(" ")[0]


def classify(case, obs):
    if obs is None:
        return case["stream"] + "/harness-error"
    regs = [s["out"] for op, s in zip(case["ops"], obs["steps"]) if op[0] == "reg"]
    ok = sum(1 for r in regs if "ok" in r)
    return "%s/reg-ok=%d/reg-failed=%d" % (case["stream"], ok, len(regs) - ok)


def nontrivial(case, obs):
    seen_ok = False
    for op, s in zip(case["ops"], obs["steps"]):
        if seen_ok:
            return True
        if op[0] == "reg" and "ok" in s["out"] and op[1]:
            seen_ok = True
    return False


# ------------------------------------------------------------ generation
GOOD_TYPES = ["StringColumn", "NullableStringColumn", "IntegerColumn", "OneBasedIntegerColumn",
              "ZeroBasedIntegerColumn", "NullableIntegerColumn", "FloatColumn", "NullableFloatColumn", "UUIDColumn",
              "BooleanColumn", "Strand", "DnaString", "NullableDnaString", "SequenceOfStrings", "YesNoOrUnknown",
              "VariantType", "MafColumnRecord", "Canonical", "SequenceOfIntegers"]
NULLABLE = ["NullableStringColumn", "NullableIntegerColumn", "NullableFloatColumn", "NullableDnaString",
            "SequenceOfStrings"]


def _builtin_vis():
    if "v" not in C14._W:
        C14._W["v"] = C14._builtin_visible()
    return C14._W["v"]


def _gen_files(rng, k):
    """k well-formed extra definitions (later ones may extend earlier ones or shipped ones)"""
    vis = _builtin_vis()
    defs = []
    info = []
    for i in range(k):
        r = rng.random()
        version = "gdc-1.0.0" if rng.random() < 0.7 else rng.choice(["gdc-2.0.0", "gdc-1.5.0-beta", "lab-v3"])
        annot = rng.choice(["gdc-%d.%d.%d-ext%d" % (rng.randint(1, 4), rng.randint(0, 3), rng.randint(0, 3), i),
                            "lab-%d-spec" % i, "gdc-1.0.0-x%d" % i])
        cols = []
        if r < 0.3 and info:                         # extends an earlier extra
            j = rng.randrange(len(info))
            ext, visible = defs[j]["annotation-spec"], list(info[j])
        elif r < 0.75:                               # extends a shipped definition
            ext, visible = rng.choice(vis)
            visible = list(visible)
        else:                                        # standalone (sometimes a basic scheme: annotation = version)
            ext, visible = rng.choice(["None", None]), []
            if rng.random() < 0.35:
                version = rng.choice(["gdc-3.%d.0" % i, "lab-basic-%d" % i])
                annot = version
        if ext not in ("None", None) and rng.random() < 0.12:
            # basic by name (annotation = version) although it extends something
            version = annot = rng.choice(["lab-2.%d.0" % i, "gdc-6.%d.0" % i])
        clone = ext not in ("None", None) and rng.random() < 0.3
        if not clone:
            if visible and rng.random() < 0.5:
                for nme in rng.sample(visible, min(len(visible), rng.choice([1, 1, 2]))):
                    cols.append(C14._entry(rng, nme, "RequireNullValue" if rng.random() < 0.8 else rng.choice(NULLABLE)))
            fresh = ["x%d_%d" % (i, q) for q in range(4)]
            for nme in rng.sample(fresh, rng.randint(1, 3) if not visible else rng.randint(0, 2)):
                cols.append(C14._entry(rng, nme, rng.choice(GOOD_TYPES)))
            rng.shuffle(cols)
        after = visible + [c[0] for c in cols if c[0] not in visible]
        flt = rng.choice(["None", "None", None, []])
        if not clone and rng.random() < 0.3 and len(after) > 2:
            flt = rng.sample(after, rng.choice([1, 2]))
            after = [c for c in after if c not in flt]
        defs.append({"version": version, "annotation-spec": annot, "extends": ext, "columns": cols, "filtered": flt})
        info.append(after)
    return defs


def _ops_probe(rng, case_defs, k=2):
    ops = []
    for _ in range(k):
        d = rng.choice(case_defs)
        v, a = d["version"], d["annotation-spec"]
        r = rng.random()
        if r < 0.3:
            ops.append(["rt", v, a])
        elif r < 0.55:
            ops.append(["hdr", v, a])
        elif r < 0.8:
            ops.append(["find", v, a])
        else:
            ops.append(["findcls", rng.choice([v, None]), a])
    return ops


def _builtin_defs(rng, k=1):
    return [{"version": j["version"], "annotation-spec": j["annotation-spec"]} for _, j in rng.sample(C14.builtin_files(), k)]


MASKED = ["gdc-1.0.0-public", "gdc-1.0.1-public", "gdc-1.0.0-aliquot-merged-masked",
          "gdc-2.0.0-aliquot-merged-masked"]


def _with_kept(rng, ops, own=None):
    """keep a record under a (mostly masked) shipped scheme at the start - or under an own
    registered pair right after its registration - and re-use it at the end"""
    slot = 0
    res = list(ops)
    if rng.random() < 0.8:
        annots = [j["annotation-spec"] for _, j in C14.builtin_files()]
        a = rng.choice([m for m in MASKED if m in annots] or annots) if rng.random() < 0.7 else rng.choice(annots)
        res = [["keep", "gdc-1.0.0", a, slot]] + res + [["reuse", "gdc-1.0.0", a, slot]]
        slot += 1
    if own and rng.random() < 0.5:
        regs = [i for i, o in enumerate(res) if o[0] == "reg"]
        if len(regs) >= 2:
            v, a = own
            res = res[:regs[0] + 1] + [["keep", v, a, slot]] + res[regs[0] + 1:] + [["reuse", v, a, slot]]
    return res


def _gen_valid(rng):
    k = rng.choice([1, 2, 2, 3, 3, 4])
    defs = _gen_files(rng, k)
    files = C14._files_of(defs, prefix="e")
    names = list(files)
    ops = []
    if rng.random() < 0.3:
        ops += _ops_probe(rng, _builtin_defs(rng), 1)
    # register in 1-3 calls (a dependency may arrive in the same call in any order, or earlier)
    calls = rng.choice([1, 2, 2, 3])
    cuts = sorted(rng.sample(range(1, k), min(calls - 1, k - 1))) if k > 1 else []
    groups = [names[i:j] for i, j in zip([0] + cuts, cuts + [k])]
    done = []
    for g in groups:
        g2 = list(g)
        rng.shuffle(g2)
        if done and rng.random() < 0.4:
            g2 = g2 + [rng.choice(done)]              # a repeated name
        if rng.random() < 0.35:
            g2.insert(rng.randrange(len(g2) + 1), rng.choice(g))   # a NEW name twice in one call
        ops.append(["reg", g2])
        done += g
        ops += _ops_probe(rng, [files[n]["data"] for n in done] + _builtin_defs(rng), rng.choice([1, 2]))
    if rng.random() < 0.4:
        ops.append(["reg", rng.sample(done, 1)])      # registering again changes nothing
        ops += _ops_probe(rng, [files[n]["data"] for n in done], 1)
    if rng.random() < 0.3:
        ops.append(["reg", []])
    if rng.random() < 0.6:
        first = files[groups[0][0]]["data"] if groups[0] else None
        ops = _with_kept(rng, ops, (first["version"], first["annotation-spec"]) if first else None)
    return {"stream": "valid", "note": "", "files": files, "ops": ops}


def _gen_defect(rng):
    """one registration fails; everything registered before must stay"""
    k = rng.choice([2, 3, 3, 4])
    defs = _gen_files(rng, k)
    files = C14._files_of(defs, prefix="e")
    names = list(files)
    bad = names[-1]
    kind = rng.choice(["unknown-base", "unknown-type", "missing-filtered", "dup-annotation", "dup-builtin",
                       "bad-json", "missing-file", "missing-key", "self-cycle", "same-file-other-spelling",
                       "no-restrictions-pair", "bad-entry",
                       "annotation-other-version-registered", "annotation-other-version-registered",
                       "annotation-other-version-builtin", "annotation-other-version-builtin"])
    d = files[bad]["data"]
    good = names[:-1]
    if kind == "unknown-base":
        d["extends"] = "gdc-0.0.0-absent"
    elif kind == "self-cycle":
        d["extends"] = d["annotation-spec"]
    elif kind == "unknown-type":
        d["columns"].append(["zz", "NoSuchColumn"])
    elif kind == "missing-filtered":
        d["filtered"] = ["zz_absent"]
    elif kind == "dup-annotation":
        d["annotation-spec"] = files[good[0]]["data"]["annotation-spec"]
    elif kind == "annotation-other-version-registered":
        # an annotation that an earlier registration owns, under another (existing or new) version
        owner = files[good[0]]["data"]
        d["annotation-spec"] = owner["annotation-spec"]
        d["version"] = rng.choice([v for v in ["gdc-1.0.0", "gdc-2.0.0", "gdc-9.0.0", "lab-v9"] if v != owner["version"]])
    elif kind == "annotation-other-version-builtin":
        d["annotation-spec"] = rng.choice(_builtin_vis())[0]
        d["version"] = rng.choice(["gdc-9.0.0", "gdc-1.0.1", "lab-v9"])
    elif kind == "dup-builtin":
        d["version"], d["annotation-spec"] = "gdc-1.0.0", rng.choice(_builtin_vis())[0]
    elif kind == "bad-json":
        files[bad] = {"kind": "raw", "text": "{"}
    elif kind == "missing-file":
        files[bad] = {"kind": "missing"}
    elif kind == "missing-key":
        del d[rng.choice(["columns", "version", "filtered"])]
    elif kind == "no-restrictions-pair":
        d["version"], d["annotation-spec"] = C14.NOREST
    elif kind == "bad-entry":
        d["columns"].append(["zz"])
    elif kind == "same-file-other-spelling":
        del files[bad]
        bad = "./" + good[0]
    # children of the broken file would fail too: keep only files that do not depend on it
    dep = set()
    if bad in files and files[bad]["kind"] == "json":
        pass
    ops = []
    first = [n for n in good if rng.random() < 0.7] or good[:1]
    # a good file extending the last one cannot load without it
    last_annot = defs[-1]["annotation-spec"]
    first = [n for n in first if files[n]["data"]["extends"] != last_annot]
    rest = [n for n in good if n not in first and files[n]["data"]["extends"] != last_annot]
    # dependencies among the good files: register in generation order so that bases come first or together
    first = [n for n in good if n in first]
    if kind == "annotation-other-version-registered":
        # the owner of the annotation (and what it needs) is registered first
        first = [n for n in good if n in first or n == good[0]]
        rest = [n for n in rest if n != good[0]]
    if first and (rng.random() < 0.85 or kind == "annotation-other-version-registered"):
        ops.append(["reg", first])
        ops += _ops_probe(rng, [files[n]["data"] for n in first], 1)
    mix = [bad] + ([rng.choice(rest)] if rest and rng.random() < 0.4 else [])
    rng.shuffle(mix)
    ops.append(["reg", mix])
    ops += _ops_probe(rng, [files[n]["data"] for n in (first or good[:1])] + _builtin_defs(rng), 2)
    if rest and rng.random() < 0.6:
        ops.append(["reg", rest])
        ops += _ops_probe(rng, [files[n]["data"] for n in rest], 1)
    if rng.random() < 0.4:
        ops = _with_kept(rng, ops)
    return {"stream": "defect", "note": kind, "files": files, "ops": ops}


def _wide_case(rng, n_new, ext):
    d = {"version": "gdc-1.0.0", "annotation-spec": "gdc-1.0.0-wide%d" % n_new, "extends": ext,
         "columns": [["w%03d" % i, rng.choice(["StringColumn", "NullableStringColumn", "IntegerColumn"])] for i in range(n_new)],
         "filtered": "None"}
    b = {"version": "lab-2.0.0", "annotation-spec": "lab-2.0.0", "extends": "gdc-1.0.0-wide%d" % n_new,
         "columns": [["extra", "StringColumn"]], "filtered": "None"}
    files = {"wide.json": {"kind": "json", "data": d}, "basic.json": {"kind": "json", "data": b}}
    ops = [["reg", ["wide.json"]], ["rt", d["version"], d["annotation-spec"]], ["reg", ["basic.json"]],
           ["rt", "lab-2.0.0", "lab-2.0.0"], ["hdr", "lab-2.0.0", None], ["keep", "gdc-1.0.0", d["annotation-spec"], 0],
           ["reg", []], ["reuse", "gdc-1.0.0", d["annotation-spec"], 0]]
    return {"stream": "boundary", "note": "%d new columns on %s; a basic-by-name definition extending it" % (n_new, ext),
            "files": files, "ops": ops}


def _gen_boundary(rng):
    k = rng.randrange(7)
    if k == 6:
        if rng.random() < 0.5:
            return _wide_case(rng, rng.choice([257, 258, 259, 300]), "None")
        return _wide_case(rng, rng.choice([150, 170, 200]), rng.choice(["gdc-1.0.0-aliquot", "gdc-2.0.0-aliquot"]))
    defs = _gen_files(rng, 2)
    files = C14._files_of(defs, prefix="e")
    a, b = list(files)
    da, db = files[a]["data"], files[b]["data"]
    if k == 0:     # lookups only, no registration; odd lookup arguments
        bi = _builtin_defs(rng)[0]
        ops = [rng.choice([["find", None, None], ["find", "", ""], ["findcls", "gdc-1.0.0", None],
                           ["find", None, bi["annotation-spec"]], ["findcls"] + C14.NOREST, ["find"] + C14.NOREST]),
               ["hdr", rng.choice([None, "gdc-1.0.0", "gdc-9.9.9"]), rng.choice([None, bi["annotation-spec"], "nope"])],
               ["rt", bi["version"], bi["annotation-spec"]]]
        return {"stream": "boundary", "note": "no registration", "files": {}, "ops": ops}
    if k == 1:     # registration as the very first thing in the process, then the empty list
        ops = [["reg", [a]], ["reg", []], ["find", da["version"], da["annotation-spec"]], ["reg", [a, a]],
               ["rt", da["version"], da["annotation-spec"]]]
        if db["extends"] == da["annotation-spec"]:
            files.pop(b)
        return {"stream": "boundary", "note": "first call registers", "files": files, "ops": ops}
    if k == 2:     # first registration fails on an unloaded registry
        files["bad.json"] = {"kind": "raw", "text": "["}
        ops = [["reg", ["bad.json"]], ["find", "gdc-1.0.0", "gdc-1.0.0-public"], ["reg", [a]],
               ["hdr", da["version"], da["annotation-spec"]]]
        if db["extends"] == da["annotation-spec"]:
            files.pop(b)
        return {"stream": "boundary", "note": "first call fails", "files": files, "ops": ops}
    if k == 3:     # a later file extends an earlier registration; headers with one pragma missing
        db["extends"] = da["annotation-spec"]
        db["columns"] = [["y0", "StringColumn"]]
        db["filtered"] = "None"
        ops = [["reg", [a]], ["reg", [b]], ["rt", db["version"], db["annotation-spec"]],
               ["hdr", db["version"], None], ["hdr", None, db["annotation-spec"]],
               ["find", da["version"], da["annotation-spec"]]]
        return {"stream": "boundary", "note": "extends an earlier registration", "files": files, "ops": ops}
    if k == 4:     # dependency registered after its dependent: the first call fails, the joint call succeeds
        db["extends"] = da["annotation-spec"]
        db["columns"] = [["y0", "StringColumn"]]
        db["filtered"] = "None"
        ops = [["reg", [b]], ["find", db["version"], db["annotation-spec"]], ["reg", [b, a]],
               ["rt", db["version"], db["annotation-spec"]]]
        return {"stream": "boundary", "note": "base arrives later", "files": files, "ops": ops}
    # a basic extra scheme (annotation = version)
    da["version"] = da["annotation-spec"] = "gdc-5.0.0"
    da["extends"] = "None"
    da["columns"] = [["b0", "StringColumn"], ["b1", "IntegerColumn"]]
    da["filtered"] = "None"
    db["extends"] = "gdc-5.0.0"
    db["version"] = "gdc-5.0.0"
    db["columns"] = [["b1", "RequireNullValue"], ["b2", "NullableStringColumn"]]
    db["filtered"] = "None"
    ops = [["reg", [a, b]], ["rt", "gdc-5.0.0", "gdc-5.0.0"], ["hdr", "gdc-5.0.0", None],
           ["hdr", "gdc-5.0.0", "gdc-5.0.0"], ["hdr", "gdc-5.0.0", db["annotation-spec"]],
           ["findcls", "gdc-5.0.0", None]]
    return {"stream": "boundary", "note": "basic extra scheme", "files": files, "ops": ops}


def _gen_adversarial(rng):
    k = rng.randrange(3)
    defs = _gen_files(rng, 3)
    files = C14._files_of(defs, prefix="e")
    names = list(files)
    if k == 0:     # interleave failing and succeeding calls
        files["nope.json"] = {"kind": "missing"}
        ops = []
        for n in names:
            if rng.random() < 0.5:
                ops.append(["reg", [n, "nope.json"]])
            ops.append(["reg", [n]])
            ops += _ops_probe(rng, [files[n]["data"]], 1)
        return {"stream": "adversarial", "note": "interleaved failures", "files": files, "ops": ops[:8]}
    if k == 1:     # undocumented version patterns (sort key fails or keys of mixed shape)
        d = files[names[0]]["data"]
        d["annotation-spec"] = rng.choice(["gdc-abc", "gdc-1.0", "gdc-1.0.0.0-x", "gdc-"])
        ops = [["reg", [names[1]]], ["reg", [names[0]]], ["find", files[names[1]]["data"]["version"], files[names[1]]["data"]["annotation-spec"]]]
        if files[names[1]]["data"]["extends"] == defs[0]["annotation-spec"]:
            ops = ops[1:]
        return {"stream": "adversarial", "note": "undocumented pattern", "files": files, "ops": ops}
    # everything at once, in reverse order, twice
    ops = [["reg", list(reversed(names))], ["reg", names]] + _ops_probe(rng, [files[n]["data"] for n in names], 3)
    return {"stream": "adversarial", "note": "reverse order", "files": files, "ops": ops}


def generate(rng, n):
    out = []
    for _ in range(n):
        r = rng.random()
        if r < 0.42:
            out.append(_gen_valid(rng))
        elif r < 0.72:
            out.append(_gen_defect(rng))
        elif r < 0.9:
            out.append(_gen_boundary(rng))
        else:
            out.append(_gen_adversarial(rng))
    return out


def corpus():
    A = {"version": "gdc-1.0.0", "annotation-spec": "gdc-1.0.0-lab-a", "extends": "gdc-1.0.0",
         "columns": [["lab_note", "NullableStringColumn"]], "filtered": "None"}
    B = {"version": "gdc-1.0.0", "annotation-spec": "gdc-1.0.0-lab-b", "extends": "None",
         "columns": [["b0", "StringColumn"], ["b1", "IntegerColumn"]], "filtered": "None"}
    files = {"a.json": {"kind": "json", "data": A}, "b.json": {"kind": "json", "data": B}}
    return [
        {"stream": "corpus", "note": "a second registration made the first disappear", "files": files,
         "ops": [["reg", ["a.json"]], ["reg", ["b.json"]], ["find", "gdc-1.0.0", "gdc-1.0.0-lab-a"]]},
        {"stream": "corpus", "note": "header validation used lists frozen at import", "files": files,
         "ops": [["hdr", "gdc-1.0.0", "gdc-1.0.0-public"], ["reg", ["a.json"]], ["hdr", "gdc-1.0.0", "gdc-1.0.0-lab-a"],
                 ["rt", "gdc-1.0.0", "gdc-1.0.0-lab-a"]]},
        {"stream": "corpus", "note": "a failing registration leaves earlier ones in place",
         "files": dict(files, **{"bad.json": {"kind": "raw", "text": "{"}}),
         "ops": [["reg", ["b.json"]], ["reg", ["bad.json", "a.json"]], ["find", "gdc-1.0.0", "gdc-1.0.0-lab-b"],
                 ["reg", ["a.json"]], ["rt", "gdc-1.0.0", "gdc-1.0.0-lab-b"]]},
        dict(_wide_case(__import__("random").Random(4), 260, "None"), stream="corpus",
             note="260 columns: indexes beyond 256 are compared by value; a basic-by-name definition that extends another is basic"),
        {"stream": "corpus", "note": "a new file named twice in one call registers once", "files": files,
         "ops": [["reg", ["a.json", "b.json", "a.json"]], ["find", "gdc-1.0.0", "gdc-1.0.0-lab-a"], ["rt", "gdc-1.0.0", "gdc-1.0.0-lab-b"]]},
        {"stream": "corpus", "note": "a later definition re-using a registered annotation under another version displaced its owner",
         "files": dict(files, **{"a2.json": {"kind": "json", "data": dict(A, version="gdc-1.0.1")}}),
         "ops": [["reg", ["a.json"]], ["reg", ["a2.json"]], ["find", "gdc-1.0.0", "gdc-1.0.0-lab-a"],
                 ["rt", "gdc-1.0.0", "gdc-1.0.0-lab-a"]]},
        {"stream": "corpus", "note": "a definition re-using a built-in annotation under a new version displaced the built-in",
         "files": {"p9.json": {"kind": "json", "data": {"version": "gdc-9.0.0", "annotation-spec": "gdc-1.0.0-public",
                                                        "extends": "None", "columns": [["b0", "StringColumn"]], "filtered": "None"}}},
         "ops": [["reg", ["p9.json"]], ["find", "gdc-1.0.0", "gdc-1.0.0-public"], ["rt", "gdc-1.0.0", "gdc-1.0.0-public"]]},
        {"stream": "corpus", "note": "a record parsed under a masked built-in before a registration was refused by the same pair after it "
                                     "(every reload synthesised new mix-in column classes)", "files": files,
         "ops": [["keep", "gdc-1.0.0", "gdc-1.0.0-public", 0], ["reg", ["b.json"]], ["reuse", "gdc-1.0.0", "gdc-1.0.0-public", 0]]},
    ]


def shrink(case):
    ops = case["ops"]
    for i in range(len(ops)):
        yield dict(case, ops=ops[:i] + ops[i + 1:])
    for i, op in enumerate(ops):
        if op[0] == "reg" and len(op[1]) > 1:
            for j in range(len(op[1])):
                yield dict(case, ops=ops[:i] + [["reg", op[1][:j] + op[1][j + 1:]]] + ops[i + 1:])
    used = set(C14_name(n) for op in ops if op[0] == "reg" for n in op[1])
    for n in list(case["files"]):
        if n not in used:
            yield dict(case, files={k: v for k, v in case["files"].items() if k != n})


def C14_name(n):
    return n[2:] if n.startswith("./") else n
