"""C06 - A Strict writer only ever emits lines that a Strict reader accepts."""
import json
import os
import sys

sys.path.insert(0, os.path.dirname(os.path.dirname(os.path.abspath(__file__))))
import colhost as H
import colspec as SP
import colgen as G

PID = "C06"
CLUSTER = "Columns"
PROPS = "props/C06.v"
N_QUICK = 900
N_THOROUGH = 15000
RULE = ("records built through the public API (MafRecord + column objects) for each of the 14 layouts: conforming records, one or "
        "several columns perturbed (value of another python type, out-of-range, text with TAB/CR/LF/';', bool, foreign column class, "
        "the un-mixed base class, a subclass), wrong count / order / name, gaps, post-hoc index mutation; offered to a Strict MafWriter "
        "(direct), and sequences of 2-4 such records interleaved with conforming ones offered to direct and sorting writers; "
        "non-trivial = at least one perturbation or a sequence; distinct by hash")
ASSUMPTIONS = ["a Strict writer without a scheme (no-version header) has no scheme to conform to: it refuses column names the format "
               "cannot carry with ValueError (not the format exception); whatever it accepts must be read back in full, unchanged, "
               "by a Strict reader (judged by the oracle only; the scheme-less writer is modelled in the Reader/FileIO clusters)",
               "column objects are instances of shipped classes or of classes synthesised for a built layout",
               "str() of list/tuple/arbitrary objects held by a plain MafColumnRecord (python repr) is not modelled: those cases are judged by the oracle only",
               "synthesised classes are identified structurally in the model; the harness never places a synthesised class of one column in another column"]


import C05 as _C05   # the header-relabel scenario (a header edited in place, then used by a Strict writer)


SL_NAMES = ["a", "b", "c", "Chromosome", "x y", "", "#x", "a#", "a\tb", "a\nb", "é"]
SL_VALUES = ["", "1", "x", "a b", "#", "0", "None", "é", "a\tb", "a\nb", "a\rb"]


def _gen_sless(rng):
    """a Strict writer without a scheme (no-version / no-annotation header): the first record fixes the column names;
    records may have no columns, other names, another count, values or names containing separators"""
    k = rng.choice([0, 1, 1, 2, 3, 4])
    pool = [n for n in SL_NAMES if rng.random() < 0.8 or n in ("a", "b", "c")]
    names = []
    for _ in range(k):
        n = rng.choice(pool)
        if n not in names:
            names.append(n)
    recs = []
    for i in range(rng.randint(1, 4)):
        r = rng.random()
        if r < 0.15:
            recs.append([])
        elif r < 0.25:
            recs.append([[n, rng.choice(SL_VALUES)] for n in (names + ["extra"])])
        elif r < 0.33:
            recs.append([[n, rng.choice(SL_VALUES)] for n in names[:-1]])
        elif r < 0.4:
            recs.append([[n + "_", rng.choice(SL_VALUES)] for n in names])
        else:
            recs.append([[n, rng.choice(SL_VALUES[:8] if rng.random() < 0.85 else SL_VALUES)] for n in names])
    return {"kind": "sless", "records": recs, "mode": 1, "stream": "scheme-less", "hit": [0],
            "with_pragmas": rng.random() < 0.5}


def _run_sless(case):
    from maflib.header import MafHeader
    from maflib.writer import MafWriter
    from maflib.reader import MafReader
    from maflib.record import MafRecord
    from maflib.column import MafColumnRecord
    from maflib.validation import ValidationStringency, MafFormatException
    hdr = MafHeader.from_defaults(version="no-version", annotation="no-annotation-specification") if case["with_pragmas"] else MafHeader()
    buf = G._Buf()
    out = {"open": None, "outcomes": [], "closed": None, "text": None, "reread": None, "accepted_texts": []}
    try:
        w = MafWriter.from_fd(buf, hdr, validation_stringency=ValidationStringency.Strict)
    except MafFormatException as e:
        out["open"] = "MafFormatException:" + e.tpe.name
        return {"cmp": {"sless": True}, "extra": out}
    for cols in case["records"]:
        rec = MafRecord()
        try:
            for n, v in cols:
                rec.add(MafColumnRecord(n, v))
        except Exception as e:
            out["outcomes"].append("unbuildable:" + type(e).__name__)
            continue
        before = len(buf.text())
        try:
            w += rec
            out["outcomes"].append("accepted")
            out["accepted_texts"].append("\t".join(v for _, v in cols))
        except MafFormatException:
            out["outcomes"].append("refused" if len(buf.text()) == before else "refused-but-wrote")
        except ValueError:
            out["outcomes"].append("refused-valueerror" if len(buf.text()) == before else "refused-but-wrote")
        except Exception as e:
            out["outcomes"].append("other-exception:" + type(e).__name__)
    try:
        w.close()
        out["closed"] = "ok"
    except Exception as e:
        out["closed"] = "close-raised:" + type(e).__name__
    text = buf.text()
    out["text"] = text
    try:
        rd = MafReader(lines=text.split("\n")[:-1] if text.endswith("\n") else text.split("\n"), validation_stringency=ValidationStringency.Strict)
        got = [str(r) for r in rd]
        out["reread"] = ["ok", got]
    except MafFormatException as e:
        out["reread"] = ["MafFormatException", e.tpe.name, str(e)[:120]]
    except Exception as e:
        out["reread"] = ["exception", type(e).__name__, str(e)[:120]]
    return {"cmp": {"sless": True}, "extra": out}


def _oracle_sless(case, obs):
    ex = obs["extra"]
    out = []
    if ex["open"] is not None:
        return out                     # the header itself was refused: nothing emitted
    for o in ex["outcomes"]:
        if o == "refused-but-wrote":
            out.append("refused-record-contributed-bytes/scheme-less | %s" % ex["outcomes"])
        if o.startswith("other-exception"):
            out.append("refused-with-other-exception/%s | scheme-less" % o.split(":")[1])
    if ex["closed"] != "ok":
        out.append("close-failed/scheme-less | %s" % ex["closed"])
    n_acc = sum(1 for o in ex["outcomes"] if o == "accepted")
    if n_acc and ex["reread"] is not None:
        if ex["reread"][0] != "ok":
            out.append("emitted-file-rejected-by-strict-reader/scheme-less | %s (file %r)" % (ex["reread"][1:], ex["text"][:80]))
        elif ex["reread"][1] != ex["accepted_texts"]:
            out.append("emitted-file-reads-back-differently/scheme-less | wrote %s read %s" % (ex["accepted_texts"][:3], ex["reread"][1][:3]))
    return out


def generate(rng, n):
    out = []
    for _ in range(n):
        r = rng.random()
        if r < 0.03:
            out.append(_C05._gen_hdredit(rng))
        elif r < 0.09:
            out.append(_gen_sless(rng))
        else:
            out.append(G.gen_writeseq(rng) if r < 0.15 else G.gen_write(rng, strict_share=0.85))
    return out


def corpus():
    import random
    rng = random.Random(5)
    out = []
    # the repaired defects: separators in text, ';' element, bool in integer columns
    for val, col in [([4, "a\tb"], "Hugo_Symbol"), ([4, "a\nb"], "Hugo_Symbol"), ([7, [[4, ";"]]], "Center"),
                     ([1, 1], "Start_Position"), ([4, "x\ry"], "Tumor_Sample_Barcode")]:
        c = G.gen_write(rng, annots=["gdc-1.0.0"], strict_share=1.0)
        while c["stream"] != "valid":
            c = G.gen_write(rng, annots=["gdc-1.0.0"], strict_share=1.0)
        names = [n for n, _ in SP.layout("gdc-1.0.0")["columns"]]
        i = names.index(col)
        c["slots"][i]["value"] = val
        c["hit"] = [i]
        c["stream"] = "corpus"
        out.append(c)
    # the recorded finding: a nullable subclass standing in for a non-nullable scheme class
    c = G.gen_write(rng, annots=["gdc-1.0.0"], strict_share=1.0)
    while c["stream"] != "valid":
        c = G.gen_write(rng, annots=["gdc-1.0.0"], strict_share=1.0)
    names = [n for n, _ in SP.layout("gdc-1.0.0")["columns"]]
    i = names.index("Tumor_Sample_UUID")
    c["slots"][i] = {"key": "Tumor_Sample_UUID", "cls": ["src", "NullableUUIDColumn"], "value": [0]}
    c["hit"] = [i]
    c["stream"] = "corpus"
    out.append(c)
    # the same finding through a sorting writer: accepted at +=, close() raises
    out.append({"kind": "writeseq", "annot": "gdc-1.0.0", "records": [{"slots": json.loads(json.dumps(c["slots"])), "stream": "class1", "hit": [i]}],
                "sort": True, "mode": 1, "stream": "seq-sort", "hit": [0]})
    return out


def skip_compare(case):
    return case["kind"] in ("hdredit", "sless") or G.model_dontcare(case)


def shrink(case):
    if case["kind"] == "sless":
        return (dict(case, records=case["records"][:i] + case["records"][i + 1:]) for i in range(len(case["records"])) if len(case["records"]) > 1)
    return iter(()) if case["kind"] == "hdredit" else G.shrink(case)


def to_model(case):
    return [4] if case["kind"] in ("hdredit", "sless") else G.to_model(case)


def from_model(case, sx):
    if case["kind"] in ("hdredit", "sless"):
        return {case["kind"]: True}
    return G.from_model(case, sx)


def run_impl(case):
    if case["kind"] == "sless":
        return _run_sless(case)
    return _C05._run_hdredit(case) if case["kind"] == "hdredit" else G.run_impl(case)


def comparable(obs):
    return obs["cmp"]


def oracle(case, obs):
    if case["kind"] == "sless":
        return _oracle_sless(case, obs)
    if case["kind"] == "hdredit":
        ex = obs["extra"]
        out = []
        if ex["names_ok"] is False:
            out.append("emitted-file-rejected-by-strict-reader/header-names-another-scheme-than-the-column-line | via %s" % case["how"])
        if ex["file_germline"]:
            out.append("emitted-line-rejected-by-strict-reader/germline-under-masked-header | %s" % ex["file_germline"][:2])
        return out
    if case["kind"] == "writeseq":
        return G.oracle_c06_seq(case, obs)
    return G.oracle_c06(case, obs)


def signature(case, violation):
    return violation.split(" | ")[0]


classify = G.classify


def nontrivial(case, obs):
    return case["kind"] == "writeseq" or bool(case.get("hit")) or case.get("stream") == "shape"


def focus(changed):
    G.set_focus(changed)
