"""C06 - A Strict writer only ever emits lines that a Strict reader accepts."""
import os
import sys

sys.path.insert(0, os.path.dirname(os.path.dirname(os.path.abspath(__file__))))
import colhost as H
import colspec as SP
import colgen as G

PID = "C06"
CLUSTER = "Columns"
PROPS = "props/C06.v"
N_QUICK = 900
N_THOROUGH = 15000
RULE = ("records built through the public API (MafRecord + column objects) for each of the 14 layouts: conforming records, one or "
        "several columns perturbed (value of another python type, out-of-range, text with TAB/CR/LF/';', bool, foreign column class, "
        "the un-mixed base class, a subclass), wrong count / order / name, gaps, post-hoc index mutation; offered to a Strict MafWriter "
        "(direct), and sequences of 2-4 such records interleaved with conforming ones offered to direct and sorting writers; "
        "non-trivial = at least one perturbation or a sequence; distinct by hash")
ASSUMPTIONS = ["column objects are instances of shipped classes or of classes synthesised for a built layout",
               "str() of list/tuple/arbitrary objects held by a plain MafColumnRecord (python repr) is not modelled: those cases are judged by the oracle only",
               "synthesised classes are identified structurally in the model; the harness never places a synthesised class of one column in another column"]


import C05 as _C05   # the header-relabel scenario (a header edited in place, then used by a Strict writer)


def generate(rng, n):
    out = []
    for _ in range(n):
        r = rng.random()
        if r < 0.03:
            out.append(_C05._gen_hdredit(rng))
        else:
            out.append(G.gen_writeseq(rng) if r < 0.15 else G.gen_write(rng, strict_share=0.85))
    return out


def corpus():
    import random
    rng = random.Random(5)
    out = []
    # the repaired defects: separators in text, ';' element, bool in integer columns
    for val, col in [([4, "a\tb"], "Hugo_Symbol"), ([4, "a\nb"], "Hugo_Symbol"), ([7, [[4, ";"]]], "Center"),
                     ([1, 1], "Start_Position"), ([4, "x\ry"], "Tumor_Sample_Barcode")]:
        c = G.gen_write(rng, annots=["gdc-1.0.0"], strict_share=1.0)
        while c["stream"] != "valid":
            c = G.gen_write(rng, annots=["gdc-1.0.0"], strict_share=1.0)
        names = [n for n, _ in SP.layout("gdc-1.0.0")["columns"]]
        i = names.index(col)
        c["slots"][i]["value"] = val
        c["hit"] = [i]
        c["stream"] = "corpus"
        out.append(c)
    # the recorded finding: a nullable subclass standing in for a non-nullable scheme class
    c = G.gen_write(rng, annots=["gdc-1.0.0"], strict_share=1.0)
    while c["stream"] != "valid":
        c = G.gen_write(rng, annots=["gdc-1.0.0"], strict_share=1.0)
    names = [n for n, _ in SP.layout("gdc-1.0.0")["columns"]]
    i = names.index("Tumor_Sample_UUID")
    c["slots"][i] = {"key": "Tumor_Sample_UUID", "cls": ["src", "NullableUUIDColumn"], "value": [0]}
    c["hit"] = [i]
    c["stream"] = "corpus"
    out.append(c)
    return out


def skip_compare(case):
    return case["kind"] == "hdredit" or G.model_dontcare(case)


def shrink(case):
    return iter(()) if case["kind"] == "hdredit" else G.shrink(case)


def to_model(case):
    return [4] if case["kind"] == "hdredit" else G.to_model(case)


def from_model(case, sx):
    return {"hdredit": True} if case["kind"] == "hdredit" else G.from_model(case, sx)


def run_impl(case):
    return _C05._run_hdredit(case) if case["kind"] == "hdredit" else G.run_impl(case)


def comparable(obs):
    return obs["cmp"]


def oracle(case, obs):
    if case["kind"] == "hdredit":
        ex = obs["extra"]
        out = []
        if ex["names_ok"] is False:
            out.append("emitted-file-rejected-by-strict-reader/header-names-another-scheme-than-the-column-line | via %s" % case["how"])
        if ex["file_germline"]:
            out.append("emitted-line-rejected-by-strict-reader/germline-under-masked-header | %s" % ex["file_germline"][:2])
        return out
    if case["kind"] == "writeseq":
        return G.oracle_c06_seq(case, obs)
    return G.oracle_c06(case, obs)


def signature(case, violation):
    return violation.split(" | ")[0]


classify = G.classify


def nontrivial(case, obs):
    return case["kind"] == "writeseq" or bool(case.get("hit")) or case.get("stream") == "shape"


def focus(changed):
    G.set_focus(changed)
