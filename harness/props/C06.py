"""C06 - A Strict writer only ever emits lines that a Strict reader accepts."""
import os
import sys

sys.path.insert(0, os.path.dirname(os.path.dirname(os.path.abspath(__file__))))
import colhost as H
import colspec as SP
import colgen as G

PID = "C06"
CLUSTER = "Columns"
PROPS = "props/C06.v"
N_QUICK = 900
N_THOROUGH = 15000
RULE = ("records built through the public API (MafRecord + column objects) for each of the 14 layouts: conforming records, one or "
        "several columns perturbed (value of another python type, out-of-range, text with TAB/CR/LF/';', bool, foreign column class, "
        "the un-mixed base class, a subclass), wrong count / order / name, gaps, post-hoc index mutation; offered to a Strict MafWriter "
        "(direct), and sequences of 2-4 such records interleaved with conforming ones offered to direct and sorting writers; "
        "non-trivial = at least one perturbation or a sequence; distinct by hash")
ASSUMPTIONS = ["column objects are instances of shipped classes or of classes synthesised for a built layout",
               "str() of list/tuple/arbitrary objects held by a plain MafColumnRecord (python repr) is not modelled: those cases are judged by the oracle only",
               "synthesised classes are identified structurally in the model; the harness never places a synthesised class of one column in another column"]


def generate(rng, n):
    out = []
    for _ in range(n):
        out.append(G.gen_writeseq(rng) if rng.random() < 0.12 else G.gen_write(rng, strict_share=0.85))
    return out


def corpus():
    import random
    rng = random.Random(5)
    out = []
    # the repaired defects: separators in text, ';' element, bool in integer columns
    for val, col in [([4, "a\tb"], "Hugo_Symbol"), ([4, "a\nb"], "Hugo_Symbol"), ([7, [[4, ";"]]], "Center"),
                     ([1, 1], "Start_Position"), ([4, "x\ry"], "Tumor_Sample_Barcode")]:
        c = G.gen_write(rng, annots=["gdc-1.0.0"], strict_share=1.0)
        while c["stream"] != "valid":
            c = G.gen_write(rng, annots=["gdc-1.0.0"], strict_share=1.0)
        names = [n for n, _ in SP.layout("gdc-1.0.0")["columns"]]
        i = names.index(col)
        c["slots"][i]["value"] = val
        c["hit"] = [i]
        c["stream"] = "corpus"
        out.append(c)
    # the recorded finding: a nullable subclass standing in for a non-nullable scheme class
    c = G.gen_write(rng, annots=["gdc-1.0.0"], strict_share=1.0)
    while c["stream"] != "valid":
        c = G.gen_write(rng, annots=["gdc-1.0.0"], strict_share=1.0)
    names = [n for n, _ in SP.layout("gdc-1.0.0")["columns"]]
    i = names.index("Tumor_Sample_UUID")
    c["slots"][i] = {"key": "Tumor_Sample_UUID", "cls": ["src", "NullableUUIDColumn"], "value": [0]}
    c["hit"] = [i]
    c["stream"] = "corpus"
    out.append(c)
    return out


skip_compare = G.model_dontcare
shrink = G.shrink
to_model = G.to_model
from_model = G.from_model
run_impl = G.run_impl


def comparable(obs):
    return obs["cmp"]


def oracle(case, obs):
    if case["kind"] == "writeseq":
        return G.oracle_c06_seq(case, obs)
    return G.oracle_c06(case, obs)


def signature(case, violation):
    return violation.split(" | ")[0]


classify = G.classify


def nontrivial(case, obs):
    return case["kind"] == "writeseq" or bool(case.get("hit")) or case.get("stream") == "shape"


def focus(changed):
    G.set_focus(changed)
