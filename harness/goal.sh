#!/bin/bash
# usage: goal.sh file.v LINE  -- shows the proof state after LINE (file truncated there)
f=$1; n=$2
head -n $n $f > /tmp/goal_$$.v
echo "Show. Abort All." >> /tmp/goal_$$.v
cd /verif/coq && coqc -Q . MafVerif /tmp/goal_$$.v 2>&1 | grep -v "needs to be closed" | tail -${3:-40}
rm -f /tmp/goal_$$.v /tmp/goal_$$.vo /tmp/goal_$$.glob /tmp/.goal_$$.aux
