"""Executable statement of the documented column domains (the Spec layer of
C01/C04/C05 on the harness side).  Independent of maflib's code: descriptors
are pinned in spec_layouts.json (written once from the documented layouts and
reviewed), zones are decided with regular expressions and the host's float /
uuid parsers only.

zone(descr, text) -> ("accept", canonical value) | ("reject",) | ("dontcare",)
Values use the canonical JSON form of colhost.enc_value.
"""
import json
import os
import re
import uuid

HERE = os.path.dirname(os.path.abspath(__file__))
_SPEC = None


def spec():
    global _SPEC
    if _SPEC is None:
        _SPEC = json.load(open(os.path.join(HERE, "spec_layouts.json")))
    return _SPEC


def is_ascii(t):
    return all(ord(c) < 128 for c in t)


CANON_INT = re.compile(r"-?(0|[1-9][0-9]*)\Z")
LENIENT_INT = re.compile(r"[ \t\n\r\x0b\x0c]*[+-]?[0-9]+(_[0-9]+)*[ \t\n\r\x0b\x0c]*\Z")
CANON_FLOAT = re.compile(r"-?([0-9]+(\.[0-9]*)?|\.[0-9]+)([eE][+-]?[0-9]+)?\Z")
UUID_FORMS = [re.compile(r"[0-9a-fA-F]{8}-[0-9a-fA-F]{4}-[0-9a-fA-F]{4}-[0-9a-fA-F]{4}-[0-9a-fA-F]{12}\Z"),
              re.compile(r"\{[0-9a-fA-F]{8}-[0-9a-fA-F]{4}-[0-9a-fA-F]{4}-[0-9a-fA-F]{4}-[0-9a-fA-F]{12}\}\Z"),
              re.compile(r"urn:uuid:[0-9a-fA-F]{8}-[0-9a-fA-F]{4}-[0-9a-fA-F]{4}-[0-9a-fA-F]{4}-[0-9a-fA-F]{12}\Z"),
              re.compile(r"[0-9a-fA-F]{32}\Z")]

A = "accept"
R = ("reject",)
D = ("dontcare",)


def _int_zone(t, lo=None):
    if not is_ascii(t):
        return D
    if CANON_INT.match(t):
        z = int(t)
        if t == "-0":
            return D
        if lo is not None and z < lo:
            return R
        return (A, [2, z])
    if LENIENT_INT.match(t):
        return D
    return R


def _enum_member(d, t):
    members = spec()["enums"][d["enum"]]
    for i, (n, v) in enumerate(members):
        if v == t:
            return [5, d["enum"], i]
    for i, (n, v) in enumerate(members):
        if n == t:
            return [5, d["enum"], i]
    return None


def zone(d, t, top=True):
    k = d["k"]
    if any(c in t for c in "\t\r\n"):
        return R          # a field cannot contain the field or line separators
    if "null" in d and top and t == d["null"]:
        return (A, [0])
    if k == "text":
        if d.get("nonempty") and t == "":
            return R
        return (A, [4, t])
    if k == "int":
        return _int_zone(t, d.get("lo"))
    if k == "entrez":
        z = _int_zone(t, 0)
        if z[0] == A:
            return (A, [0]) if z[1][1] == 0 else z
        return z
    if k == "textorint":
        z = _int_zone(t)
        if z[0] == A:
            return z
        if z == D:
            return D
        return (A, [4, t])
    if k == "float":
        if not is_ascii(t):
            return D
        if CANON_FLOAT.match(t):
            return (A, [3, repr(float(t))])
        try:
            float(t)
            return D
        except ValueError:
            return R
    if k == "enum":
        for key, member in d.get("nulls", []):
            if top and t == key:
                return (A, [5, d["enum"], member])
        if d.get("cap"):
            if not is_ascii(t):
                return D
            t2 = t.capitalize()
            # the null keys are looked up before capitalisation; after it the
            # member table decides
            m = _enum_member(d, t2)
            return (A, m) if m else R
        m = _enum_member(d, t)
        return (A, m) if m else R
    if k == "dna":
        if t == "-":
            return (A, [4, t])
        if t != "" and all(c in "ACGT" for c in t):
            return (A, [4, t])
        return R
    if k == "uuid":
        if any(p.match(t) for p in UUID_FORMS):
            return (A, [6, str(uuid.UUID(t))])
        try:
            uuid.UUID(t)
            return D
        except (ValueError, AttributeError, TypeError):
            return R
    if k == "canonical":
        if t == "":
            return (A, [1, 0])
        if not is_ascii(t):
            return D
        return (A, [1, 1]) if t.upper() == "YES" else R
    if k == "bool":
        if not is_ascii(t):
            return D
        u = t.upper()
        return (A, [1, 1 if u == "TRUE" else 0]) if u in ("TRUE", "FALSE") else R
    if k == "strand":
        z = _int_zone(t)
        if z[0] == A:
            return z if z[1][1] in (1, -1) else R
        return z
    if k == "seq":
        if t == "":
            return (A, [7, []])
        zs = [zone(d["elem"], p, top=False) for p in t.split(";")]
        if any(z == R for z in zs):
            return R
        if any(z == D for z in zs):
            return D
        return (A, [7, [z[1] for z in zs]])
    if k == "mustnull":
        z = zone(d["base"], t)
        if z[0] == A:
            return z if z[1] in null_values(d["base"]) else R
        return z
    raise ValueError("unknown descriptor %r" % (d,))


def null_keys(d):
    """texts that denote the column's null value"""
    k = d["k"]
    out = []
    if "null" in d:
        out.append(d["null"])
    if k == "enum":
        out.extend(key for key, _ in d.get("nulls", []))
    if k == "seq":
        out.append("")
    if k == "entrez":
        out.append("0")
    if k == "mustnull":
        return null_keys(d["base"])
    return out


def null_values(d):
    """canonical forms of the column's null value(s)"""
    k = d["k"]
    out = []
    if "null" in d or k == "entrez":
        out.append([0])
    if k == "enum":
        out.extend([5, d["enum"], m] for _, m in d.get("nulls", []))
    if k == "seq":
        out.append([7, []])
    if k == "mustnull":
        return null_values(d["base"])
    return out


def preferred_null(d):
    ks = null_keys(d)
    if not ks:
        return None
    return "" if "" in ks else ks[0]


def layout(annot):
    return spec()["layouts"][annot]


GERMLINE6 = ["Match_Norm_Seq_Allele1", "Match_Norm_Seq_Allele2", "Match_Norm_Validation_Allele1",
             "Match_Norm_Validation_Allele2", "n_ref_count", "n_alt_count"]
MASKED_LAYOUTS = ["gdc-1.0.0-public", "gdc-1.0.1-public", "gdc-1.0.0-aliquot-merged-masked",
                  "gdc-2.0.0-aliquot-merged-masked"]
VCF_PROTECTED_ONLY = ["vcf_region", "vcf_info", "vcf_format", "vcf_tumor_gt", "vcf_normal_gt"]
