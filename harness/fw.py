"""Check framework: regenerate -> build proofs -> build extracted model ->
correspondence (model vs /repo) + property oracle on /repo -> verdict, evidence.

A property plugin is a module harness/props/Cxx.py defining:
  PID, CLUSTER (name of coq/extract/Extract<CLUSTER>.v), PROPS ("props/Cxx.v")
  RULE (text: how cases are generated and what counts as non-trivial)
  corpus() -> [case]                      kept failing/minimised cases, run first
  generate(rng, n) -> [case]              n generated cases (JSON-able)
  to_model(case) -> sexp                  encoding for the extracted model
  run_impl(case) -> obs                   runs the real library (imported from /repo)
  from_model(case, sexp) -> obs           decodes the model's reply, comparable with run_impl
  oracle(case, obs) -> [str]              property violations visible in the
                                          implementation's behaviour (independent of the model)
  signature(case, violation) -> str       structural signature for known_findings matching
  classify(case, obs) -> str              label for the distribution table
  nontrivial(case, obs) -> bool
  skip_compare(case) -> bool              (optional) case lies in the model's declared don't-care zone
  comparable(obs) -> obs                  (optional) the part of the impl observation the model reproduces
  shrink(case) -> iterable of smaller cases     (optional)
  N_QUICK, N_THOROUGH                     case budgets
  ISOLATE = True                          (optional) each impl case in a fresh interpreter
  EXTRA_OBLIGATIONS(ctx) -> [(name, ok, detail)]   (optional) generated obligations
  focus(changed) -> None                  (optional) told which source functions ("file.py:Class.method") differ
                                          from the pinned fingerprints, so that the generator can aim at them
"""
import concurrent.futures as cf
import fcntl
import hashlib
import importlib
import json
import os
import random
import re
import subprocess
import sys
import time
import traceback

VERIF = "/verif"
COQ = VERIF + "/coq"
# VERIF_REPO is only for trying the checks on a scratch copy (mutant testing);
# the registered commands never set it.
REPO = os.environ.get("VERIF_REPO", "/repo")
PY = "/venv/bin/python"

sys.path.insert(0, VERIF + "/harness")
import sexp as SX  # noqa: E402

FORBIDDEN = re.compile(
    r"\b(Admitted|admit|Axiom|Axioms|Parameter|Parameters|Conjecture|Conjectures|"
    r"Unset\s+Guard\s+Checking|bypass_check|Admit\s+Obligations|"
    r"Unset\s+Positivity\s+Checking|Unset\s+Universe\s+Checking|type-in-type|impredicative-set)\b"
)

TRUSTED_BASE = [
    "Coq 8.16.1 kernel (coqc; vm_compute used for finite sweeps and Examples; no native_compute)",
    "axioms: none beyond what Print Assumptions reports per theorem (recorded in coverage.assumptions_report)",
    "hand-written Gallina model of the anchored maf-lib functions, tied to /repo by the correspondence run of this check (tested, not proved)",
    "extraction: Require Extraction + ExtrOcamlBasic only (no Extract Constant, no further Extract Inductive); OCaml 4.13.1; /verif/ocaml/driver.ml (sexp text <-> Model.sexp)",
    "harness: generators, implementation runner, canonicalisers in /verif/harness",
    "CPython 3.12 and its standard library as modelled (see DESIGN.md section 3)",
]


def source_changes():
    """functions of maflib whose normalised AST differs from harness/fingerprints_pinned.json (the tree the models were
    written against).  A difference is not an alarm: it raises the case budget and lets the plugin aim its generator."""
    try:
        # computed here from the tree under check (the shared gen/ directory may be rewritten by a concurrent trial)
        import gen_tables
        cur = gen_tables.fingerprints(REPO + "/maflib")
        pin = json.load(open(VERIF + "/harness/fingerprints_pinned.json"))
    except (OSError, ValueError, SyntaxError):
        return None
    return sorted(k for k in set(cur) | set(pin) if cur.get(k) != pin.get(k))


def log(*a):
    print(*a, file=sys.stderr, flush=True)


def case_hash(case):
    return hashlib.sha256(json.dumps(case, sort_keys=True).encode()).hexdigest()[:16]


# ----------------------------------------------------------------- impl side
def _ensure_repo():
    if sys.path[0] != REPO:
        sys.path.insert(0, REPO)
    import maflib  # noqa

    assert maflib.__file__.startswith(REPO + "/"), maflib.__file__


def _impl_worker(args):
    modname, cases = args
    os.environ.setdefault("PYTHONHASHSEED", "0")
    _ensure_repo()
    import logging

    logging.disable(logging.CRITICAL)
    mod = importlib.import_module(modname)
    out = []
    import signal

    class _CaseTimeout(BaseException):
        pass

    def _on_alarm(signum, frame):
        raise _CaseTimeout()

    limit = int(os.environ.get("VERIF_CASE_TIMEOUT", "300"))
    try:
        signal.signal(signal.SIGALRM, _on_alarm)
    except (ValueError, OSError):
        limit = 0
    for c in cases:
        try:
            if limit:
                signal.alarm(limit)
            out.append(["ok", mod.run_impl(c)])
        except _CaseTimeout:
            # a call of the library that does not return is reported, not waited for
            out.append(["harness-exc", "the implementation did not return within %d s on this case (hang)" % limit])
        except BaseException as e:  # harness bug or unexpected escape
            out.append(["harness-exc", type(e).__name__ + ": " + str(e)[:300] + " @ " + traceback.format_exc()[-600:]])
        finally:
            if limit:
                signal.alarm(0)
    return os.getpid(), out


def run_impl_all(mod, cases, workers=12):
    if not cases:
        return []
    if getattr(mod, "ISOLATE", False):
        return _run_impl_isolated(mod, cases, workers)
    chunks = []
    k = max(1, min(200, (len(cases) + workers * 4 - 1) // (workers * 4)))
    for i in range(0, len(cases), k):
        chunks.append((mod.__name__, cases[i : i + k]))
    res = []
    LAST_HISTORY.clear()
    per_proc = {}
    with cf.ProcessPoolExecutor(max_workers=workers) as ex:
        for (wpid, r), (_, chunk) in zip(ex.map(_impl_worker, chunks), chunks):
            # a worker process runs its chunks one after the other, in submission order: what ran before a case in
            # the same interpreter is its history (state the library keeps across calls can only come from there)
            seen = per_proc.setdefault(wpid, [])
            for j in range(len(chunk)):
                LAST_HISTORY[len(res) + j] = (wpid, len(seen) + j)
            seen.extend(chunk)
            res.extend(r)
    LAST_HISTORY["procs"] = per_proc
    # round trip through JSON so that tuples/lists compare equal with model obs
    return json.loads(json.dumps(res))


LAST_HISTORY = {}


def history_of(index):
    """the cases that ran before case number `index` of the last run_impl_all in the same interpreter"""
    h = LAST_HISTORY.get(index)
    if not h:
        return []
    return list(LAST_HISTORY["procs"][h[0]][: h[1]])


def run_history(mod, cases):
    """run the cases one after the other in ONE fresh interpreter; returns the observation of the last one"""
    code = (
        "import sys,json,os; sys.path.insert(0,%r); sys.path.insert(0,%r); sys.path.insert(0,%r);"
        "import logging; logging.disable(logging.CRITICAL);"
        "import importlib; m=importlib.import_module(%r);"
        "cs=json.loads(sys.stdin.read()); r=None\n"
        "for c in cs:\n"
        "    try: r=['ok', m.run_impl(c)]\n"
        "    except BaseException as e: r=['harness-exc', repr(e)[:300]]\n"
        "print('\\n@@RESULT@@'+json.dumps(r))"
    ) % (VERIF + "/harness", VERIF + "/harness/props", REPO, mod.__name__)
    env = dict(os.environ, PYTHONHASHSEED="0", PYTHONPATH=REPO)
    p = subprocess.run([PY, "-c", code], input=json.dumps(cases), capture_output=True, text=True, env=env, timeout=1800)
    for line in p.stdout.splitlines():
        if line.startswith("@@RESULT@@"):
            return json.loads(line[len("@@RESULT@@"):])
    return ["harness-exc", (p.stderr or p.stdout)[-800:]]


def history_violates(mod, hist, case, sig):
    r = run_history(mod, list(hist) + [case])
    if r[0] != "ok":
        return False
    try:
        return any(mod.signature(case, x) == sig for x in mod.oracle(case, r[1]))
    except Exception:
        return False


def shrink_history(mod, hist, case, sig, budget=40):
    """delta-debugging light: drop halves, quarters, ... of the history while the last case still violates"""
    cur = list(hist)
    n = 2
    steps = 0
    while len(cur) >= 1 and steps < budget:
        size = max(1, len(cur) // n)
        dropped = False
        for i in range(0, len(cur), size):
            cand = cur[:i] + cur[i + size:]
            steps += 1
            if steps > budget:
                break
            if history_violates(mod, cand, case, sig):
                cur = cand
                n = max(2, n - 1)
                dropped = True
                break
        if not dropped:
            if size == 1:
                break
            n = min(len(cur), n * 2)
    return cur


def _run_one_isolated(args):
    modname, case = args
    code = (
        "import sys,json,os; sys.path.insert(0,%r); sys.path.insert(0,%r); sys.path.insert(0,%r);"
        "import logging; logging.disable(logging.CRITICAL);"
        "import importlib; m=importlib.import_module(%r);"
        "c=json.loads(sys.stdin.read());"
        "print('\\n@@RESULT@@'+json.dumps(m.run_impl(c)))"
    ) % (VERIF + "/harness", VERIF + "/harness/props", REPO, modname)
    env = dict(os.environ, PYTHONHASHSEED="0", PYTHONPATH=REPO)
    p = subprocess.run([PY, "-c", code], input=json.dumps(case), capture_output=True, text=True, env=env, timeout=300)
    for line in p.stdout.splitlines():
        if line.startswith("@@RESULT@@"):
            return ["ok", json.loads(line[len("@@RESULT@@"):])]
    return ["harness-exc", (p.stderr or p.stdout)[-800:]]


def _run_impl_isolated(mod, cases, workers):
    with cf.ThreadPoolExecutor(max_workers=workers) as ex:
        return list(ex.map(_run_one_isolated, [(mod.__name__, c) for c in cases]))


# ---------------------------------------------------------------- model side
def run_model_all(mod, cases, runner):
    if not cases:
        return []
    lines = [SX.dumps(mod.to_model(c)) for c in cases]
    # shard across processes
    nshard = min(12, max(1, len(lines) // 50))
    shards = [lines[i::nshard] for i in range(nshard)]

    def one(sh):
        p = subprocess.run(
            ["bash", "-c", "ulimit -s unlimited 2>/dev/null; exec " + runner],
            input="\n".join(sh) + "\n", capture_output=True, text=True, timeout=3600,
        )
        outs = p.stdout.splitlines()
        if len(outs) != len(sh):
            raise RuntimeError("model runner produced %d lines for %d cases: %s" % (len(outs), len(sh), p.stderr[-400:]))
        return outs

    with cf.ThreadPoolExecutor(max_workers=nshard) as ex:
        outs = list(ex.map(one, shards))
    res = [None] * len(lines)
    for si, sh in enumerate(outs):
        for j, o in enumerate(sh):
            res[si + j * nshard] = o
    out = []
    for c, o in zip(cases, res):
        try:
            sx = SX.loads(o)
            if sx in ([-999], [-998], [-997]):
                out.append(["model-exc", "model runner marker %r" % sx])
            else:
                out.append(["ok", mod.from_model(c, sx)])
        except Exception as e:
            out.append(["model-exc", "decode: %r %s" % (e, o[:200])])
    return json.loads(json.dumps(out))


# ------------------------------------------------------------------- build
def sh(cmd, timeout, cwd=None):
    t0 = time.time()
    try:
        p = subprocess.run(cmd, shell=True, cwd=cwd, capture_output=True, text=True, timeout=timeout)
        return p.returncode, p.stdout + p.stderr, time.time() - t0
    except subprocess.TimeoutExpired as e:
        return 124, "TIMEOUT after %ss: %s" % (timeout, cmd), time.time() - t0


class Lock:
    def __enter__(self):
        os.makedirs(VERIF + "/build", exist_ok=True)
        self.f = open(VERIF + "/build/.lock", "w")
        fcntl.flock(self.f, fcntl.LOCK_EX)
        return self

    def __exit__(self, *a):
        fcntl.flock(self.f, fcntl.LOCK_UN)
        self.f.close()


def theorems_of(props_path):
    src = open(props_path).read()
    return re.findall(r"^\s*Theorem\s+([A-Za-z0-9_']+)", src, flags=re.M)


def dep_closure(roots):
    """the .v files (relative to COQ) the given files depend on, transitively"""
    seen, todo = set(), list(roots)
    while todo:
        f = todo.pop()
        if f in seen or not os.path.exists(os.path.join(COQ, f)):
            continue
        seen.add(f)
        txt = re.sub(r"\(\*.*?\*\)", "", open(os.path.join(COQ, f)).read(), flags=re.S)
        for m in re.finditer(r"Require\s+(?:Import\s+|Export\s+)?(.*?)\.(?:\s|$)", txt, flags=re.S):
            for tok in m.group(1).split():
                tok = tok.strip()
                if tok.startswith("MafVerif."):
                    tok = tok[len("MafVerif."):]
                cand = tok.replace(".", "/") + ".v"
                if os.path.exists(os.path.join(COQ, cand)):
                    todo.append(cand)
    return sorted(seen)


def forbidden_scan(mod=None):
    """forbidden vernacular in the files this property's theorems and model depend on"""
    bad = []
    if mod is None:
        files = [os.path.relpath(os.path.join(r, f), COQ) for r, _, fs in os.walk(COQ) for f in fs if f.endswith(".v")]
    else:
        files = dep_closure([mod.PROPS, "extract/Extract%s.v" % mod.CLUSTER])
    for rel in files:
        txt = open(os.path.join(COQ, rel)).read()
        txt = re.sub(r"\(\*.*?\*\)", "", txt, flags=re.S)
        for m in FORBIDDEN.finditer(txt):
            bad.append("%s: %s" % (rel, m.group(0)))
    return bad


def build_proofs(mod, clean=False):
    """returns (ok, detail dict)"""
    detail = {"steps": []}
    gen = VERIF + "/harness/gen_tables.py"
    if os.path.exists(gen):
        rc, out, dt = sh("%s %s" % (PY, gen), 300)
        detail["steps"].append({"cmd": "gen_tables.py", "rc": rc, "s": round(dt, 1)})
        if rc != 0:
            detail["error"] = "translator failed (fail-closed): " + out[-1500:]
            return False, detail
    rc, out, dt = sh(VERIF + "/harness/mkproject.sh", 120)
    if rc != 0:
        detail["error"] = "mkproject failed: " + out[-800:]
        return False, detail
    if clean:
        sh("make clean", 120, cwd=COQ)
        sh(VERIF + "/harness/mkproject.sh", 120)
    targets = mod.PROPS.replace(".v", ".vo") + " extract/Extract%s.vo" % mod.CLUSTER
    cmd = "timeout 2400 make -j12 %s" % targets
    rc, out, dt = sh(cmd, 2500, cwd=COQ)
    detail["steps"].append({"cmd": cmd, "rc": rc, "s": round(dt, 1)})
    if rc != 0:
        detail["error"] = "coq build failed: " + "\n".join(l for l in out.splitlines() if not l.startswith("COQ"))[-2500:]
        return False, detail
    return True, detail


def print_assumptions(mod):
    thms = theorems_of(os.path.join(COQ, mod.PROPS))
    modpath = "MafVerif." + mod.PROPS.replace(".v", "").replace("/", ".")
    tmp = VERIF + "/build/pa_%s_%d.v" % (mod.PID, os.getpid())
    with open(tmp, "w") as f:
        f.write("Require Import %s.\n" % modpath)
        for t in thms:
            f.write('Goal True. idtac "@@THM %s". exact I. Qed.\nPrint Assumptions %s.\n' % (t, t))
    rc, out, dt = sh("timeout 600 coqc -Q %s MafVerif %s" % (COQ, tmp), 700, cwd=VERIF + "/build")
    for ext in (".v", ".vo", ".glob", ".vok", ".vos"):
        try:
            os.remove(tmp[:-2] + ext)
        except OSError:
            pass
    try:
        os.remove(VERIF + "/build/.pa_%s_%d.aux" % (mod.PID, os.getpid()))
    except OSError:
        pass
    report = {}
    if rc != 0:
        return thms, {t: "ERROR: " + out[-400:] for t in thms}, False
    cur = None
    for line in out.splitlines():
        if line.startswith("@@THM "):
            cur = line[6:].strip()
            report[cur] = ""
        elif cur is not None:
            report[cur] += line.strip() + " "
    ok = True
    allowed = getattr(mod, "ALLOWED_AXIOMS", [])
    for t in thms:
        r = report.get(t, "MISSING").strip()
        report[t] = r
        if r.startswith("Closed under the global context"):
            continue
        axs = re.findall(r"([A-Za-z0-9_.']+)\s*:", r)
        if not axs or any(a.split(".")[-1] not in allowed for a in axs):
            ok = False
    return thms, report, ok


def build_runner(mod):
    rc, out, dt = sh("%s/harness/build_model.sh %s" % (VERIF, mod.CLUSTER), 600)
    if rc != 0:
        return None, out[-800:]
    # a private copy: another check (or a trial on a scratch tree) may rebuild the shared runner while this one evaluates
    src = "%s/build/%s/run" % (VERIF, mod.CLUSTER.lower())
    priv = "%s/build/%s/run.%d" % (VERIF, mod.CLUSTER.lower(), os.getpid())
    try:
        import atexit
        import shutil
        shutil.copy2(src, priv)
        atexit.register(lambda: os.path.exists(priv) and os.unlink(priv))
        return priv, ""
    except OSError:
        return src, ""


# ------------------------------------------------------------------ verdicts
def load_known():
    p = VERIF + "/known_findings.json"
    if not os.path.exists(p):
        return []
    d = json.load(open(p))
    return [f for f in d.get("findings", []) if isinstance(f, dict)]


EVIDENCE_DIR = os.environ.get("VERIF_EVIDENCE_DIR", VERIF + "/evidence")   # overridden only when trying mutants
REPLAY_DIR = os.environ.get("VERIF_REPLAY_DIR", VERIF + "/replays")


def write_replay(pid, kind, payload):
    os.makedirs(REPLAY_DIR, exist_ok=True)
    h = hashlib.sha256(json.dumps(payload, sort_keys=True, default=str).encode()).hexdigest()[:12]
    path = "%s/%s-%s-%s.json" % (REPLAY_DIR, pid, kind, h)
    with open(path, "w") as f:
        json.dump(dict(payload, property=pid, kind=kind), f, indent=1, default=str)
    return path


def shrink_case(mod, case, still_bad, budget=150):
    if not hasattr(mod, "shrink"):
        return case
    cur = case
    steps = 0
    improved = True
    while improved and steps < budget:
        improved = False
        try:
            cands = list(mod.shrink(cur))
        except Exception:
            break          # a plugin's shrinker that cannot handle this case kind must not hide the verdict
        for cand in cands:
            steps += 1
            if steps >= budget:
                break
            try:
                if still_bad(cand):
                    cur = cand
                    improved = True
                    break
            except Exception:
                pass
    return cur


def evaluate(mod, cases, runner, want_model=True):
    """returns list of dict(case, impl, model, agree, violations)"""
    impl = run_impl_all(mod, cases)
    model = run_model_all(mod, cases, runner) if (want_model and runner) else [None] * len(cases)
    out = []
    for idx, (c, i, m) in enumerate(zip(cases, impl, model)):
        viol = []
        if i[0] == "ok":
            try:
                viol = list(mod.oracle(c, i[1]))
            except Exception as e:
                viol = []
                i = ["harness-exc", "oracle: %r %s" % (e, traceback.format_exc()[-400:])]
        agree = None
        if m is not None:
            cmpf = getattr(mod, "comparable", lambda o: o)
            if hasattr(mod, "skip_compare") and i[0] == "ok" and m[0] == "ok" and mod.skip_compare(c):
                agree = True    # declared don't-care for the model (host leniency outside the modelled grammar)
            else:
                agree = (i[0] == "ok" and m[0] == "ok" and cmpf(i[1]) == m[1])
        out.append({"case": c, "impl": i, "model": m, "agree": agree, "violations": viol,
                    "history": (history_of(idx) if (viol and not getattr(mod, "ISOLATE", False)) else [])})
    return out


def main(argv):
    import argparse

    ap = argparse.ArgumentParser()
    ap.add_argument("pid")
    ap.add_argument("--tier", default=os.environ.get("VERIF_TIER", "quick"), choices=["quick", "thorough"])
    ap.add_argument("--replay")
    ap.add_argument("--no-build", action="store_true")
    args = ap.parse_args(argv)
    seed = int(os.environ.get("VERIF_SEED", "0") or 0)
    os.environ["PYTHONHASHSEED"] = "0"
    os.environ.setdefault("PYTHONWARNINGS", "ignore")
    sys.path.insert(0, VERIF + "/harness/props")
    mod = importlib.import_module(args.pid)
    t0 = time.time()
    pid = mod.PID

    if args.replay:
        return replay(mod, args.replay)

    # ---- 1/2: proofs and runner (serialised across concurrent checks)
    with Lock():
        if args.no_build:
            built, bdetail = True, {"steps": ["skipped"]}
        else:
            built, bdetail = build_proofs(mod, clean=False)
        thms, pa_report, pa_ok = ([], {}, False)
        runner = None
        runner_err = ""
        if built:
            thms, pa_report, pa_ok = print_assumptions(mod)
            runner, runner_err = build_runner(mod)
        else:
            try:
                thms = theorems_of(os.path.join(COQ, mod.PROPS))
            except OSError:
                thms = []
            # the model may still run from the previous extraction
            r = "%s/build/%s/run" % (VERIF, mod.CLUSTER.lower())
            runner = r if os.path.exists(r) else None
        bad_words = forbidden_scan(mod)
    coqchk = None
    if built and args.tier == "thorough" and not args.no_build:
        # independent re-check of the compiled property file and everything it depends on
        modpath = "MafVerif." + mod.PROPS.replace(".v", "").replace("/", ".")
        with Lock():
            rc, out, dt = sh("timeout 2400 coqchk -silent -o -Q %s MafVerif %s" % (COQ, modpath), 2500, cwd=COQ)
        m = re.search(r"\* Axioms:(.*?)\n\s*\n\* Constants/Inductives relying on type-in-type:(.*?)\n\s*\n\* Constants/Inductives relying on unsafe \(co\)fixpoints:(.*?)\n\s*\n\* Inductives whose positivity is assumed:(.*?)\n", out + "\n\n", flags=re.S)
        if rc == 124:
            coqchk = {"status": "timed out (not counted as an obligation)", "s": round(dt, 1)}
        elif rc != 0 or not m:
            coqchk = {"status": "failed", "rc": rc, "tail": out[-600:], "s": round(dt, 1)}
        else:
            parts = [" ".join(x.split()) for x in m.groups()]
            coqchk = {"status": "ok" if all(p == "<none>" for p in parts) else "reports assumptions",
                      "axioms": parts[0], "type_in_type": parts[1], "unsafe_fixpoints": parts[2], "assumed_positivity": parts[3], "s": round(dt, 1)}
    extra = []
    if coqchk is not None and coqchk["status"] != "timed out (not counted as an obligation)":
        extra.append(("coqchk -o (independent checker: no axioms, no unsafe switches)", coqchk["status"] == "ok", json.dumps(coqchk)[:400]))
    if hasattr(mod, "EXTRA_OBLIGATIONS"):
        try:
            extra = extra + list(mod.EXTRA_OBLIGATIONS({"built": built}))
        except Exception as e:
            extra = [("extra-obligations", False, repr(e))]

    obligations = len(thms) + len(extra) + 1  # +1: forbidden-vernacular scan
    discharged = (len(thms) if (built and pa_ok) else 0) + sum(1 for e in extra if e[1]) + (0 if bad_words else 1)
    proof_broken = []
    if not built:
        proof_broken.append("build: " + bdetail.get("error", "?"))
    elif not pa_ok:
        proof_broken.append("assumptions: " + json.dumps(pa_report)[:1500])
    if bad_words:
        proof_broken.append("forbidden vernacular: " + "; ".join(bad_words[:10]))
    for e in extra:
        if not e[1]:
            proof_broken.append("obligation %s: %s" % (e[0], e[2]))
    if built and runner is None:
        proof_broken.append("extraction/runner build failed: " + runner_err)

    # ---- 3/4: corpus + generated cases
    n = mod.N_THOROUGH if args.tier == "thorough" else mod.N_QUICK
    changed = source_changes()
    steer = {"changed_functions": changed, "budget_multiplier": 1, "focus": False}
    if changed:
        if args.tier == "quick":
            steer["budget_multiplier"] = 3
            n = n * 3
        if hasattr(mod, "focus"):
            try:
                mod.focus(changed)
                steer["focus"] = True
            except Exception as e:
                steer["focus"] = "focus() failed: %r" % (e,)
    if os.environ.get("VERIF_BUDGET_MULT"):
        # development aid: a larger sample on the unchanged tree (what a check does by itself when the source changed)
        n = n * max(1, int(os.environ["VERIF_BUDGET_MULT"]))
        steer["budget_multiplier"] = "forced x%s" % os.environ["VERIF_BUDGET_MULT"]
    rng = random.Random(seed * 1000003 + int(hashlib.sha256(pid.encode()).hexdigest()[:6], 16))
    corpus = list(mod.corpus())
    gen = list(mod.generate(rng, n))
    cases = corpus + gen
    results = evaluate(mod, cases, runner)

    def summarize(results):
        dist = {}
        distinct = set()
        for r in results:
            lab = "?"
            try:
                lab = mod.classify(r["case"], r["impl"][1] if r["impl"][0] == "ok" else None)
            except Exception:
                pass
            dist[lab] = dist.get(lab, 0) + 1
            try:
                if r["impl"][0] == "ok" and mod.nontrivial(r["case"], r["impl"][1]):
                    distinct.add(case_hash(r["case"]))
            except Exception:
                pass
        return dist, len(distinct)

    dist, n_distinct = summarize(results)
    harness_errors = [r for r in results if r["impl"][0] != "ok" or (r["model"] is not None and r["model"][0] != "ok")]
    disagreements = [r for r in results if r["agree"] is False and r["impl"][0] == "ok" and r["model"][0] == "ok"]
    violating = [r for r in results if r["violations"]]

    corr_broken = []
    if harness_errors:
        r = harness_errors[0]
        corr_broken.append("harness/model error on %d cases, first: impl=%s model=%s" % (len(harness_errors), str(r["impl"])[:300], str(r["model"])[:300]))
    if disagreements:
        corr_broken.append("%d cases where the model and /repo disagree" % len(disagreements))

    # ---- widened search when something broke and no concrete violation yet
    widened = 0
    if (proof_broken or corr_broken) and not violating:
        wn = max(n * 4, mod.N_THOROUGH)
        more = list(mod.generate(random.Random(seed + 77), wn))
        # steer: put mutations of disagreeing cases first
        wres = evaluate(mod, more, None, want_model=False)
        widened = len(more)
        violating = [r for r in wres if r["violations"]]

    # ---- 5: verdict
    known = [k for k in load_known() if k.get("property") == pid]
    exit_code = 0
    lines = []
    seen_known = set()
    new_viol = []
    for r in violating:
        for v in r["violations"]:
            sig = mod.signature(r["case"], v)
            hit = next((k for k in known if k.get("signature") == sig), None)
            if hit:
                if sig not in seen_known:
                    seen_known.add(sig)
                    lines.append("KNOWN-FINDING: property=%s %s" % (pid, hit.get("what", sig)))
            else:
                new_viol.append((r, v, sig))
    replay_paths = []
    if new_viol:
        r, v, sig = new_viol[0]

        def still_bad(c):
            rr = evaluate(mod, [c], None, want_model=False)[0]
            return any(mod.signature(c, x) == sig for x in rr["violations"])

        hist = []
        alone = False
        try:
            alone = still_bad(r["case"])
        except Exception:
            pass
        if not alone and r.get("history") and history_violates(mod, r["history"], r["case"], sig):
            # the input violates the property only after other calls in the same interpreter: the replay is that history
            hist = shrink_history(mod, r["history"], r["case"], sig)
            small = r["case"]
        else:
            small = shrink_case(mod, r["case"], still_bad)
        rr = evaluate(mod, [small], runner)[0]
        path = write_replay(pid, "failing-history" if hist else "failing-input", {
            "case": small, "history": hist, "violation": v, "signature": sig, "impl_observed": rr["impl"],
            "model_says": rr["model"], "other_new_violations": len(new_viol) - 1,
            "reproduces_alone": alone or not hist,
            "how": "./check %s --replay <this file>" % pid})
        replay_paths.append(path)
        lines.append("VIOLATION property=%s replay=%s" % (pid, path))
        exit_code = 1
    elif proof_broken or corr_broken:
        payload = {"no_longer_checks": proof_broken + corr_broken, "theorems": thms,
                   "widened_search_cases": widened, "note": "no input was found on which /repo violates the property"}
        if disagreements:
            d = disagreements[0]

            def still_dis(c):
                rr = evaluate(mod, [c], runner)[0]
                return rr["agree"] is False and rr["impl"][0] == "ok" and rr["model"][0] == "ok"

            small = shrink_case(mod, d["case"], still_dis)
            rr = evaluate(mod, [small], runner)[0]
            payload["disagreeing_case"] = {"case": small, "impl": rr["impl"], "model": rr["model"]}
        path = write_replay(pid, "broken-obligation" if proof_broken else "broken-correspondence", payload)
        replay_paths.append(path)
        lines.append("VIOLATION property=%s replay=%s no-failing-input-found" % (pid, path))
        exit_code = 1

    # ---- 6: evidence
    samples = []
    for r in results[: len(corpus) + 3][-3:] + results[-2:]:
        smp = {"case": r["case"], "impl": r["impl"][1] if r["impl"][0] == "ok" else r["impl"]}
        txt = json.dumps(smp, default=str)
        if len(txt) > 4000:
            # a sample is an illustration, not a log: keep the evidence file small
            smp = {"case_hash": case_hash(r["case"]), "truncated_json": txt[:1500] + " ...", "full_length": len(txt)}
        samples.append(smp)
    ev = {
        "property_id": pid, "tier": args.tier, "seed": seed, "level": "proof",
        "coverage": {
            "obligations": obligations, "discharged": discharged,
            "checker_cmd": "cd /verif/coq && make %s  (coqc 8.16.1, full .vo build) ; Print Assumptions per theorem" % mod.PROPS.replace(".v", ".vo"),
            "trusted_base": TRUSTED_BASE + list(getattr(mod, "TRUSTED_EXTRA", [])),
            "theorems": thms, "assumptions_report": pa_report,
            "generated_obligations": [{"name": e[0], "ok": e[1], "detail": str(e[2])[:300]} for e in extra],
            "evaluations": len(results) + widened, "distinct_nontrivial": n_distinct,
            "rule": mod.RULE, "samples": json.loads(json.dumps(samples, default=str))[:5],
            "correspondence": {"cases": len(results), "corpus_cases": len(corpus), "agree": sum(1 for r in results if r["agree"]),
                               "disagree": len(disagreements), "errors": len(harness_errors)},
            "oracle_violations_on_impl": len(violating), "distribution": dist,
            "build": bdetail, "widened_search_cases": widened, "coqchk": coqchk, "source_steering": steer,
        },
        "assumptions": list(getattr(mod, "ASSUMPTIONS", [])),
        "wall_s": round(time.time() - t0, 2),
        "violations": len(new_viol) if new_viol else (1 if exit_code else 0),
        "known_findings_reported": sorted(seen_known), "replays": replay_paths,
    }
    os.makedirs(EVIDENCE_DIR, exist_ok=True)
    with open("%s/%s.json" % (EVIDENCE_DIR, pid), "w") as f:
        json.dump(ev, f, indent=1)
    for ln in lines:
        print(ln)
    print("%s %s: theorems=%d discharged=%d/%d cases=%d agree=%d disagree=%d oracle-violations=%d wall=%.1fs -> %s" % (
        pid, args.tier, len(thms), discharged, obligations, len(results), ev["coverage"]["correspondence"]["agree"],
        len(disagreements), len(violating), time.time() - t0, "FAIL" if exit_code else "ok"))
    return exit_code


def replay(mod, path):
    d = json.load(open(path))
    runner = "%s/build/%s/run" % (VERIF, mod.CLUSTER.lower())
    if not os.path.exists(runner):
        runner = None
    case = d.get("case") or (d.get("disagreeing_case") or {}).get("case")
    if case is None:
        print("replay names no input: %s" % json.dumps(d.get("no_longer_checks"))[:2000])
        print("re-run the check itself to see whether the obligation still fails")
        return 2
    if d.get("history"):
        # the input fails only after these earlier calls in the same interpreter
        last = run_history(mod, list(d["history"]) + [case])
        viol = list(mod.oracle(case, last[1])) if last[0] == "ok" else []
        print(json.dumps({"history_length": len(d["history"]), "case": case, "impl": last, "violations": viol}, indent=1)[:6000])
        if viol:
            print("VIOLATION property=%s replay=%s" % (mod.PID, path))
            return 1
        print("replay: property holds on this history now")
        return 0
    r = evaluate(mod, [case], runner)[0]
    print(json.dumps({"case": case, "impl": r["impl"], "model": r["model"], "agree": r["agree"], "violations": r["violations"]}, indent=1)[:6000])
    if r["violations"]:
        print("VIOLATION property=%s replay=%s" % (mod.PID, path))
        return 1
    if r["agree"] is False:
        print("VIOLATION property=%s replay=%s no-failing-input-found" % (mod.PID, path))
        return 1
    print("replay: property holds on this input now")
    return 0
