#!/bin/bash
# usage: build_model.sh <cluster>   (Record -> extract/ExtractRecord.v -> build/record/run)
# Assumes `make` has been run (extract/Extract<Cluster>.vo compiled, which
# wrote coq/x_<cluster>.ml).  Rebuilds the native runner when the extracted
# source changed.
set -e
c=$1
lc=$(echo "$c" | tr 'A-Z' 'a-z')
src=/verif/coq/x_$lc.ml
dst=/verif/build/$lc
mkdir -p $dst
[ -f $src ] || { echo "missing $src" >&2; exit 2; }
if [ ! -x $dst/run ] || ! cmp -s $src $dst/model.ml || [ /verif/ocaml/driver.ml -nt $dst/run ]; then
  cp $src $dst/model.ml; cp /verif/coq/x_$lc.mli $dst/model.mli; cp /verif/ocaml/driver.ml $dst/driver.ml
  (cd $dst && ocamlfind ocamlopt -w -a -O3 model.mli model.ml driver.ml -o run 2>/dev/null || ocamlfind ocamlopt -w -a model.mli model.ml driver.ml -o run)
fi
