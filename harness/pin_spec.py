#!/venv/bin/python
"""One-off: writes the PINNED statement of the documented layouts
(harness/spec_layouts.json and coq/spec/SpecLayouts.v) from the tree as it was
when the specification was reviewed.  It is NOT run by the checks: the pinned
files are committed, and a later change to a JSON scheme, an enum or a column
class shows up as a difference between the regenerated model and this pinned
specification.  The class -> documented-domain table below is hand-written
from the class docstrings and the GDC MAF documentation."""
import json, sys
sys.path.insert(0, "/repo")
from maflib.scheme_factory import all_schemes
from maflib import column_values
from enum import Enum

ENUM_CLASSES = {  # column class -> (enum, capitalising?, member-valued null keys, None-valued null key)
    "Strand": ("StrandEnum", False, [], None), "VariantClassification": ("VariantClassificationEnum", False, [], None),
    "VariantType": ("VariantTypeEnum", False, [], None), "VariantSupport": ("VariantSupportEnum", False, [], None),
    "VerificationStatus": ("VerificationStatusEnum", False, [], ""), "ValidationStatus": ("ValidationStatusEnum", False, [], ""),
    "MutationStatus": ("MutationStatusEnum", False, [], None), "Sequencer": ("SequencerEnum", False, [], None),
    "FeatureType": ("FeatureTypeEnum", False, [], ""), "Impact": ("ImpactEnum", False, [], None),
    "MC3Overlap": ("MC3OverlapEnum", False, [], None), "GdcValidationStatus": ("GdcValidationStatusEnum", False, [], None),
    "YesNoOrUnknown": ("YesNoOrUnknownEnum", False, [], None),
    "NullableYesOrNo": ("NullableYesOrNoEnum", True, [["Null", 0], ["", 0]], None),
    "NullableYOrN": ("NullableYOrNEnum", True, [["Null", 0], ["", 0]], None),
    "PickColumn": ("PickEnum", True, [["Null", 0], ["", 0]], None),
}

def enum_descr(c):
    e, cap, nulls, none_key = ENUM_CLASSES[c]
    d = {"k": "enum", "enum": e, "cap": cap, "nulls": nulls}
    if none_key is not None:
        d["null"] = none_key
    return d

DESCR = {
    "StringColumn": {"k": "text", "nonempty": True},
    "NullableStringColumn": {"k": "text", "null": ""},
    "StringOrIntegerColumn": {"k": "textorint"},
    "IntegerColumn": {"k": "int"}, "NullableIntegerColumn": {"k": "int", "null": ""},
    "ZeroBasedIntegerColumn": {"k": "int", "lo": 0}, "OneBasedIntegerColumn": {"k": "int", "lo": 1},
    "NullableZeroBasedIntegerColumn": {"k": "int", "lo": 0, "null": ""},
    "NullableOneBasedIntegerColumn": {"k": "int", "lo": 1, "null": ""},
    "EntrezGeneId": {"k": "entrez"},
    "FloatColumn": {"k": "float"}, "NullableFloatColumn": {"k": "float", "null": ""},
    "NullableDnaString": {"k": "dna", "null": ""}, "DnaString": {"k": "dna"},
    "UUIDColumn": {"k": "uuid"}, "NullableUUIDColumn": {"k": "uuid", "null": ""},
    "Canonical": {"k": "canonical"}, "BooleanColumn": {"k": "bool"}, "TranscriptStrand": {"k": "strand", "null": ""},
    "SequenceOfStrings": {"k": "seq", "elem": {"k": "text", "nonempty": True}},
    "SequenceOfIntegers": {"k": "seq", "elem": {"k": "int"}},
}
for c in ENUM_CLASSES:
    DESCR[c] = enum_descr(c)
DESCR["SequenceOfNullableYesOrNo"] = {"k": "seq", "elem": enum_descr("NullableYesOrNo")}
DESCR["SequenceOfSequencers"] = {"k": "seq", "elem": enum_descr("Sequencer")}

def descr_of_class(cls):
    from maflib import column_types
    if getattr(column_types, cls.__name__, None) is cls:
        return DESCR[cls.__name__]
    extra, base = cls.__bases__
    assert extra.__name__ == "RequireNullValue", cls.__mro__
    return {"k": "mustnull", "base": descr_of_class(base)}

layouts = {}
for s in all_schemes():
    if s.annotation_spec() == "no-annotation-specification":
        continue
    inst = s()
    layouts[s.annotation_spec()] = {"version": s.version(),
                                    "columns": [[n, descr_of_class(inst.column_class(n))] for n in inst.column_names()]}
enums = {}
for name in dir(column_values):
    obj = getattr(column_values, name)
    if isinstance(obj, type) and issubclass(obj, Enum) and obj.__name__.endswith("Enum") and obj.__name__ not in ("MafEnum", "Enum"):
        enums[name] = [[m.name, m.value] for m in obj]
json.dump({"layouts": {k: v for k, v in sorted(layouts.items())}, "enums": enums, "classes": DESCR}, open("/verif/harness/spec_layouts.json", "w"), indent=0, sort_keys=True)

# ---- Coq
def q(s): return '"' + s.replace('"', '""') + '"'
def cd(d):
    k = d["k"]; nullable = "true" if "null" in d else "false"
    if k == "text": return "(DText %s %s)" % ("true" if d.get("nonempty") else "false", nullable)
    if k == "int": return "(DInt %s %s)" % ("None" if "lo" not in d else "(Some (%d)%%Z)" % d["lo"], nullable)
    if k == "entrez": return "DEntrez"
    if k == "textorint": return "DTextOrInt"
    if k == "float": return "(DFloat %s)" % nullable
    if k == "enum": return "(DEnum %s %s [%s] %s)" % (q(d["enum"]), "true" if d["cap"] else "false", "; ".join("(%s, %d%%nat)" % (q(a), b) for a, b in d["nulls"]), nullable)
    if k == "dna": return "(DDna %s)" % nullable
    if k == "uuid": return "(DUuid %s)" % nullable
    if k == "canonical": return "DCanonical"
    if k == "bool": return "DBool"
    if k == "strand": return "DStrand"
    if k == "seq": return "(DSeq %s)" % cd(d["elem"])
    if k == "mustnull": return "(DMustNull %s)" % cd(d["base"])
    raise ValueError(d)
out = ["(* PINNED specification of the documented layouts and vocabularies; written once by\n   /verif/harness/pin_spec.py and reviewed; NOT regenerated by the checks. *)\n"
       "From Coq Require Import String List ZArith.\nImport ListNotations.\nOpen Scope string_scope.\n\n"
       "Inductive descr :=\n| DText (nonempty nullable : bool)\n| DInt (lo : option Z) (nullable : bool)\n| DEntrez | DTextOrInt\n| DFloat (nullable : bool)\n"
       "| DEnum (e : string) (cap : bool) (nulls : list (string * nat)) (nullable : bool)\n| DDna (nullable : bool) | DUuid (nullable : bool)\n"
       "| DCanonical | DBool | DStrand\n| DSeq (elem : descr) | DMustNull (base : descr).\n\n"]
names = []
for a, l in sorted(layouts.items()):
    ident = "spec_" + "".join(ch if ch.isalnum() else "_" for ch in a)
    names.append((a, l["version"], ident))
    out.append("Definition %s : list (string * descr) := [\n  %s].\n\n" % (ident, ";\n  ".join("(%s, %s)" % (q(n), cd(d)) for n, d in l["columns"])))
out.append("(* (version, annotation, columns) *)\nDefinition spec_layouts : list (string * string * list (string * descr)) := [%s].\n\n" % "; ".join("(%s, %s, %s)" % (q(v), q(a), i) for a, v, i in names))
out.append("Definition spec_enums : list (string * list (string * string)) := [\n%s].\n" % ";\n".join("  (%s, [%s])" % (q(e), "; ".join("(%s, %s)" % (q(n), q(v)) for n, v in ms)) for e, ms in sorted(enums.items())))
out.append('\nDefinition germline6 : list string := ["Match_Norm_Seq_Allele1"; "Match_Norm_Seq_Allele2"; "Match_Norm_Validation_Allele1"; "Match_Norm_Validation_Allele2"; "n_ref_count"; "n_alt_count"].\n'
           'Definition masked_layouts : list string := ["gdc-1.0.0-public"; "gdc-1.0.1-public"; "gdc-1.0.0-aliquot-merged-masked"; "gdc-2.0.0-aliquot-merged-masked"].\n'
           'Definition vcf_protected_only : list string := ["vcf_region"; "vcf_info"; "vcf_format"; "vcf_tumor_gt"; "vcf_normal_gt"].\n')
open("/verif/coq/spec/SpecLayouts.v", "w").write("".join(out))
print("layouts:", {a: len(l["columns"]) for a, l in layouts.items()})
