"""S-expression wire format shared with ocaml/driver.ml: atoms are decimal
integers, lists are parenthesised.  Python side: int <-> atom, list <-> list.
Strings travel as lists of code points."""


def S(s):
    """python str -> list of code points"""
    return [ord(c) for c in s]


def U(lst):
    """list of code points -> python str"""
    return "".join(chr(c) for c in lst)


def B(b):
    return 1 if b else 0


def OPT(x, f=lambda v: v):
    return [] if x is None else [f(x)]


def dumps(x):
    out = []

    def go(v):
        if isinstance(v, bool):
            out.append("1" if v else "0")
        elif isinstance(v, int):
            out.append(str(v))
        else:
            out.append("(")
            first = True
            for y in v:
                if not first:
                    out.append(" ")
                first = False
                go(y)
            out.append(")")

    go(x)
    return "".join(out)


def loads(s):
    pos = 0
    n = len(s)
    stack = [[]]
    while pos < n:
        ch = s[pos]
        if ch == "(":
            stack.append([])
            pos += 1
        elif ch == ")":
            top = stack.pop()
            stack[-1].append(top)
            pos += 1
        elif ch in " \r\n":
            pos += 1
        else:
            st = pos
            while pos < n and s[pos] not in " ()\r\n":
                pos += 1
            stack[-1].append(int(s[st:pos]))
    assert len(stack) == 1 and len(stack[0]) == 1, "bad sexp: %r" % s[:80]
    return stack[0][0]
