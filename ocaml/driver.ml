(* Generic driver for an extracted model: reads one S-expression per line on
   stdin, applies Model.dispatch, prints one S-expression per line.
   Wire format: atoms are decimal integers, lists are parenthesised.
   All decoding of cases into model types happens inside the extracted Coq
   code; this file only converts text <-> Model.sexp. *)
module M = Model

(* ---- decimal string <-> positive, without native-int limits ---- *)
let positive_of_decimal (s : string) : M.positive =
  (* s: non-empty digits, value >= 1 *)
  let digits = Array.init (String.length s) (fun i -> Char.code s.[i] - 48) in
  let n = Array.length digits in
  let is_zero () = Array.for_all (fun d -> d = 0) digits in
  let halve () =
    let carry = ref 0 in
    for i = 0 to n - 1 do
      let v = !carry * 10 + digits.(i) in
      digits.(i) <- v / 2; carry := v mod 2
    done; !carry in
  let bits = ref [] in
  while not (is_zero ()) do bits := (halve ()) :: !bits done;
  (* !bits is MSB first, head is 1 *)
  match !bits with
  | [] -> failwith "positive_of_decimal: zero"
  | _ :: rest -> List.fold_left (fun p b -> if b = 1 then M.XI p else M.XO p) M.XH rest

let decimal_of_positive (p : M.positive) : string =
  let rec bits p acc = match p with
    | M.XH -> 1 :: acc | M.XO q -> bits q (0 :: acc) | M.XI q -> bits q (1 :: acc) in
  let bs = bits p [] in (* MSB first *)
  let small = List.length bs <= 60 in
  if small then string_of_int (List.fold_left (fun a b -> a * 2 + b) 0 bs)
  else begin
    let digits = ref [0] in (* little endian decimal *)
    let double_add b =
      let carry = ref b in
      let out = List.map (fun d -> let v = d * 2 + !carry in carry := v / 10; v mod 10) !digits in
      digits := if !carry > 0 then out @ [!carry] else out in
    List.iter double_add bs;
    String.concat "" (List.rev_map string_of_int !digits)
  end

let z_of_string (s : string) : M.z =
  if s = "0" || s = "-0" then M.Z0
  else if s.[0] = '-' then M.Zneg (positive_of_decimal (String.sub s 1 (String.length s - 1)))
  else M.Zpos (positive_of_decimal s)

let string_of_z = function
  | M.Z0 -> "0" | M.Zpos p -> decimal_of_positive p | M.Zneg p -> "-" ^ decimal_of_positive p

(* ---- parser ---- *)
let parse (s : string) : M.sexp =
  let n = String.length s in
  let pos = ref 0 in
  let rec skip () = if !pos < n && (s.[!pos] = ' ' || s.[!pos] = '\r') then (incr pos; skip ()) in
  let rec item () : M.sexp =
    skip ();
    if !pos >= n then failwith "eof"
    else if s.[!pos] = '(' then begin
      incr pos;
      let acc = ref [] in
      let rec loop () =
        skip ();
        if !pos >= n then failwith "unclosed"
        else if s.[!pos] = ')' then incr pos
        else (acc := item () :: !acc; loop ()) in
      loop (); M.L (List.rev !acc)
    end else begin
      let st = !pos in
      while !pos < n && s.[!pos] <> ' ' && s.[!pos] <> '(' && s.[!pos] <> ')' do incr pos done;
      M.A (z_of_string (String.sub s st (!pos - st)))
    end in
  item ()

let rec print (b : Buffer.t) (x : M.sexp) : unit =
  match x with
  | M.A z -> Buffer.add_string b (string_of_z z)
  | M.L l ->
    Buffer.add_char b '(';
    List.iteri (fun i y -> if i > 0 then Buffer.add_char b ' '; print b y) l;
    Buffer.add_char b ')'

let () =
  let b = Buffer.create 65536 in
  (try
     while true do
       let line = input_line stdin in
       Buffer.clear b;
       (try print b (M.dispatch (parse line))
        with Stack_overflow -> Buffer.clear b; Buffer.add_string b "(-998)"
           | Failure m -> Buffer.clear b; Buffer.add_string b "(-997)"; prerr_endline m);
       print_string (Buffer.contents b); print_newline ()
     done
   with End_of_file -> ())
