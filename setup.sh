#!/bin/bash
# Build everything the checks need from files on disk (offline).
set -e
cd /verif
mkdir -p build evidence replays work
if [ -f harness/gen_tables.py ]; then /venv/bin/python harness/gen_tables.py; fi
harness/mkproject.sh
(cd coq && timeout 3000 make -j16 2>&1 | grep -v '^COQ' | tail -20; exit ${PIPESTATUS[0]})
for f in coq/extract/Extract*.v; do
  c=$(basename $f .v); c=${c#Extract}
  harness/build_model.sh $c
done
if grep -rnE '\b(Admitted|admit|Axiom|Parameter|Conjecture)\b' coq --include=*.v | grep -v '(\*' ; then echo "forbidden vernacular found" >&2; exit 1; fi
echo "setup ok"
