(* ColRecord.v - records whose columns carry typed values:
   MafColumnRecord.validate / MafCustomColumnRecord.validate with a scheme,
   MafRecord.from_line, MafRecord.validate (as the writer calls it),
   MafRecord.__str__, over the container model of RecordOps.v. *)
From Coq Require Import String Ascii.
From MafVerif Require Import lib.Base lib.Str gen.GenClasses gen.GenMisc model.Classes model.Columns model.Layouts model.RecordOps.
Open Scope string_scope.

(* a column object: its class and its value *)
Record cv := { v_cls : cref; v_val : pyval }.
Definition ccol := col cv.
Definition crec := rec cv.

Inductive mode := Strict | Lenient | Silent.

Record verr := { etpe : string; eline : option Z; ecol : option str }.
Definition mkerr (t : string) (ln : option Z) (c : option str) : verr := {| etpe := t; eline := ln; ecol := c |}.

Definition tpe_index (t : string) : Z :=
  match find_index (String.eqb t) error_type_names 0 with Some i => Z.of_nat i | None => -1 end.

(* MafValidationError.process_validation_errors: Strict raises the first error *)
Definition process_errors {X} (m : mode) (errs : list verr) (x : X) : res X :=
  match m, errs with
  | Strict, e :: _ => Raise (MafFormat (tpe_index (etpe e)) (eline e))
  | _, _ => Ok x
  end.

Section WithTables.
  Variable tbl : list class_info.
  Variable O : oracles.

  (* schemes as the record code sees them *)
  Definition scheme := list (str * cref).
  Definition scheme_truthy (s : scheme) : bool := match s with [] => false | _ => true end.
  Fixpoint scheme_index (s : scheme) (n : str) (i : nat) : option nat :=
    match s with [] => None | (k, _) :: r => if str_eqb k n then Some i else scheme_index r n (S i) end.
  Definition scheme_class (s : scheme) (n : str) : option cref := assoc n s.

  Definition resolve_or_plain (c : cref) : rcls :=
    match resolve tbl c with
    | Some r => r
    | None => {| r_cls := c; r_mro := [c];
                 r_self := {| e_custom := false; e_null := None; e_min := None; e_max := None; e_enum := None;
                              e_build := []; e_validate := []; e_string_it := ["MafColumnRecord"] |};
                 r_elem := None |}
    end.

  (* column.validate(scheme=..., line_number=...) for a column object *)
  Definition col_validate (sch : option scheme) (ln : option Z) (c : ccol) : list verr :=
    let r := resolve_or_plain (v_cls (cval c)) in
    let v := v_val (cval c) in
    (if cls_value_invalid r v then [mkerr "RECORD_COLUMN_WRONG_FORMAT" ln (Some (ckey c))] else [])
    ++ (if cls_text_has_sep r v then [mkerr "RECORD_INVALID_COLUMN_VALUE" ln (Some (ckey c))] else [])
    ++ match sch with
       | None => []
       | Some s =>
           if scheme_truthy s then
             match scheme_index s (ckey c) 0 with
             | None => [mkerr "SCHEME_MISMATCHING_COLUMN_NAMES" ln (Some (ckey c))]
             | Some si =>
                 let out_of_order := match cidx c with Some i => negb (Z.eqb i (Z.of_nat si)) | None => false end in
                 if out_of_order then [mkerr "RECORD_COLUMN_OUT_OF_ORDER" ln (Some (ckey c))]
                 else match scheme_class s (ckey c) with
                      | Some sc => if isinstance tbl (v_cls (cval c)) sc then []
                                   else [mkerr "RECORD_COLUMN_WRONG_FORMAT" ln (Some (ckey c))]
                      | None => []
                      end
             end
           else []
       end%list.

  (* str(column), with str(None) = "None" for an empty slot *)
  Definition slot_str (o : option ccol) : res str :=
    match o with
    | None => Ok (s2l "None")
    | Some c => col_str (resolve_or_plain (v_cls (cval c))) (v_val (cval c))
    end.

  Definition rec_str (r : crec) : res str :=
    match map_res slot_str (rlist r) with
    | Ok fs => Ok (join [TAB] fs)
    | Raise e => Raise e
    end.

  (* MafRecord.validate(stringency, reset_errors, scheme): the errors it adds *)
  Definition rec_validate_errors (sch : option scheme) (ln : option Z) (r : crec) : list verr :=
    (match sch with
     | Some s => if scheme_truthy s && negb (Nat.eqb (length s) (length (rlist r)))
                 then [mkerr "RECORD_MISMATCH_NUMBER_OF_COLUMNS" None None] else []
     | None => []
     end)
    ++ flat_map (fun o => match o with
                          | None => [mkerr "RECORD_COLUMN_WITH_NO_VALUE" ln None]
                          | Some c => col_validate sch None c
                          end) (rlist r).

  (* the self-consistency part of MafRecord.validate (run when no slot is None):
     name map and slot list must hold the same columns, every column must
     report the index of its slot; problems are validation errors *)
  Definition rec_sync_errors (ln : option Z) (r : crec) : list verr :=
    if existsb is_none (rlist r) then []
    else
      (if negb (Nat.eqb (length (rdict r)) (length (rlist r)))
          || existsb (fun o => match o with
                               | Some c => match assoc (ckey c) (rdict r) with
                                           | Some c' => negb (match cidx c, cidx c' with
                                                              | Some i, Some j => Z.eqb i j
                                                              | None, None => true
                                                              | _, _ => false end)
                                           | None => true
                                           end
                               | None => false
                               end) (rlist r)
       then [mkerr "RECORD_OUT_OF_SYNC" ln None] else [])
      ++ flat_map (fun p => match snd p with
                            | Some c => match cidx c with
                                        | Some i => if Z.eqb i (Z.of_nat (fst p)) then []
                                                    else [mkerr "RECORD_COLUMN_INDEX_OUT_OF_SYNC" ln None]
                                        | None => [mkerr "RECORD_COLUMN_INDEX_OUT_OF_SYNC" ln None]
                                        end
                            | None => []
                            end) (List.combine (seq 0 (length (rlist r))) (rlist r)).

  Definition rec_validate (m : mode) (sch : option scheme) (ln : option Z) (old : list verr) (r : crec)
    : res (list verr) :=
    let errs := (old ++ rec_validate_errors sch ln r ++ rec_sync_errors ln r)%list in
    process_errors m errs errs.

  (* one field of from_line: build, validate, store *)
  Definition parse_field (sch : option scheme) (ln : option Z) (i : nat) (name : str) (text : str)
    : (option ccol) * list verr :=
    let cls := match sch with Some s => if scheme_truthy s then scheme_class s name else None | None => None end in
    match cls with
    | None =>
        let c := {| ckey := name; cidx := Some (Z.of_nat i);
                    cval := {| v_cls := CSrc "MafColumnRecord"; v_val := VStr text |} |} in
        let errs := col_validate sch ln c in
        (match errs with [] => Some c | _ => None end, errs)
    | Some sc =>
        let r := resolve_or_plain sc in
        match cls_build O r text with
        | Raise _ => (None, [mkerr "RECORD_INVALID_COLUMN_VALUE" ln (Some name)])
        | Ok v =>
            let c := {| ckey := name; cidx := Some (Z.of_nat i);
                        cval := {| v_cls := built_class r; v_val := v |} |} in
            let errs := col_validate sch ln c in
            (match errs with [] => Some c | _ => None end, errs)
        end
    end.

  Fixpoint parse_fields (sch : option scheme) (ln : option Z) (i : nat) (names : list str) (texts : list str)
           (r : crec) (errs : list verr) : res (crec * list verr) :=
    match names, texts with
    | n :: ns, t :: ts =>
        let '(oc, es) := parse_field sch ln i n t in
        match oc with
        | None => parse_fields sch ln (S i) ns ts r (errs ++ es)%list
        | Some c =>
            match setitem r (KStr n) c with
            | (r', Ok _) => parse_fields sch ln (S i) ns ts r' (errs ++ es)%list
            | (_, Raise e) => Raise e          (* escapes from_line (duplicate names without a scheme) *)
            end
        end
    | _, _ => Ok (r, errs)
    end.

  (* MafRecord.from_line(line, column_names, scheme, line_number, stringency) *)
  Definition from_line (m : mode) (names : option (list str)) (sch : option scheme) (ln : option Z) (line : str)
    : res (crec * list verr) :=
    match (match names with
           | Some ns => Ok ns
           | None => match sch with Some s => Ok (map fst s) | None => Raise ValueError end
           end) with
    | Raise e => Raise e
    | Ok ns =>
        let texts := split TAB (rstrip_crlf line) in
        if negb (Nat.eqb (length ns) (length texts)) then
          let errs := [mkerr "RECORD_MISMATCH_NUMBER_OF_COLUMNS" ln None] in
          match rec_validate m None ln errs empty_rec with
          | Ok es => Ok (empty_rec, es)
          | Raise e => Raise e
          end
        else
          match parse_fields sch ln 0 ns texts empty_rec [] with
          | Raise e => Raise e
          | Ok (r, errs) =>
              match rec_validate m None ln errs r with
              | Ok es => Ok (r, es)
              | Raise e => Raise e
              end
          end
    end.

  (* record.value(name) *)
  Definition rec_value (r : crec) (n : str) : pyval :=
    match assoc n (rdict r) with Some c => v_val (cval c) | None => VNone end.
End WithTables.
