(* Sorter.v - model of maflib/sorter.py: Sorter.add / __spill / __sort_stash /
   __iter__, _SortedIterator, _MergingIterator (the repaired code: the merge
   asks has_next(), it no longer tests keys and values for truth).

   Generic over the item type A, the key type K, the byte-string type D, the
   caller's key function (may raise), the order `lt` on keys
   (_SortEntry.__lt__ / _SortedIterator.__lt__), the codec, and the host's
   sorted()/heapq, which are represented by ONE oracle `pick_min`: "split a
   non-empty list into an element no other element is `lt` than, and the
   rest".  sorted() is repeated pick_min; heappop is pick_min on the cursors.

   This file is the data view (no I/O faults): a spill file is the list of
   the encoded records written to it.  SorterWorld.v adds the I/O protocol.
   No proofs here. *)
From MafVerif Require Import lib.Base.

Section Sorter.
  Variables A K D : Type.
  Variable keyf : A -> res K.            (* key_func(obj) *)
  Variable lt : K -> K -> bool.          (* key < key *)
  Variable enc : A -> D.                 (* codec.encode *)
  Variable dec : D -> res A.             (* codec.decode(data, 0, len(data)) *)
  Variable pick_min : forall X : Type, (X -> X -> bool) -> list X -> option (X * list X).

  (* ---------- _SortEntry ---------- *)
  Definition entry := (K * D)%type.
  Definition lt_entry (a b : entry) : bool := lt (fst a) (fst b).

  (* sorted(l): fuel = length l; None = fuel exhausted or the oracle refused
     (never happens under the oracle's contract: SorterFacts.sort_with_ok) *)
  Fixpoint sort_with {X : Type} (ltx : X -> X -> bool) (fuel : nat) (l : list X) : option (list X) :=
    match l with
    | [] => Some []
    | _ :: _ =>
        match fuel with
        | O => None
        | S f =>
            match pick_min X ltx l with
            | None => None
            | Some (x, r) =>
                match sort_with ltx f r with
                | Some r' => Some (x :: r')
                | None => None
                end
            end
        end
    end.

  Definition sort_entries (l : list entry) : option (list entry) :=
    sort_with lt_entry (length l) l.

  (* ---------- Sorter ---------- *)
  (* stash = self._stash[:self._objects_in_memory]; chunks = contents of the
     files in self._paths, in order *)
  Record sorter := mkSorter {
    cap : nat;                 (* max_objects_in_ram *)
    always : bool;             (* always_spill *)
    stash : list entry;
    chunks : list (list D)
  }.

  Definition new (c : nat) (al : bool) : sorter :=
    {| cap := c; always := al; stash := []; chunks := [] |}.

  Definition with_stash (s : sorter) (st : list entry) : sorter :=
    {| cap := cap s; always := always s; stash := st; chunks := chunks s |}.

  (* Sorter.__spill (data view) *)
  Definition spill (s : sorter) : res sorter :=
    match stash s with
    | [] => Ok s                                   (* if self._objects_in_memory > 0 *)
    | _ :: _ =>
        match sort_entries (stash s) with
        | None => Raise AssertionError             (* model fuel; unreachable *)
        | Some l =>
            Ok {| cap := cap s; always := always s; stash := [];
                  chunks := chunks s ++ [map snd l] |}
        end
    end.

  (* Sorter.add: key first, then encode, then store, then spill when full.
     A failing add leaves the sorter as it was. *)
  Definition add (s : sorter) (x : A) : res sorter :=
    bind (keyf x) (fun k =>
      let d := enc x in
      if (cap s <=? length (stash s))%nat then Raise IndexError   (* self._stash[n] = ... *)
      else
        let s1 := with_stash s (stash s ++ [(k, d)]) in
        if (length (stash s1) =? cap s)%nat then spill s1 else Ok s1).

  Fixpoint adds (s : sorter) (xs : list A) : res sorter :=
    match xs with
    | [] => Ok s
    | x :: r => bind (add s x) (fun s' => adds s' r)
    end.

  (* ---------- _SortedIterator: a cursor over one spill file ---------- *)
  (* a cursor on the heap always has a decoded head (has_next() is true) *)
  Record cursor := mkCursor { hkey : K; hval : A; crest : list D }.
  Definition lt_cursor (a b : cursor) : bool := lt (hkey a) (hkey b).

  (* __advance on what is left of the file: None = end of file *)
  Definition advance (ds : list D) : res (option cursor) :=
    match ds with
    | [] => Ok None
    | d :: r =>
        bind (dec d) (fun a =>
        bind (keyf a) (fun k => Ok (Some {| hkey := k; hval := a; crest := r |})))
    end.

  (* _MergingIterator.__init__: one cursor per file, pushed on the heap.
     An empty spill file cannot occur (spill only writes a non-empty stash;
     SorterFacts.chunks_nonempty); python would compare a None key there,
     which for ordinary keys is a TypeError. *)
  Fixpoint mk_cursors (cs : list (list D)) : res (list cursor) :=
    match cs with
    | [] => Ok []
    | c :: r =>
        bind (advance c) (fun oc =>
          match oc with
          | None => Raise TypeError
          | Some cu => bind (mk_cursors r) (fun l => Ok (cu :: l))
          end)
    end.

  Definition cursor_size (c : cursor) : nat := S (length (crest c)).
  Definition heap_size (h : list cursor) : nat := fold_right (fun c n => (cursor_size c + n)%nat) O h.

  (* _MergingIterator.__next__ until exhaustion: the records yielded (with the
     key they were ordered by) and the exception that ended the iteration, if
     any.  An exception inside next() (decode or key of the following record
     of the popped cursor) loses the popped record: it was not yet returned. *)
  Fixpoint merge (fuel : nat) (heap : list cursor) : list (K * A) * option exn :=
    match heap with
    | [] => ([], None)                              (* close(); StopIteration *)
    | _ :: _ =>
        match fuel with
        | O => ([], Some AssertionError)            (* model fuel; unreachable *)
        | S f =>
            match pick_min cursor lt_cursor heap with        (* heappop *)
            | None => ([], Some AssertionError)              (* oracle refused; unreachable *)
            | Some (c, rest) =>
                match advance (crest c) with                 (* s_iter.next() *)
                | Raise e => ([], Some e)
                | Ok None =>                                 (* not has_next(): dropped *)
                    let '(ys, e) := merge f rest in ((hkey c, hval c) :: ys, e)
                | Ok (Some c') =>                            (* heappush *)
                    let '(ys, e) := merge f (c' :: rest) in ((hkey c, hval c) :: ys, e)
                end
            end
        end
    end.

  (* the in-memory branch of __iter__: decode(i) for i in range(n) *)
  Fixpoint decode_all (ds : list D) : list A * option exn :=
    match ds with
    | [] => ([], None)
    | d :: r =>
        match dec d with
        | Raise e => ([], Some e)
        | Ok a => let '(ys, e) := decode_all r in (a :: ys, e)
        end
    end.

  Definition is_nil {X} (l : list X) : bool := match l with [] => true | _ => false end.

  (* Sorter.__iter__ run to exhaustion (list(sorter)): yielded records, the
     exception that ended it (None = StopIteration), the sorter afterwards *)
  Definition iter (s : sorter) : (list A * option exn) * sorter :=
    if negb (is_nil (chunks s)) || always s then
      match spill s with
      | Raise e => (([], Some e), s)
      | Ok s1 =>
          match mk_cursors (chunks s1) with
          | Raise e => (([], Some e), s1)
          | Ok heap =>
              let '(kys, e) := merge (heap_size heap) heap in
              ((map snd kys, e), s1)
          end
      end
    else
      match sort_entries (stash s) with
      | None => (([], Some AssertionError), s)
      | Some l => (decode_all (map snd l), with_stash s l)   (* the stash stays sorted *)
      end.

End Sorter.

Arguments cap {K D} _.
Arguments always {K D} _.
Arguments stash {K D} _.
Arguments chunks {K D} _.
Arguments hkey {A K D} _.
Arguments hval {A K D} _.
Arguments crest {A K D} _.

(* ---------- the oracle instance used by the extracted run ---------- *)
(* left-most minimal element: what a stable selection does *)
Fixpoint leftmost_min_aux {X : Type} (ltx : X -> X -> bool) (m : X) (pre : list X) (acc : list X) (l : list X)
  : X * list X :=
  (* m = current minimum, pre = elements before m (reversed), acc = elements
     after m seen so far (reversed) *)
  match l with
  | [] => (m, rev pre ++ rev acc)
  | y :: r =>
      if ltx y m then leftmost_min_aux ltx y (acc ++ m :: pre) [] r
      else leftmost_min_aux ltx m pre (y :: acc) r
  end.

Definition leftmost_min (X : Type) (ltx : X -> X -> bool) (l : list X) : option (X * list X) :=
  match l with
  | [] => None
  | x :: r => Some (leftmost_min_aux ltx x [] [] r)
  end.
