(* SortOrderDispatch.v - wire decoding for the "sortorder" cluster (C08-C10).
   pv    := () | (0 z) | (1 str)                        None / int / str
   loc   := (0 pv pv pv) | (1 ((name pv) ...))          plain Locatable / MafRecord columns
   C08:  (0 cls contigs (loc ...) name)  cls 0 Coordinate, 1 BarcodesAndCoordinate; name: SortOrder.find(name)
         contigs := () | ((pv ...))      contigs=None / contigs=[...]
         reply ((info ...) (pairs ...) find) : per record the accessor echo, the key
         outcome and str(key); per ordered pair the seven comparison results
   C09:  (1 (headerline ...) (loc ...))  reply (echo (n-yielded outcome))
   C10:  (2 hdr assume_sorted (wrec ...))
         hdr := (0 (headerline ...) scheme) | (1 (textline ...) cls so_contigs contigs scheme)
         scheme := () | ((name ...)) ; wrec := (loc line (name ...))
         reply (out-lines outcome closed) *)
From MafVerif Require Import lib.Base lib.Str lib.SortOrderLib
  model.SortOrder model.OrderCheck model.WriterSort.

Definition dec_pv (s : sexp) : option pv :=
  match s with
  | L [] => Some PNone
  | L [A 0; A z] => Some (PInt z)
  | L [A 1; t] => option_map PStr (as_str t)
  | _ => None
  end.

Definition dec_col (s : sexp) : option (str * pv) :=
  match s with
  | L [n; v] => match as_str n, dec_pv v with Some n', Some v' => Some (n', v') | _, _ => None end
  | _ => None
  end.

Definition dec_loc (s : sexp) : option locatable :=
  match s with
  | L [A 0; c; st; e] =>
      match dec_pv c, dec_pv st, dec_pv e with
      | Some c', Some s', Some e' => Some (Plain c' s' e')
      | _, _, _ => None
      end
  | L [A 1; cols] => option_map Maf (as_listof dec_col cols)
  | _ => None
  end.

Definition enc_pv (v : pv) : sexp :=
  match v with PNone => L [] | PInt z => L [A 0; A z] | PStr s => L [A 1; s_of_str s] end.

Definition enc_res {X} (f : X -> sexp) (r : res X) : sexp :=
  match r with Ok x => L [A 0; f x] | Raise e => L [A 1; s_of_exn e] end.

Definition enc_unit (r : res unit) : sexp :=
  match r with Ok _ => L [] | Raise e => s_of_exn e end.

(* what the accessors the keys use return on this object *)
Definition enc_echo (l : locatable) : sexp :=
  L [ enc_res enc_pv (l_chromosome l); enc_res enc_pv (l_start l); enc_res enc_pv (l_end l);
      enc_res enc_pv (l_value l n_Tumor); enc_res enc_pv (l_value l n_Normal);
      s_of_bool (l_truthy l) ].

Definition dec_cls (z : Z) : so_class := if z =? 0 then CCoordinate else CBarcodesAndCoordinate.

(* ---------- C08 ---------- *)
Definition enc_pair (a b : res skey) : sexp :=
  match a, b with
  | Ok x, Ok y =>
      L [ enc_res A (key_cmp x y);
          enc_res s_of_bool (key_lt x y); enc_res s_of_bool (key_le x y);
          enc_res s_of_bool (key_gt x y); enc_res s_of_bool (key_ge x y);
          enc_res s_of_bool (key_eq x y); enc_res s_of_bool (key_ne x y) ]
  | _, _ => L []
  end.

Definition enc_find (name : str) : sexp :=
  match so_find name with
  | Ok c => L [A 0; s_of_str (so_name c)]
  | Raise e => L [A 1; s_of_exn e]
  end.

Definition run_c08 (cls : Z) (contigs : option (list pv)) (ls : list locatable) (fname : str) : sexp :=
  let so := so_make (dec_cls cls) contigs in
  match sort_key so with
  | Raise e => L [s_of_exn e]
  | Ok kf =>
      let keys := map (build_key kf) ls in
      L [ L (map (fun lk => L [enc_echo (fst lk); enc_unit (bind (snd lk) (fun _ => Ok tt));
                                  match snd lk with Ok k => enc_res s_of_str (key_str k) | Raise _ => L [] end])
                 (combine ls keys));
          L (map (fun a => L (map (fun b => enc_pair a b) keys)) keys);
          enc_find fname ]
  end.

(* ---------- C09 ---------- *)
Definition run_c09 (hl : list str) (ls : list locatable) : sexp :=
  let '(ys, fin) := reader_iter hl ls in
  L [ L (map enc_echo ls); L [s_of_nat (length ys); enc_unit fin] ].

(* ---------- C10 ---------- *)
Definition wrec := (locatable * (str * list str))%type.

(* stand-in for iterating the MafSorter: stable insertion sort by key `<` *)
Fixpoint ins_sorted (kf : keyfn) (x : wrec) (l : list wrec) : res (list wrec) :=
  match l with
  | [] => Ok [x]
  | y :: r =>
      bind (build_key kf (fst x)) (fun kx =>
      bind (build_key kf (fst y)) (fun ky =>
      bind (key_lt kx ky) (fun b =>
      if b then Ok (x :: y :: r) else bind (ins_sorted kf x r) (fun r' => Ok (y :: r')))))
  end.
Definition stable_sort (kf : keyfn) (l : list wrec) : res (list wrec) :=
  fold_left (fun acc x => bind acc (fun a => ins_sorted kf x a)) l (Ok []).

Definition dec_wrec (s : sexp) : option wrec :=
  match s with
  | L [l; line; names] =>
      match dec_loc l, as_str line, as_listof as_str names with
      | Some l', Some line', Some names' => Some (l', (line', names'))
      | _, _, _ => None
      end
  | _ => None
  end.

Definition dec_hdr (s : sexp) : option wheader :=
  match s with
  | L [A 0; lines; scheme] =>
      match as_listof as_str lines, as_opt (as_listof as_str) scheme with
      | Some ls, Some sch =>
          let h := header_from_lines ls in
          Some {| wh_text := header_print h; wh_sort := h_sort_order h;
                  wh_contigs := pv_contigs (h_contigs h); wh_scheme := sch |}
      | _, _ => None
      end
  | L [A 1; text; A cls; soc; contigs; scheme] =>
      match as_listof as_str text, as_opt (as_listof dec_pv) soc,
            as_opt (as_listof dec_pv) contigs, as_opt (as_listof as_str) scheme with
      | Some t, Some sc, Some c, Some sch =>
          Some {| wh_text := t;
                  wh_sort := (if cls <? 0 then so_make CUnsorted None
                              else if cls =? 2 then so_make CUnknown None
                              else so_make (dec_cls cls) sc);
                  wh_contigs := c; wh_scheme := sch |}
      | _, _, _, _ => None
      end
  | _ => None
  end.

Definition run_c10 (h : wheader) (assume_sorted : bool) (rs : list wrec) : sexp :=
  let '(w, fin) :=
    writer_session wrec fst (fun r => fst (snd r)) (fun r => snd (snd r)) (fun _ => Ok tt)
                   stable_sort h assume_sorted rs in
  L [ s_of_list s_of_str (w_out _ w); enc_unit fin; s_of_bool (w_closed _ w) ].

Definition dispatch (s : sexp) : sexp :=
  match s with
  | L [A 0; A cls; contigs; locs; fname] =>
      match as_opt (as_listof dec_pv) contigs, as_listof dec_loc locs, as_str fname with
      | Some c, Some ls, Some fn => run_c08 cls c ls fn
      | _, _, _ => s_bad
      end
  | L [A 1; lines; locs] =>
      match as_listof as_str lines, as_listof dec_loc locs with
      | Some hl, Some ls => run_c09 hl ls
      | _, _ => s_bad
      end
  | L [A 2; hdr; A srt; recs] =>
      match dec_hdr hdr, as_listof dec_wrec recs with
      | Some h, Some rs => run_c10 h (srt =? 0) rs
      | _, _ => s_bad
      end
  | _ => s_bad
  end.
