(* Validation.v - model of maflib/validation.py: error values, the three
   stringencies, MafValidationError.process_validation_errors, and the log
   (records emitted on the `maflib` logger tree, in order). *)
From MafVerif Require Import lib.Base.

(* ValidationStringency *)
Inductive mode := Strict | Lenient | Silent.

Definition mode_eqb (a b : mode) : bool :=
  match a, b with
  | Strict, Strict | Lenient, Lenient | Silent, Silent => true
  | _, _ => false
  end.

(* MafValidationErrorType, numbered in declaration order *)
Definition T_HEADER_MISSING : Z := 0.
Definition T_HEADER_LINE_MISSING_START_SYMBOL : Z := 1.
Definition T_HEADER_LINE_MISSING_SEPARATOR : Z := 2.
Definition T_HEADER_LINE_EMPTY_KEY : Z := 3.
Definition T_HEADER_LINE_EMPTY_VALUE : Z := 4.
Definition T_HEADER_DUPLICATE_KEYS : Z := 5.
Definition T_HEADER_MISSING_VERSION : Z := 6.
Definition T_HEADER_UNSUPPORTED_VERSION : Z := 7.
Definition T_HEADER_MISSING_ANNOTATION_SPEC : Z := 8.
Definition T_HEADER_UNSUPPORTED_ANNOTATION_SPEC : Z := 9.
Definition T_HEADER_UNSUPPORTED_SORT_ORDER : Z := 10.
Definition T_HEADER_MISMATCH_SCHEME : Z := 11.
Definition T_HEADER_MISSING_COLUMN_NAMES : Z := 12.
Definition T_HEADER_MISMATCHING_COLUMN_NAMES : Z := 13.
Definition T_RECORD_COLUMN_WITH_NO_VALUE : Z := 14.
Definition T_RECORD_OUT_OF_SYNC : Z := 15.
Definition T_RECORD_COLUMN_INDEX_OUT_OF_SYNC : Z := 16.
Definition T_RECORD_MISMATCH_NUMBER_OF_COLUMNS : Z := 17.
Definition T_RECORD_COLUMN_WRONG_FORMAT : Z := 18.
Definition T_RECORD_INVALID_COLUMN_VALUE : Z := 19.
Definition T_RECORD_INVALID_COLUMN_NAME : Z := 20.
Definition T_RECORD_COLUMN_OUT_OF_ORDER : Z := 21.
Definition T_SCHEME_MISMATCHING_NUMBER_OF_COLUMN_NAMES : Z := 22.
Definition T_SCHEME_MISMATCHING_COLUMN_NAMES : Z := 23.

(* MafValidationError: the type and the optional line number (messages are not
   modelled) *)
Record verr := { etpe : Z; eline : option Z }.
Definition mkerr (t : Z) (ln : option Z) : verr := {| etpe := t; eline := ln |}.

(* loggers of the `maflib` tree that the modelled code writes to *)
Inductive logger := LgRoot | LgReader | LgWriter.

(* a record on the log: every modelled record has level WARNING *)
Inductive logrec :=
| LIgnored (lg : logger) (e : verr)   (* MafValidationError.ignore_message(e) *)
| LNoScheme.                          (* reader: "No matching scheme was found ..." *)

Definition log := list logrec.

(* an entry point's outcome: what was logged before it returned or raised,
   and the result *)
Definition out (A : Type) : Type := (log * res A)%type.

Definition oret {A} (a : A) : out A := ([], Ok a).
Definition oraise {A} (e : exn) : out A := ([], Raise e).
Definition obind {A B} (x : out A) (f : A -> out B) : out B :=
  match x with
  | (l1, Ok a) => let '(l2, r) := f a in (l1 ++ l2, r)
  | (l1, Raise e) => (l1, Raise e)
  end.
Definition olog {A} (l : log) (x : out A) : out A := (l ++ fst x, snd x).

(* MafValidationError.process_validation_errors *)
Definition process (m : mode) (lg : logger) (errs : list verr) : out unit :=
  match errs with
  | [] => oret tt                        (* `if validation_errors and ...` *)
  | e0 :: _ =>
      match m with
      | Silent => oret tt
      | Strict => oraise (MafFormat (etpe e0) (eline e0))
      | Lenient => (map (LIgnored lg) errs, Ok tt)
      end
  end.

(* wire *)
Definition s_of_verr (e : verr) : sexp := L [A (etpe e); s_of_opt A (eline e)].
Definition s_of_logger (l : logger) : sexp :=
  A (match l with LgRoot => 0 | LgReader => 1 | LgWriter => 2 end).
Definition s_of_logrec (r : logrec) : sexp :=
  match r with
  | LIgnored lg e => L [A 0; s_of_logger lg; s_of_verr e]
  | LNoScheme => L [A 1]
  end.
Definition as_mode (s : sexp) : option mode :=
  match s with
  | A 1 => Some Strict | A 2 => Some Lenient | A 3 => Some Silent
  | _ => None
  end.
