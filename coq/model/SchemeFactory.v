(* SchemeFactory.v - model of maflib/scheme_factory.py (load_all_scheme_data,
   combine_columns, build_scheme_class, build_schemes, validate_schemes,
   scheme_sort_key, load_all_schemes), maflib/util.py extend_class and the
   scheme classes of maflib/schemes.py as far as the factory uses them.
   Definitions only; facts are in proofs/Scheme*.v.

   Column classes are symbolic terms: a class of column_types.py (CSrc) or a
   class synthesised by extend_class(base, extra) = type(name, (extra, base), {})
   (CMix).  Whether python can create the synthesised class (C3 linearisation
   of (extra, base), duplicate base) is the parameter [mixok]; the extracted
   runner instantiates it with a C3 implementation over the class table the
   harness reads from the library (model/SchemesDispatch.v). *)
From MafVerif Require Import lib.Base lib.Str.

(* ---------- classes, columns, data, schemes ---------- *)
Inductive cls := CSrc (name : str) | CMix (extra base : cls).

Fixpoint cls_eqb (a b : cls) : bool :=
  match a, b with
  | CSrc x, CSrc y => str_eqb x y
  | CMix e1 b1, CMix e2 b2 => cls_eqb e1 e2 && cls_eqb b1 b2
  | _, _ => false
  end.

(* scheme_factory._Column *)
Record column := { cname : str; ccls : cls; cdesc : str }.

(* scheme_factory.SchemeDatum; extends/filtered after else_none *)
Record datum := {
  dversion : str; dannot : str; dextends : option str;
  dcolumns : list column; dfiltered : option (list str) }.

(* a python dict  column name -> _Column  (insertion ordered, keys distinct) *)
Definition col_dict := list (str * column).

(* a scheme class: NoRestrictionsScheme, or a class made by build_scheme_class
   (version(), annotation_spec(), __column_dict__/__column_desc__ which are
   kept together as one ordered dict name -> (class, description)) *)
Record bscheme := { bversion : str; bannot : str; bcols : col_dict }.
Inductive scheme := NoRestrictions | Built (b : bscheme).

Definition NO_VERSION : str :=
  [110;111;45;118;101;114;115;105;111;110]%N.                       (* "no-version" *)
Definition NO_ANNOTATION : str :=
  [110;111;45;97;110;110;111;116;97;116;105;111;110;45;115;112;101;99;105;102;105;99;97;116;105;111;110]%N.
                                                                     (* "no-annotation-specification" *)
Definition s_version (s : scheme) : str :=
  match s with NoRestrictions => NO_VERSION | Built b => bversion b end.
Definition s_annot (s : scheme) : str :=
  match s with NoRestrictions => NO_ANNOTATION | Built b => bannot b end.

Definition mem (x : str) (l : list str) : bool := existsb (str_eqb x) l.

(* ---------- JSON files as load_all_scheme_data sees them ---------- *)
(* a value that may be the string "None" (else_none turns it into None), a
   JSON null (None already) or a proper value *)
Inductive jopt (X : Type) := JNoneStr | JNull | JVal (x : X).
Arguments JNoneStr {X}. Arguments JNull {X}. Arguments JVal {X} x.

Definition else_none {X} (j : jopt X) : option X :=
  match j with JNoneStr => None | JNull => None | JVal x => Some x end.

Record jfile := {
  jversion : str; jannot : str; jextends : jopt str;
  jcolumns : list (list str);        (* each entry: the JSON array of strings *)
  jfiltered : jopt (list str) }.

Inductive fileres :=
| FOpenError                          (* open() fails: OSError, not caught *)
| FBadJson                            (* json.load fails: re-raised as ValueError *)
| FMissingKey (columns_key : bool) (j : jfile)
    (* a key is absent: json_data["columns"] raises KeyError before the
       columns are looked at (true), any of the other four raises KeyError
       when the SchemeDatum is made, after the columns loop (false) *)
| FJson (j : jfile).

Section Factory.
  (* can python create type(name, (extra, base), {}) ? *)
  Variable mixok : cls -> cls -> bool.

  (* util.extend_class(base_cls, cls) *)
  Definition extend_class (base extra : cls) : res cls :=
    if mixok extra base then Ok (CMix extra base) else Raise TypeError.

  (* ---------- load_all_scheme_data ---------- *)
  (* one entry of json_data["columns"] *)
  Definition load_column (types : list str) (c : list str) : res column :=
    match c with
    | [n; t] =>
        if mem t types then Ok {| cname := n; ccls := CSrc t; cdesc := [] |}
        else Raise ValueError
    | [n; t; d] =>
        if mem t types then Ok {| cname := n; ccls := CSrc t; cdesc := d |}
        else Raise ValueError
    | _ => Raise ValueError            (* len(column) < 2 or len(column) > 3 *)
    end.

  Fixpoint load_columns (types : list str) (cs : list (list str)) : res (list column) :=
    match cs with
    | [] => Ok []
    | c :: r =>
        bind (load_column types c) (fun c' =>
        bind (load_columns types r) (fun r' => Ok (c' :: r')))
    end.

  Definition load_file (types : list str) (f : fileres) : res datum :=
    match f with
    | FOpenError => Raise (OSError true)
    | FBadJson => Raise ValueError
    | FMissingKey true _ => Raise KeyError
    | FMissingKey false j => bind (load_columns types (jcolumns j)) (fun _ => Raise KeyError)
    | FJson j =>
        bind (load_columns types (jcolumns j)) (fun cols =>
        Ok {| dversion := jversion j; dannot := jannot j;
              dextends := else_none (jextends j);
              dcolumns := cols;
              dfiltered := else_none (jfiltered j) |})
    end.

  Fixpoint load_all_scheme_data (fs : str -> fileres) (types : list str)
           (filenames : list str) : res (list datum) :=
    match filenames with
    | [] => Ok []
    | f :: r =>
        bind (load_file types (fs f)) (fun d =>
        bind (load_all_scheme_data fs types r) (fun r' => Ok (d :: r')))
    end.

  (* ---------- combine_columns ---------- *)
  (* for extra_column in extra_columns: if name in columns: columns[name] =
     _Column(name, extend_class(columns[name].cls, extra_column.cls), extra desc) *)
  Fixpoint mix_extras (cols : col_dict) (extras : list column) : res col_dict :=
    match extras with
    | [] => Ok cols
    | e :: r =>
        match assoc (cname e) cols with
        | Some b =>
            bind (extend_class (ccls b) (ccls e)) (fun c =>
            mix_extras (dset (cname e) {| cname := cname e; ccls := c; cdesc := cdesc e |} cols) r)
        | None => mix_extras cols r
        end
    end.

  (* dict.update(pairs) *)
  Fixpoint dict_update (cols : col_dict) (l : list column) : col_dict :=
    match l with
    | [] => cols
    | c :: r => dict_update (dset (cname c) c cols) r
    end.

  Definition combine_columns (base : col_dict) (extras : list column)
             (filtered : option (list str)) : res col_dict :=
    (* columns = {c.name: c for c in base_columns}: base_columns are the items
       of the base scheme's own dict, so this is that dict again *)
    (* `if extra_columns:` - both statements below do nothing on an empty list *)
    bind (mix_extras base extras) (fun cols1 =>
    (* the list of new columns is computed completely before the update *)
    let news := filter (fun c => is_none (assoc (cname c) cols1)) extras in
    let cols2 := dict_update cols1 news in
    match filtered with
    | Some fl =>
        match filter (fun f => is_none (assoc f cols2)) fl with
        | [] => Ok (filter (fun kv => negb (mem (fst kv) fl)) cols2)
        | _ :: _ => Raise ValueError             (* missing_filtered *)
        end
    | None => Ok cols2
    end).

  (* ---------- build_scheme_class ---------- *)
  (* `datum.columns if datum.columns else list()` is the identity on lists;
     `if base_scheme:` tests None (a class object is truthy); the two
     OrderedDicts made from the combined columns repeat their (distinct) keys
     in the same order, so the combined dict is kept as it is *)
  Definition build_scheme_class (d : datum) (base : option bscheme) : res bscheme :=
    let base_columns := match base with Some b => bcols b | None => [] end in
    bind (combine_columns base_columns (dcolumns d) (dfiltered d)) (fun cols =>
    Ok {| bversion := dversion d; bannot := dannot d; bcols := cols |}).

  (* ---------- build_schemes ---------- *)
  (* not d.extends or d.extends in schemes *)
  Definition buildable (schemes : list (str * bscheme)) (d : datum) : bool :=
    match dextends d with
    | Some (c :: e) => is_some (assoc (c :: e) schemes)
    | _ => true
    end.

  (* next(((i, d) for (i, d) in enumerate(data) if ...), (None, None)) together
     with the later `del data[datum_index]` *)
  Fixpoint pick (schemes : list (str * bscheme)) (data : list datum)
    : option (datum * list datum) :=
    match data with
    | [] => None
    | d :: r =>
        if buildable schemes d then Some (d, r)
        else match pick schemes r with
             | Some (x, r') => Some (x, d :: r')
             | None => None
             end
    end.

  (* the while loop; one datum leaves the list per iteration, so fuel = length
     of the list is enough (SchemeFactoryFacts.build_loop_fuel) *)
  Definition FUEL_EXHAUSTED : exn := NotImplementedError.

  Fixpoint build_loop (fuel : nat) (schemes : list (str * bscheme)) (data : list datum)
    : res (list (str * bscheme)) :=
    match data with
    | [] => Ok schemes
    | _ :: _ =>
        match fuel with
        | O => Raise FUEL_EXHAUSTED
        | S fuel' =>
            match pick schemes data with
            | None => Raise ValueError          (* "Could not find a scheme to build" *)
            | Some (d, rest) =>
                (* schemes.get(extends) if extends else None *)
                let base := match dextends d with
                            | Some (c :: e) => assoc (c :: e) schemes
                            | _ => None
                            end in
                bind (build_scheme_class d base) (fun sc =>
                if is_some (assoc (bannot sc) schemes) then Raise ValueError
                else build_loop fuel' (dset (bannot sc) sc schemes) rest)
            end
        end
    end.

  Definition build_schemes (data : list datum) : res (list (str * bscheme)) :=
    build_loop (length data) [] data.

  (* ---------- validate_schemes ---------- *)
  Definition same_pair (a b : scheme) : bool :=
    str_eqb (s_version a) (s_version b) && str_eqb (s_annot a) (s_annot b).

  Fixpoint validate_schemes (l : list scheme) : res bool :=
    match l with
    | [] => Ok true
    | s :: r => if existsb (same_pair s) r then Raise ValueError else validate_schemes r
    end.

  (* ---------- scheme_sort_key and list.sort ---------- *)
  Inductive atom := KI (z : Z) | KS (s : str).

  Definition GDC_DASH : str := [103;100;99;45]%N.     (* "gdc-" *)
  Definition DOT : char := 46%N.

  (* int(s) for the texts the documented version patterns produce: a non-empty
     run of ASCII digits; anything else is taken to raise ValueError (python
     also accepts signs, blanks, underscores and non-ASCII digits: excluded by
     an assumption of the check) *)
  Fixpoint digits_val (acc : Z) (s : str) : option Z :=
    match s with
    | [] => Some acc
    | c :: r => if ((48 <=? c) && (c <=? 57))%N
                then digits_val (acc * 10 + Z.of_N (c - 48)) r else None
    end.
  Definition int_of_text (s : str) : res Z :=
    match s with
    | [] => Raise ValueError
    | _ => match digits_val 0 s with Some z => Ok z | None => Raise ValueError end
    end.

  Fixpoint ints_of_texts (l : list str) : res (list Z) :=
    match l with
    | [] => Ok []
    | s :: r => bind (int_of_text s) (fun z => bind (ints_of_texts r) (fun zs => Ok (z :: zs)))
    end.

  Definition extract_version_string (v : str) : res (list atom) :=
    if negb (startswith v GDC_DASH) then Ok [KI (-1); KI (-1); KI (-1); KS v]
    else
      let v1 := skipn 4 v in
      let '(v2, last) := match split1 DASH v1 with
                         | (a, Some b) => (a, b)
                         | (a, None) => (a, [])
                         end in
      bind (ints_of_texts (split DOT v2)) (fun zs => Ok (map KI zs ++ [KS last])).

  Definition scheme_sort_key (s : scheme) : res (list atom) :=
    bind (extract_version_string (s_version s)) (fun v =>
    bind (extract_version_string (s_annot s)) (fun a => Ok (v ++ a))).

  Fixpoint str_lt (a b : str) : bool :=
    match a, b with
    | [], [] => false
    | [], _ :: _ => true
    | _ :: _, [] => false
    | x :: a', y :: b' => if N.eqb x y then str_lt a' b' else N.ltb x y
    end.

  Definition atom_eqb (a b : atom) : bool :=
    match a, b with
    | KI x, KI y => Z.eqb x y
    | KS x, KS y => str_eqb x y
    | _, _ => false
    end.
  Definition atom_lt (a b : atom) : res bool :=
    match a, b with
    | KI x, KI y => Ok (Z.ltb x y)
    | KS x, KS y => Ok (str_lt x y)
    | _, _ => Raise TypeError          (* '<' not supported between int and str *)
    end.
  (* list < list *)
  Fixpoint key_lt (a b : list atom) : res bool :=
    match a, b with
    | [], [] => Ok false
    | [], _ :: _ => Ok true
    | _ :: _, [] => Ok false
    | x :: a', y :: b' => if atom_eqb x y then key_lt a' b' else atom_lt x y
    end.

  (* list.sort(key=...): a stable sort that only uses `<` (modelled as
     insertion from the right; which comparisons raise TypeError on keys of
     mixed shape depends on the host's algorithm and is outside the model) *)
  Fixpoint insert_key {X} (x : list atom * X) (l : list (list atom * X)) : res (list (list atom * X)) :=
    match l with
    | [] => Ok [x]
    | y :: r =>
        bind (key_lt (fst y) (fst x)) (fun b =>
        if b then bind (insert_key x r) (fun r' => Ok (y :: r')) else Ok (x :: y :: r))
    end.
  Fixpoint sort_keyed {X} (l : list (list atom * X)) : res (list (list atom * X)) :=
    match l with
    | [] => Ok []
    | x :: r => bind (sort_keyed r) (insert_key x)
    end.
  Fixpoint with_keys (l : list scheme) : res (list (list atom * scheme)) :=
    match l with
    | [] => Ok []
    | s :: r => bind (scheme_sort_key s) (fun k => bind (with_keys r) (fun r' => Ok ((k, s) :: r')))
    end.
  Definition sort_schemes (l : list scheme) : res (list scheme) :=
    bind (with_keys l) (fun kl => bind (sort_keyed kl) (fun sl => Ok (map snd sl))).

  (* ---------- load_all_schemes ---------- *)
  (* [builtins] = get_built_in_filenames() (glob order), [types] the names of
     get_column_types(), [fs] the file system; `if extra_filenames:` adds
     nothing for None / [] *)
  Definition load_all_schemes (types : list str) (fs : str -> fileres)
             (builtins extra : list str) : res (list scheme) :=
    let filenames := builtins ++ extra in
    bind (load_all_scheme_data fs types filenames) (fun data =>
    bind (build_schemes data) (fun d =>
    let l := NoRestrictions :: map (fun kv => Built (snd kv)) d in
    bind (validate_schemes l) (fun _ => sort_schemes l))).
End Factory.
