(* OrderCheck.v - model of SortOrderChecker / SortOrderEnforcingIterator
   (maflib/sort_order.py), of the sort-order related parts of maflib/header.py
   (MafHeaderRecord.from_line dispatch, MafHeaderSortOrderRecord,
   MafHeaderContigRecord, MafHeader.from_lines / sort_order / contigs) and of
   the ordering part of MafReader.__iter__.  No proofs here. *)
From MafVerif Require Import lib.Base lib.Str lib.SortOrderLib model.SortOrder.

(* ---------- SortOrderChecker ---------- *)
Record checker := { ch_last : option locatable; ch_sort_f : option keyfn }.

(* __init__: try sort_order.sort_key() except NotImplementedError: None *)
Definition checker_init (so : sort_order) : res checker :=
  match sort_key so with
  | Ok f => Ok {| ch_last := None; ch_sort_f := Some f |}
  | Raise NotImplementedError => Ok {| ch_last := None; ch_sort_f := None |}
  | Raise e => Raise e
  end.

(* `if self._last_record and self._sort_f`: None is falsy, a record follows
   its own truth value, a function object is truthy *)
Definition last_truthy (o : option locatable) : bool :=
  match o with None => false | Some l => l_truthy l end.

(* __iadd__ / add: the state is unchanged when it raises *)
Definition checker_add (ch : checker) (record : locatable) : checker * res unit :=
  let check : res unit :=
    match ch_last ch, ch_sort_f ch with
    | Some last, Some f =>
        if l_truthy last then
          bind (build_key f record) (fun rec_key =>
          bind (build_key f last) (fun last_rec_key =>
          bind (key_lt rec_key last_rec_key) (fun lt =>
          if lt then Raise ValueError else Ok tt)))
        else Ok tt
    | _, _ => Ok tt
    end in
  match check with
  | Raise e => (ch, Raise e)
  | Ok _ => ({| ch_last := Some record; ch_sort_f := ch_sort_f ch |}, Ok tt)
  end.

(* ---------- SortOrderEnforcingIterator driven by a `for` loop ----------
   The underlying iterator delivers `rs` and then StopIteration.  Result: the
   records the loop body saw, and how the loop ended. *)
Fixpoint enforce (ch : checker) (rs : list locatable) : list locatable * res unit :=
  match rs with
  | [] => ([], Ok tt)
  | r :: rest =>
      match checker_add ch r with
      | (_, Raise e) => ([], Raise e)
      | (ch', Ok _) => let '(ys, fin) := enforce ch' rest in (r :: ys, fin)
      end
  end.

(* ---------- header: what decides the sort order ---------- *)
Definition k_version : str := [118;101;114;115;105;111;110]%N.
Definition k_annotation : str := [97;110;110;111;116;97;116;105;111;110;46;115;112;101;99]%N.
Definition k_sort_order : str := [115;111;114;116;46;111;114;100;101;114]%N.
Definition k_contigs : str := [99;111;110;116;105;103;115]%N.

Inductive hvalue := HSort (so : sort_order) | HContigs (l : list str) | HOther (v : str).

(* bool(contigs) for the `contigs` argument *)
Definition contigs_truthy (c : option (list pv)) : bool :=
  match c with Some (_ :: _) => true | _ => false end.

(* MafHeaderSortOrderRecord(value=<str>, contigs=...).
   next((so() for so in SortOrder.all() if so.name() == value), Unknown)
   yields the *class* Unknown when nothing matches; it is not an instance of
   SortOrder, so the constructor raises Exception. *)
Definition so_record (value : str) (contigs : option (list pv)) : res sort_order :=
  match find (fun c => str_eqb (so_name c) value) so_all with
  | None => Raise PlainException
  | Some c =>
      if contigs_truthy contigs && is_coordinate c then Ok (so_make c contigs)
      else Ok (so_make c None)
  end.

(* MafHeaderRecord.from_line: (key, record) or None when the line yields an
   error instead of a record *)
Definition header_record (line : str) : option (str * hvalue) :=
  if negb (startswith line [HASH]) then None
  else
    match split1 SP (tl line) with
    | (_, None) => None
    | (key, Some v0) =>
        let value := rstrip_ws v0 in
        match key, value with
        | [], _ => None
        | _, [] => None
        | _, _ =>
            if str_eqb key k_version then Some (key, HOther value)
            else if str_eqb key k_annotation then Some (key, HOther value)
            else if str_eqb key k_sort_order then
              match so_record value None with
              | Ok so => Some (key, HSort so)
              | Raise _ => None
              end
            else if str_eqb key k_contigs then Some (key, HContigs (split COMMA value))
            else Some (key, HOther value)
        end
    end.

Definition header := list (str * hvalue).

(* MafHeader.contigs() *)
Definition h_contigs (h : header) : option (list str) :=
  match assoc k_contigs h with Some (HContigs l) => Some l | _ => None end.

(* MafHeader.sort_order(): Unsorted() when absent *)
Definition h_sort_order (h : header) : sort_order :=
  match assoc k_sort_order h with Some (HSort so) => so | _ => so_make CUnsorted None end.

Definition pv_contigs (c : option (list str)) : option (list pv) := option_map (map PStr) c.

(* MafHeader.from_lines: the first record of a key wins, later ones are
   errors; then the sort order is rebuilt with the header's contigs *)
Definition header_add_line (h : header) (line : str) : header :=
  match header_record line with
  | None => h
  | Some (key, v) => match assoc key h with Some _ => h | None => h ++ [(key, v)] end
  end.

Definition header_from_lines (lines : list str) : header :=
  let h := fold_left header_add_line lines [] in
  if contigs_truthy (pv_contigs (h_contigs h)) then
    if is_coordinate (so_cls (h_sort_order h)) then
      match so_record (so_name (so_cls (h_sort_order h))) (pv_contigs (h_contigs h)) with
      | Ok so => dset k_sort_order (HSort so) h
      | Raise _ => h
      end
    else h
  else h.

(* str(header): one line per record.  MafHeaderRecord.__str__ is
   "#key value"; a sort order prints its name, contigs are joined by ',' *)
Definition header_value_text (v : hvalue) : str :=
  match v with
  | HSort so => so_name (so_cls so)
  | HContigs l => join [COMMA] l
  | HOther t => t
  end.
Definition header_print (h : header) : list str :=
  map (fun kv => HASH :: fst kv ++ SP :: header_value_text (snd kv)) h.

(* ---------- MafReader.__iter__ : SortOrderEnforcingIterator(self,
   self.header().sort_order()), consumed by a `for` loop, over a file whose
   data lines parse to `rs` ---------- *)
Definition reader_iter (header_lines : list str) (rs : list locatable) : list locatable * res unit :=
  match checker_init (h_sort_order (header_from_lines header_lines)) with
  | Raise e => ([], Raise e)
  | Ok ch => enforce ch rs
  end.
