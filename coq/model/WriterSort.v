(* WriterSort.v - model of maflib/writer.py (MafWriter.__init__,
   _set_checker_and_sorter, __iadd__, close) with maflib/sorter.py's MafSorter
   as "a sorter": its construction (SortOrder.find(name)(contigs=...).sort_key())
   and `add` (which builds the key) are modelled, iterating it is the Section
   variable `sorter_iter`.  No proofs here. *)
From MafVerif Require Import lib.Base lib.Str lib.SortOrderLib model.SortOrder model.OrderCheck.

Section Writer.
  (* a record as the writer sees it *)
  Variable R : Type.
  Variable view : R -> locatable.        (* what sort keys read *)
  Variable render : R -> str.            (* str(record) *)
  Variable rkeys : R -> list str.        (* [str(k) for k in record.keys()] *)
  Variable validate : R -> res unit.     (* record.validate(stringency, scheme=...) *)
  (* iterating a MafSorter built with this key function that holds these
     records (in insertion order) *)
  Variable sorter_iter : keyfn -> list R -> res (list R).

  (* the MafHeader handed to the writer: the lines str(header) prints (one per
     header record), sort_order(), contigs(), and the column names of scheme()
     when the header resolves to one *)
  Record wheader := {
    wh_text : list str;
    wh_sort : sort_order;
    wh_contigs : option (list pv);
    wh_scheme : option (list str) }.

  Record sorter := { st_key : keyfn; st_recs : list R }.

  Record writer := {
    w_out : list str;                  (* lines written to the handle, each followed by "\n" *)
    w_header : wheader;
    w_assume_sorted : bool;
    w_scheme : option (list str);
    w_sorter : option sorter;
    w_checker : option checker;
    w_closed : bool }.

  (* MafSorter(sort_order_name=name, scheme=..., contigs=contigs) *)
  Definition maf_sorter_new (name : str) (contigs : option (list pv)) : res sorter :=
    bind (so_find name) (fun c =>
    bind (so_make_kw c contigs) (fun so =>
    bind (sort_key so) (fun kf => Ok {| st_key := kf; st_recs := [] |}))).

  (* Sorter.add: key = key_func(obj) first *)
  Definition sorter_add (s : sorter) (r : R) : res sorter :=
    bind (build_key (st_key s) (view r)) (fun _ =>
    Ok {| st_key := st_key s; st_recs := st_recs s ++ [r] |}).

  (* _set_checker_and_sorter: returns (checker, sorter) *)
  Definition set_checker_and_sorter (h : wheader) (assume_sorted : bool)
    : res (option checker * option sorter) :=
    (* `self._assume_sorted or not self._header.sort_order().sort_key()`;
       a function object is truthy *)
    bind (if assume_sorted then Ok true else bind (sort_key (wh_sort h)) (fun _ => Ok false)) (fun c =>
    if c then bind (checker_init (wh_sort h)) (fun ch => Ok (Some ch, None))
    else bind (maf_sorter_new (so_name (so_cls (wh_sort h))) (wh_contigs h)) (fun s => Ok (None, Some s))).

  Definition column_line (names : list str) : str := join [TAB] names.

  (* MafWriter(handle, header, assume_sorted): the state reached and whether
     the constructor raised (header validation is not modelled) *)
  Definition writer_open (h : wheader) (assume_sorted : bool) : writer * res unit :=
    (* `if len(self._header) > 0: write(str(header) + "\n")`: no record, no line *)
    let out0 := wh_text h in
    let w0 := {| w_out := out0; w_header := h; w_assume_sorted := assume_sorted;
                 w_scheme := wh_scheme h; w_sorter := None; w_checker := None; w_closed := false |} in
    match wh_scheme h with
    | None => (w0, Ok tt)
    | Some names =>
        let w1 := {| w_out := out0 ++ [column_line names]; w_header := h; w_assume_sorted := assume_sorted;
                     w_scheme := Some names; w_sorter := None; w_checker := None; w_closed := false |} in
        match set_checker_and_sorter h assume_sorted with
        | Raise e => (w1, Raise e)
        | Ok (ch, s) =>
            ({| w_out := w_out w1; w_header := h; w_assume_sorted := assume_sorted;
                w_scheme := Some names; w_sorter := s; w_checker := ch; w_closed := false |}, Ok tt)
        end
    end.

  (* __iadd__ / write *)
  Definition writer_iadd (w : writer) (r : R) : writer * res unit :=
    (* first block: no scheme yet -> NoRestrictionsScheme from the record's keys *)
    let step1 : writer * res unit :=
      match w_scheme w with
      | Some _ => (w, Ok tt)
      | None =>
          let names := rkeys r in
          let w1 := {| w_out := w_out w ++ [column_line names]; w_header := w_header w;
                       w_assume_sorted := w_assume_sorted w; w_scheme := Some names;
                       w_sorter := w_sorter w; w_checker := w_checker w; w_closed := w_closed w |} in
          match set_checker_and_sorter (w_header w) (w_assume_sorted w) with
          | Raise e => (w1, Raise e)
          | Ok (ch, s) =>
              ({| w_out := w_out w1; w_header := w_header w; w_assume_sorted := w_assume_sorted w;
                  w_scheme := Some names; w_sorter := s; w_checker := ch; w_closed := w_closed w |}, Ok tt)
          end
      end in
    match step1 with
    | (w1, Raise e) => (w1, Raise e)
    | (w1, Ok _) =>
        match validate r with
        | Raise e => (w1, Raise e)
        | Ok _ =>
            match w_sorter w1 with
            | Some s =>
                match sorter_add s r with
                | Raise e => (w1, Raise e)
                | Ok s' =>
                    ({| w_out := w_out w1; w_header := w_header w1; w_assume_sorted := w_assume_sorted w1;
                        w_scheme := w_scheme w1; w_sorter := Some s'; w_checker := w_checker w1;
                        w_closed := w_closed w1 |}, Ok tt)
                end
            | None =>
                ({| w_out := w_out w1 ++ [render r]; w_header := w_header w1;
                    w_assume_sorted := w_assume_sorted w1; w_scheme := w_scheme w1; w_sorter := None;
                    w_checker := w_checker w1; w_closed := w_closed w1 |}, Ok tt)
            end
        end
    end.

  (* close *)
  Definition writer_close (w : writer) : writer * res unit :=
    match w_sorter w with
    | Some s =>
        match sorter_iter (st_key s) (st_recs s) with
        | Raise e => (w, Raise e)
        | Ok ys =>
            ({| w_out := w_out w ++ map render ys; w_header := w_header w;
                w_assume_sorted := w_assume_sorted w; w_scheme := w_scheme w; w_sorter := w_sorter w;
                w_checker := w_checker w; w_closed := true |}, Ok tt)
        end
    | None =>
        ({| w_out := w_out w; w_header := w_header w; w_assume_sorted := w_assume_sorted w;
            w_scheme := w_scheme w; w_sorter := None; w_checker := w_checker w; w_closed := true |}, Ok tt)
    end.

  (* a session: open, write each record (stopping at the first exception, as a
     caller's `for r in rs: writer += r` would), close *)
  Fixpoint writer_adds (w : writer) (rs : list R) : writer * res unit :=
    match rs with
    | [] => (w, Ok tt)
    | r :: rest =>
        match writer_iadd w r with
        | (w', Raise e) => (w', Raise e)
        | (w', Ok _) => writer_adds w' rest
        end
    end.

  Definition writer_session (h : wheader) (assume_sorted : bool) (rs : list R) : writer * res unit :=
    match writer_open h assume_sorted with
    | (w, Raise e) => (w, Raise e)
    | (w, Ok _) =>
        match writer_adds w rs with
        | (w', Raise e) => (w', Raise e)
        | (w', Ok _) => writer_close w'
        end
    end.
End Writer.

Arguments sorter : clear implicits.
Arguments writer : clear implicits.
