(* FileIO.v - whole files: what a MafWriter session leaves in the file it
   writes to (maflib/writer.py: __init__, __iadd__, close with sorting off),
   how the host hands that file back line by line (text-mode iteration, with
   and without universal-newline translation), and MafReader run over those
   lines (maflib/reader.py: reader_from / MafReader(lines)).  Built on the
   reader cluster's models: Header.v, RecordParse.v, Reader.v, WriterMode.v;
   generic over the column semantics `colsem`.

   The three output channels of the library (open(path, "w"),
   gzip.open(path, "wt"), a caller's handle) receive the same sequence of
   handle.write(text) calls; the text of the file is their concatenation. *)
From MafVerif Require Import lib.Base lib.Str model.RecordOps model.Validation model.Header
  model.RecordParse model.Reader model.WriterMode.

(* ---------- the host's text files ---------- *)
(* every handle.write call of the writer is `text + "\n"` *)
Definition file_text (entries : list str) : str := flat_map (fun e => e ++ [LF]) entries.

(* reading in text mode with newline=None (open(path, "r"), gzip.open(path,
   "rt")): "\r\n" and a lone "\r" arrive as "\n" *)
Fixpoint universal_newlines (s : str) : str :=
  match s with
  | [] => []
  | c :: r =>
      if N.eqb c CR then
        match r with
        | d :: r' => if N.eqb d LF then LF :: universal_newlines r' else LF :: universal_newlines r
        | [] => [LF]
        end
      else c :: universal_newlines r
  end.

(* iterating a text file: the pieces between "\n"; a final piece is a line
   only when it is not empty (a file that ends in "\n" has no extra line, an
   empty file has no line).  The terminators themselves are dropped: both
   reader_from and MafReader.__next_line__ strip them. *)
Fixpoint drop_last_empty (ps : list str) : list str :=
  match ps with
  | [] => []
  | p :: rest =>
      match rest with
      | [] => match p with [] => [] | _ => [p] end
      | _ => p :: drop_last_empty rest
      end
  end.

(* lines of a handle that does no newline translation (io.StringIO) *)
Definition lines_of (text : str) : list str := drop_last_empty (split LF text).
(* lines of a file opened by path *)
Definition file_lines (text : str) : list str := lines_of (universal_newlines text).

Section FileIO.
  Context {C W : Type}.
  Variable sem : colsem C W.
  Notation cls := (cls C).
  Notation scheme := (scheme cls).
  Notation mrec := (mrec C W).
  Notation payload := (payload C W).
  Variable registry : list scheme.          (* all_schemes() *)
  Context {K : Type}.
  Variable key_of : sorder -> list str -> rec payload -> res K.
  Variable key_lt : K -> K -> bool.

  (* ---------- writing ---------- *)
  (* MafWriter.from_path / from_fd (assume_sorted=True), `writer += record`
     for each record in turn, close() *)
  Record written := {
    wr_log : log;
    wr_init : res (list verr);           (* header.validation_errors after __init__, or what it raised *)
    wr_adds : list (log * res mrec);     (* each __iadd__: the validated record, or what it raised *)
    wr_entries : list str;               (* the texts handed to handle.write, without their "\n" *)
    wr_scheme : option scheme
  }.

  Definition write_file (h : header) (m : option mode) (rs : list mrec) : written :=
    match writer_init registry h m with
    | (lg, Raise e) =>
        (* header.validate raised: nothing was written yet *)
        {| wr_log := lg; wr_init := Raise e; wr_adds := []; wr_entries := []; wr_scheme := None |}
    | (lg, Ok w) =>
        let '(os, w') := writer_adds sem w rs in
        {| wr_log := lg; wr_init := Ok (herrs (w_header w)); wr_adds := os;
           wr_entries := w_out w'; wr_scheme := w_scheme w' |}
    end.

  Definition wr_text (x : written) : str := file_text (wr_entries x).

  (* the writer accepted everything without a validation error *)
  Definition add_clean (o : log * res mrec) : bool :=
    match snd o with Ok r => match merrs r with [] => true | _ => false end | Raise _ => false end.
  Definition wr_clean (x : written) : bool :=
    match wr_init x with Ok _ => forallb add_clean (wr_adds x) | Raise _ => false end.

  (* ---------- reading ---------- *)
  (* MafReader.reader_from(path, stringency) / MafReader(lines=handle, ...)
     iterated to the end *)
  Definition read_lines (lines : list str) (m : option mode) : run C W :=
    read_run sem registry key_of key_lt lines m None.
  Definition read_text (text : str) (m : option mode) : run C W := read_lines (lines_of text) m.
  Definition read_path (text : str) (m : option mode) : run C W := read_lines (file_lines text) m.

  (* ---------- writing what was read ---------- *)
  (* MafWriter.from_*(..., header=reader.header(), stringency); for r in reader: writer += r *)
  Definition rewrite (rn : run C W) (m : option mode) : option written :=
    match run_init rn with
    | Ok rd => Some (write_file (rd_header rd) m (run_recs rn))
    | Raise _ => None
    end.

  Record round_trip := {
    rt_first : written;
    rt_read : run C W;
    rt_second : option written
  }.

  Definition round_trip_of (h : header) (m : option mode) (rs : list mrec) (translate : bool)
    : round_trip :=
    let w1 := write_file h m rs in
    let rn := if translate then read_path (wr_text w1) m else read_text (wr_text w1) m in
    {| rt_first := w1; rt_read := rn; rt_second := rewrite rn m |}.
End FileIO.

Arguments written : clear implicits.
Arguments round_trip : clear implicits.
