(* OverlapDispatch.v - wire decoding for the "overlap" cluster (C11, C12, C19).
   case :=
     (0 kind otype by_barcodes (contig ...) (input ...) calls)
         kind 0 = LocatableOverlapIterator, 1 = LocatableByAlleleOverlapIterator
         otype 0/1/2 = Equality/Intersects/Subset
         input := (record ...)
         record := (id truthy tumor normal chromosome start end ref (alt ...))   tumor, normal := () | (str)
         reply := (init step ...)   init := (0 (consumed ...)) | (1 exn)
                  step := (outcome (consumed ...)), at most `calls` calls of
                  next(), the run stops after StopIteration (other exceptions
                  do not stop it); outcome := (0 ((id ...) ...)) | (1 exn) | (2)
   | (1 (line ...) k)          MafReader over the lines, k calls of next()
         reply := (init step ...)   init := (0 pulled) | (1 exn pulled)
                  step := (0 line pulled) | (1 exn pulled)
   | (2 sorter (rec ...))      MafWriter.__iadd__ sequence on a scheme-less header
         sorter 0 = none wanted, 1 = wanted, 2 = deciding raises NotImplementedError
         rec := (column_line line valid)
         reply := ((outcome (chunk ...) held) ...)   writes so far after each call
   | (3 cap n)                 Sorter(cap).add n times
         reply := ((outcome in_memory (chunk_size ...)) ...)
   | (4 (case ...))            batch: the list of the replies
   | (5 (line ...) (n ...) k)  Strict MafReader; the records on physical lines n fail to parse;
                               reply as for 1, calls continue after a failure *)
From MafVerif Require Import lib.Base lib.Str model.Overlap model.OverlapStream.

Definition dec_rec (s : sexp) : option orec :=
  match s with
  | L [A i; t; tu; no; ch; A st; A en; rf; al] =>
    match as_bool t, as_opt as_str tu, as_opt as_str no, as_str ch, as_str rf, as_listof as_str al with
    | Some t', Some tu', Some no', Some ch', Some rf', Some al' =>
      Some {| rid := i; rtruthy := t'; rtumor := tu'; rnormal := no'; rchr := ch';
              rstart := st; rend := en; oref := rf'; oalts := al' |}
    | _, _, _, _, _, _ => None
    end
  | _ => None
  end.

Definition dec_otype (z : Z) : otype :=
  if z =? 0 then Equality else if z =? 1 then Intersects else Subset.

Definition enc_ids (l : list orec) : sexp := L (map (fun r => A (rid r)) l).
Definition enc_group (g : list (list orec)) : sexp := L (map enc_ids g).
Definition enc_outcome (o : outcome (list (list orec))) : sexp :=
  match o with
  | Done g => L [A 0; enc_group g]
  | Exc e => L [A 1; s_of_exn e]
  | OutOfFuel => L [A 2]
  end.
Definition enc_consumed (ins : list (input orec)) : sexp :=
  L (map (fun i => s_of_nat (consumed i)) ins).

Definition is_stop (o : outcome (list (list orec))) : bool :=
  match o with Exc StopIteration => true | _ => false end.

Fixpoint drive_plain (c : cfg) (n : nat) (ins : list (input orec)) : list sexp :=
  match n with
  | O => []
  | S n' =>
    let '(ins', o) := o_next_group c ins in
    L [enc_outcome o; enc_consumed ins'] :: (if is_stop o then [] else drive_plain c n' ins')
  end.

Fixpoint drive_allele (c : cfg) (t : otype) (n : nat) (st : astate orec) : list sexp :=
  match n with
  | O => []
  | S n' =>
    let '(st', o) := o_allele_next c t st in
    L [enc_outcome o; enc_consumed (a_ins st')] :: (if is_stop o then [] else drive_allele c t n' st')
  end.

Definition run_overlap (kind ot bb : Z) (ctg : list str) (xss : list (list orec)) (calls : Z) : sexp :=
  let c := {| by_barcodes := negb (bb =? 0); contigs := ctg |} in
  match o_init c xss with
  | Raise e => L [L [A 1; s_of_exn e]]
  | Ok ins =>
    let n := Z.to_nat calls in
    L (L [A 0; enc_consumed ins] ::
       (if kind =? 0 then drive_plain c n ins
        else drive_allele c (dec_otype ot) n {| a_ins := ins; a_items := None; a_others := [] |}))
  end.

(* ---- reader: nothing fails in the stringencies the harness uses ---- *)
Definition rd_init := @reader_init unit unit (fun _ => Ok tt) (fun _ _ => Ok tt).
Definition rd_next := @reader_next unit str (fun _ l _ => Ok l).

Fixpoint drive_reader (k : nat) (r : reader unit) : list sexp :=
  match k with
  | O => []
  | S k' =>
    match rd_next r with
    | (r', Ok l) => L [A 0; s_of_str l; s_of_nat (s_consumed (r_src r'))] :: drive_reader k' r'
    | (r', Raise e) => [L [A 1; s_of_exn e; s_of_nat (s_consumed (r_src r'))]]
    end
  end.

Definition run_reader (lines : list str) (k : Z) : sexp :=
  match rd_init lines with
  | (s, Raise e) => L [L [A 1; s_of_exn e; s_of_nat (s_consumed s)]]
  | (s, Ok r) => L (L [A 0; s_of_nat (s_consumed s)] :: drive_reader (Z.to_nat k) r)
  end.

(* Strict reader: the records on the listed physical lines fail to parse
   (MafFormatException raised by from_line before the next line is pulled);
   calls continue after a failure, the run stops at StopIteration *)
Definition rd_next_strict (bad : list Z) :=
  @reader_next unit str (fun _ l ln => if existsb (Z.eqb ln) bad then Raise (MafFormat 0 None) else Ok l).

Fixpoint drive_reader_strict (bad : list Z) (k : nat) (r : reader unit) : list sexp :=
  match k with
  | O => []
  | S k' =>
    match rd_next_strict bad r with
    | (r', Ok l) => L [A 0; s_of_str l; s_of_nat (s_consumed (r_src r'))] :: drive_reader_strict bad k' r'
    | (r', Raise StopIteration) => [L [A 1; s_of_exn StopIteration; s_of_nat (s_consumed (r_src r'))]]
    | (r', Raise e) => L [A 1; s_of_exn e; s_of_nat (s_consumed (r_src r'))] :: drive_reader_strict bad k' r'
    end
  end.

Definition run_reader_strict (lines : list str) (bad : list Z) (k : Z) : sexp :=
  match rd_init lines with
  | (s, Raise e) => L [L [A 1; s_of_exn e; s_of_nat (s_consumed s)]]
  | (s, Ok r) => L (L [A 0; s_of_nat (s_consumed s)] :: drive_reader_strict bad (Z.to_nat k) r)
  end.

(* ---- writer ---- *)
Record wrec := { wr_cols : str; wr_line : str; wr_valid : bool }.
Definition dec_wrec (s : sexp) : option wrec :=
  match s with
  | L [c; l; v] =>
    match as_str c, as_str l, as_bool v with
    | Some c', Some l', Some v' => Some {| wr_cols := c'; wr_line := l'; wr_valid := v' |}
    | _, _, _ => None
    end
  | _ => None
  end.
Definition wr_iadd (ws : Z) :=
  @writer_iadd wrec wr_cols wr_line
    (fun r => if wr_valid r then Ok tt else Raise (MafFormat 0 None))
    (if ws =? 0 then Ok false else if ws =? 1 then Ok true else Raise NotImplementedError).

Fixpoint drive_writer (ws : Z) (w : writer wrec) (rs : list wrec) : list sexp :=
  match rs with
  | [] => []
  | r :: rest =>
    let '(w', o) := wr_iadd ws w r in
    L [match o with Ok _ => L [] | Raise e => s_of_exn e end;
       s_of_list s_of_str (w_out w');
       s_of_opt (fun h => s_of_nat (length h)) (w_sorter w')] :: drive_writer ws w' rest
  end.

(* ---- sorter add ---- *)
Fixpoint drive_sorter (n : nat) (i : Z) (s : sorter Z) : list sexp :=
  match n with
  | O => []
  | S n' =>
    let '(s', o) := sorter_add (fun x => Ok x) (fun l => l) s i in
    L [match o with Ok _ => L [] | Raise e => s_of_exn e end;
       s_of_nat (length (stash s'));
       s_of_list (fun ch => s_of_nat (length ch)) (chunks s')] :: drive_sorter n' (i + 1) s'
  end.

Definition dispatch1 (s : sexp) : sexp :=
  match s with
  | L [A 0; A kind; A ot; A bb; ctg; xss; A calls] =>
    match as_listof as_str ctg, as_listof (as_listof dec_rec) xss with
    | Some ctg', Some xss' => run_overlap kind ot bb ctg' xss' calls
    | _, _ => s_bad
    end
  | L [A 1; lines; A k] =>
    match as_listof as_str lines with
    | Some ls => run_reader ls k
    | None => s_bad
    end
  | L [A 5; lines; bad; A k] =>
    match as_listof as_str lines, as_listof as_Z bad with
    | Some ls, Some b => run_reader_strict ls b k
    | _, _ => s_bad
    end
  | L [A 2; A ws; rs] =>
    match as_listof dec_wrec rs with
    | Some rs' => L (drive_writer ws {| w_out := []; w_scheme := false; w_sorter := None |} rs')
    | None => s_bad
    end
  | L [A 3; A m; A n] => L (drive_sorter (Z.to_nat n) 0 (sorter_new (Z.to_nat m)))
  | _ => s_bad
  end.

(* (4 (case ...)) : a batch of cases, one reply each *)
Definition dispatch (s : sexp) : sexp :=
  match s with
  | L [A 4; L cs] => L (map dispatch1 cs)
  | _ => dispatch1 s
  end.
