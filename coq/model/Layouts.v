(* Layouts.v - the scheme layouts obtained from the generated definitions
   (a direct model of load_all_scheme_data's type lookup, combine_columns,
   build_scheme_class and build_schemes, specialised to what the column
   properties need: for each annotation the ordered list (name, class)). *)
From Coq Require Import String Ascii.
From MafVerif Require Import lib.Base lib.Str gen.GenClasses gen.GenSchemas model.Classes model.Columns.
Open Scope string_scope.

Record layout := { l_version : string; l_annot : string; l_cols : list (str * cref) }.

(* get_column_types(): classes of column_types' namespace that are subclasses
   of MafColumnRecord *)
Definition is_column_type (tbl : list class_info) (n : string) : bool :=
  match find_class tbl n with
  | Some _ => isinstance tbl (CSrc n) (CSrc "MafColumnRecord")
  | None => false
  end.

Fixpoint conv_cols (tbl : list class_info) (cs : list (string * string)) : res (list (str * cref)) :=
  match cs with
  | [] => Ok []
  | (n, t) :: r =>
      if is_column_type tbl t then
        match conv_cols tbl r with Ok r' => Ok ((s2l n, CSrc t) :: r') | Raise e => Raise e end
      else Raise ValueError
  end.

(* combine_columns(base, extra, filtered) *)
Definition override (cols : list (str * cref)) (x : str * cref) : list (str * cref) :=
  map (fun c => if str_eqb (fst c) (fst x) then (fst c, CMix (snd x) (snd c)) else c) cols.

Definition has_name (cols : list (str * cref)) (n : str) : bool := existsb (fun c => str_eqb (fst c) n) cols.

Definition combine (base extra : list (str * cref)) (filtered : option (list str)) : res (list (str * cref)) :=
  let overridden := fold_left override extra base in
  let fresh := filter (fun x => negb (has_name overridden (fst x))) extra in
  (* dict.update with a list of pairs: a repeated new name keeps its first position, last class *)
  let cols := fold_left (fun acc x => dset (fst x) (snd x) acc) fresh overridden in
  match filtered with
  | None => Ok cols
  | Some fs =>
      if forallb (has_name cols) fs
      then Ok (filter (fun c => negb (existsb (str_eqb (fst c)) fs)) cols)
      else Raise ValueError
  end.

Definition find_layout (ls : list layout) (annot : string) : option layout :=
  find (fun l => String.eqb (l_annot l) annot) ls.

(* one pass of the build loop: the first definition whose base is available *)
Fixpoint pick_buildable (built : list layout) (pending : list raw_def) : option (raw_def * list raw_def) :=
  match pending with
  | [] => None
  | d :: r =>
      let ready := match rd_extends d with
                   | None => true
                   | Some b => if String.eqb b "" then true else is_some (find_layout built b)
                   end in
      if ready then Some (d, r)
      else match pick_buildable built r with
           | Some (x, r') => Some (x, d :: r')
           | None => None
           end
  end.

Fixpoint build_layouts_aux (tbl : list class_info) (fuel : nat) (built : list layout) (pending : list raw_def)
  : res (list layout) :=
  match pending with
  | [] => Ok built
  | _ =>
      match fuel with
      | O => Raise ValueError
      | S f =>
          match pick_buildable built pending with
          | None => Raise ValueError
          | Some (d, rest) =>
              match conv_cols tbl (rd_cols d) with
              | Raise e => Raise e
              | Ok extra =>
                  let base := match rd_extends d with
                              | Some b => if String.eqb b "" then []
                                          else match find_layout built b with Some l => l_cols l | None => [] end
                              | None => [] end in
                  match combine base extra (option_map (map s2l) (rd_filtered d)) with
                  | Raise e => Raise e
                  | Ok cols =>
                      if is_some (find_layout built (rd_annot d)) then Raise ValueError
                      else build_layouts_aux tbl f
                             (built ++ [{| l_version := rd_version d; l_annot := rd_annot d; l_cols := cols |}])%list rest
                  end
              end
          end
      end
  end.

Definition build_layouts (tbl : list class_info) (ds : list raw_def) : res (list layout) :=
  build_layouts_aux tbl (S (length ds)) [] ds.

Definition built_layouts : res (list layout) := build_layouts class_table raw_defs.
