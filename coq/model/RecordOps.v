(* RecordOps.v - model of maflib/record.py: MafRecord container operations
   (__getitem__, __setitem__, __delitem__, add/__iadd__, __iter__, __len__,
   value, __str__ field structure).  Mirrors the statement order of the python
   code: every step is either a check (may raise, returning the state reached
   so far) or a mutation.  The payload type of a column is a parameter. *)
From MafVerif Require Import lib.Base.

Section RecordOps.
  Context {V : Type}.

  Record col := { ckey : str; cidx : option Z; cval : V }.
  Definition with_idx (c : col) (i : option Z) : col :=
    {| ckey := ckey c; cidx := i; cval := cval c |}.

  (* __columns_dict (insertion ordered) and __columns_list *)
  Record rec := { rdict : list (str * col); rlist : list (option col) }.
  Definition empty_rec : rec := {| rdict := []; rlist := [] |}.

  (* the key forms of TKey; KOther stands for a key of any other python type *)
  Inductive key := KInt (i : Z) | KStr (s : str) | KCol (c : col) | KNone | KOther.

  Definition rlen (r : rec) : Z := Z.of_nat (length (rlist r)).

  (* MafRecord.__getitem__ *)
  Definition getitem (r : rec) (k : key) : res (option col) :=
    match k with
    | KInt i =>
        if (i <? 0) || (rlen r <=? i) then Raise KeyError
        else Ok (nth (Z.to_nat i) (rlist r) None)
    | KCol kc =>
        match assoc (ckey kc) (rdict r) with Some c => Ok (Some c) | None => Raise KeyError end
    | KStr s =>
        match assoc s (rdict r) with Some c => Ok (Some c) | None => Raise KeyError end
    | KOther => Raise TypeError
    | KNone => Ok None
    end.

  (* padding done by `self.__columns_list.extend([None] * num_more)` *)
  Definition pad (l : list (option col)) (n : nat) : list (option col) :=
    l ++ repeat None (n - length l).

  (* MafRecord.__setitem__; returns the state reached and the outcome; the
     column object may have had its column_index assigned (python mutates the
     caller's object), which the stored column reflects. *)
  Definition setitem (r : rec) (k : key) (c : col) : rec * res unit :=
    (* first block: derive the name from the key form *)
    let step1 : res col :=
      match k with
      | KInt i =>
          if i <? 0 then Raise KeyError
          else match cidx c with
               | None => Ok (with_idx c (Some i))
               | Some j => if i =? j then Ok c else Raise ValueError
               end
      | KCol kc => if str_eqb (ckey c) (ckey kc) then Ok c else Raise ValueError
      | KStr s => if str_eqb (ckey c) s then Ok c else Raise ValueError
      | KNone | KOther => Raise TypeError
      end in
    match step1 with
    | Raise e => (r, Raise e)
    | Ok c1 =>
      let name := ckey c1 in
      (* second block: reconcile with an existing column of that name *)
      let step2 : res col :=
        match assoc name (rdict r) with
        | Some old =>
            match cidx c1 with
            | None => Ok (with_idx c1 (cidx old))
            | Some j =>
                match cidx old with
                | Some jo => if jo =? j then Ok c1 else Raise ValueError
                | None => Raise ValueError
                end
            end
        | None =>
            match cidx c1 with
            | None => Ok (with_idx c1 (Some (rlen r)))
            | Some _ => Ok c1
            end
        end in
      match step2 with
      | Raise e => (r, Raise e)
      | Ok c2 =>
        match cidx c2 with
        | None => (r, Raise AssertionError)
        | Some i =>
          if i <? 0 then (r, Raise KeyError)
          else
            let n := Z.to_nat i in
            let clash :=
              match nth_error (rlist r) n with
              | Some (Some e) => negb (str_eqb (ckey e) name)
              | _ => false
              end in
            if clash then (r, Raise ValueError)
            else
              let d' := dset name c2 (rdict r) in
              let l' := lset n (Some c2) (pad (rlist r) (S n)) in
              ({| rdict := d'; rlist := l' |}, Ok tt)
        end
      end
    end.

  (* `while self.__columns_list and self.__columns_list[-1] is None: del [-1]`
     (drop the maximal suffix of None), written structurally *)
  Fixpoint trim (l : list (option col)) : list (option col) :=
    match l with
    | [] => []
    | x :: r =>
        match trim r with
        | [] => match x with None => [] | Some _ => [x] end
        | r' => x :: r'
        end
    end.

  (* MafRecord.__delitem__ *)
  Definition delitem (r : rec) (k : key) : rec * res unit :=
    match getitem r k with
    | Raise e => (r, Raise e)
    | Ok None => (r, Raise KeyError)
    | Ok (Some c) =>
      match assoc (ckey c) (rdict r) with
      | None => (r, Raise KeyError)             (* del self.__columns_dict[column.key] *)
      | Some _ =>
        let d' := ddel (ckey c) (rdict r) in
        match cidx c with
        | None => ({| rdict := d'; rlist := rlist r |}, Raise TypeError)
        | Some i =>
          if i =? rlen r - 1 then
            ({| rdict := d'; rlist := trim (removelast (rlist r)) |}, Ok tt)
          else if (i <? - rlen r) || (rlen r <=? i) then
            ({| rdict := d'; rlist := rlist r |}, Raise IndexError)
          else
            (* python negative indexes wrap; not reachable from coherent states *)
            let n := Z.to_nat (if i <? 0 then i + rlen r else i) in
            ({| rdict := d'; rlist := lset n None (rlist r) |}, Ok tt)
        end
      end
    end.

  Inductive op := OSet (k : key) (c : col) | OAdd (c : col) | ODel (k : key).

  (* add / __iadd__ : self.__setitem__(column.key, column) *)
  Definition step (r : rec) (o : op) : rec * res unit :=
    match o with
    | OSet k c => setitem r k c
    | OAdd c => setitem r (KStr (ckey c)) c
    | ODel k => delitem r k
    end.

  Definition run (r : rec) (ops : list op) : rec :=
    fold_left (fun s o => fst (step s o)) ops r.

  (* observations *)
  Definition iter_names (r : rec) : list (option str) := map (option_map ckey) (rlist r).
  Definition field_count (r : rec) : nat := length (rlist r).
End RecordOps.

Arguments col : clear implicits.
Arguments rec : clear implicits.
Arguments key : clear implicits.
Arguments op : clear implicits.
