(* SortOrder.v - model of maflib/sort_order.py (keys, comparison operators,
   sort-order classes) with the accessors of maflib/locatable.py and
   maflib/record.py that reach it.  No proofs here. *)
From MafVerif Require Import lib.Base lib.Str lib.SortOrderLib.

(* ---------- python values that reach a sort key ---------- *)
Inductive pv := PNone | PInt (z : Z) | PStr (s : str).

Definition s_None : str := [78;111;110;101]%N.
(* str(v) *)
Definition py_str (v : pv) : str :=
  match v with PNone => s_None | PInt z => render_int z | PStr s => s end.

(* `a < b` / `a > b` between two values neither of which is None: int with
   int, str with str; anything else is a TypeError in python 3 *)
Definition py_lt (a b : pv) : res bool :=
  match a, b with
  | PInt x, PInt y => Ok (x <? y)
  | PStr x, PStr y => Ok (str_ltb x y)
  | _, _ => Raise TypeError
  end.
Definition py_gt (a b : pv) : res bool :=
  match a, b with
  | PInt x, PInt y => Ok (y <? x)
  | PStr x, PStr y => Ok (str_ltb y x)
  | _, _ => Raise TypeError
  end.

Definition b2z (b : bool) : Z := if b then 1 else 0.

(* SortOrderKey.compare *)
Definition compare (this that : pv) : res Z :=
  match this, that with
  | PNone, PNone => Ok 0
  | PNone, _ => Ok 1
  | _, PNone => Ok (-1)
  | _, _ =>
      bind (py_gt this that) (fun g =>
      bind (py_lt this that) (fun l => Ok (b2z g - b2z l)))
  end.

(* ---------- the things keys are built from ----------
   Plain: maflib.locatable.Locatable(chromosome, start, end): attribute reads
   never fail.  Maf: a MafRecord seen as its name -> value dictionary (the
   columns present); `record["X"].value` raises KeyError when X is absent.
   A MafRecord is a MutableMapping: falsy iff len() == 0, and for a coherent
   record (C15) len() == 0 iff it has no column. *)
Inductive locatable := Plain (c s e : pv) | Maf (cols : list (str * pv)).

Definition n_Chromosome : str := [67;104;114;111;109;111;115;111;109;101]%N.
Definition n_Start : str := [83;116;97;114;116;95;80;111;115;105;116;105;111;110]%N.
Definition n_End : str := [69;110;100;95;80;111;115;105;116;105;111;110]%N.
Definition n_Tumor : str :=
  [84;117;109;111;114;95;83;97;109;112;108;101;95;66;97;114;99;111;100;101]%N.
Definition n_Normal : str :=
  [77;97;116;99;104;101;100;95;78;111;114;109;95;83;97;109;112;108;101;95;66;97;114;99;111;100;101]%N.

(* self[name].value *)
Definition maf_item_value (cols : list (str * pv)) (name : str) : res pv :=
  match assoc name cols with Some v => Ok v | None => Raise KeyError end.

Definition l_chromosome (l : locatable) : res pv :=
  match l with Plain c _ _ => Ok c | Maf cols => maf_item_value cols n_Chromosome end.
Definition l_start (l : locatable) : res pv :=
  match l with Plain _ s _ => Ok s | Maf cols => maf_item_value cols n_Start end.
Definition l_end (l : locatable) : res pv :=
  match l with Plain _ _ e => Ok e | Maf cols => maf_item_value cols n_End end.

(* MafRecord.value(key): KeyError -> None.  A plain Locatable has no such
   method: python raises AttributeError, reported here as PlainException. *)
Definition l_value (l : locatable) (name : str) : res pv :=
  match l with
  | Plain _ _ _ => Raise PlainException
  | Maf cols =>
      match maf_item_value cols name with
      | Raise KeyError => Ok PNone
      | r => r
      end
  end.

Definition l_truthy (l : locatable) : bool :=
  match l with
  | Plain _ _ _ => true
  | Maf cols => match cols with [] => false | _ :: _ => true end
  end.

(* ---------- keys ---------- *)
Record ckey := { k_chrom : pv; k_start : pv; k_end : pv }.
(* _CoordinateKey | _BarcodesAndCoordinateKey *)
Inductive skey := KCoord (k : ckey) | KBar (t n : pv) (k : ckey).
Definition skey_coord (k : skey) : ckey := match k with KCoord c => c | KBar _ _ c => c end.

(* _CoordinateKey.__component: getattr, KeyError -> None *)
Definition component (r : res pv) : res pv :=
  match r with Raise KeyError => Ok PNone | x => x end.

(* _CoordinateKey.__position: None -> None; int(value), failure -> None *)
Definition position (v : pv) : pv :=
  match v with
  | PNone => PNone
  | PInt z => PInt z
  | PStr s => match py_int s with Some z => PInt z | None => PNone end
  end.

(* _CoordinateKey.__init__ *)
Definition coord_key (record : locatable) (contigs : list pv) : res ckey :=
  bind (component (l_chromosome record)) (fun c0 =>
  let c1 := match c0 with PNone => PNone | v => PStr (py_str v) end in
  bind (match contigs, c1 with
        | _ :: _, PStr name =>
            match index_of name (map py_str contigs) with
            | Some i => Ok (PInt i)
            | None => Raise ValueError
            end
        | _, _ => Ok c1
        end) (fun c2 =>
  bind (component (l_start record)) (fun s =>
  bind (component (l_end record)) (fun e =>
  Ok {| k_chrom := c2; k_start := position s; k_end := position e |})))).

(* _BarcodesAndCoordinateKey.__init__ *)
Definition bar_key (record : locatable) (contigs : list pv) : res skey :=
  bind (l_value record n_Tumor) (fun t =>
  bind (l_value record n_Normal) (fun n =>
  bind (coord_key record contigs) (fun k => Ok (KBar t n k)))).

(* _CoordinateKey.__cmp__ *)
Definition coord_cmp (a b : ckey) : res Z :=
  bind (compare (k_chrom a) (k_chrom b)) (fun d =>
  bind (if d =? 0 then compare (k_start a) (k_start b) else Ok d) (fun d =>
  if d =? 0 then compare (k_end a) (k_end b) else Ok d)).

(* self.__cmp__(other), dispatched on the class of self.  A barcode key
   compared with a plain coordinate key reads other.tumor_barcode:
   AttributeError (PlainException); one sort order never mixes the two. *)
Definition key_cmp (a b : skey) : res Z :=
  match a with
  | KCoord x => coord_cmp x (skey_coord b)
  | KBar t n x =>
      match b with
      | KCoord _ => Raise PlainException
      | KBar t' n' y =>
          bind (compare t t') (fun d =>
          bind (if d =? 0 then compare n n' else Ok d) (fun d =>
          if d =? 0 then coord_cmp x y else Ok d))
      end
  end.

(* SortOrderKey.__lt__ / __eq__ *)
Definition key_lt (a b : skey) : res bool := bind (key_cmp a b) (fun d => Ok (d <? 0)).
Definition key_eq (a b : skey) : res bool := bind (key_cmp a b) (fun d => Ok (d =? 0)).
(* object.__ne__: inverts __eq__ *)
Definition key_ne (a b : skey) : res bool := bind (key_eq a b) (fun r => Ok (negb r)).
(* functools.total_ordering, root __lt__:
   _gt_from_lt: not op_result and self != other
   _le_from_lt: op_result or self == other
   _ge_from_lt: not op_result *)
Definition key_gt (a b : skey) : res bool :=
  bind (key_lt a b) (fun r => if negb r then key_ne a b else Ok false).
Definition key_le (a b : skey) : res bool :=
  bind (key_lt a b) (fun r => if r then Ok true else key_eq a b).
Definition key_ge (a b : skey) : res bool := bind (key_lt a b) (fun r => Ok (negb r)).

(* _CoordinateKey.__str__ / _BarcodesAndCoordinateKey.__str__: "\t".join of
   str(component); the barcode key joins the barcodes themselves, which is a
   TypeError unless both are str *)
Definition ckey_str (k : ckey) : str :=
  join [TAB] [py_str (k_chrom k); py_str (k_start k); py_str (k_end k)].
Definition key_str (k : skey) : res str :=
  match k with
  | KCoord c => Ok (ckey_str c)
  | KBar (PStr t) (PStr n) c => Ok (join [TAB] [t; n; ckey_str c])
  | KBar _ _ _ => Raise TypeError
  end.

(* ---------- sort orders ---------- *)
Inductive so_class := CUnknown | CUnsorted | CBarcodesAndCoordinate | CCoordinate.

(* SortOrder.all() *)
Definition so_all : list so_class := [CUnknown; CUnsorted; CBarcodesAndCoordinate; CCoordinate].

Definition so_name (c : so_class) : str :=
  match c with
  | CUnknown => [85;110;107;110;111;119;110]%N
  | CUnsorted => [85;110;115;111;114;116;101;100]%N
  | CBarcodesAndCoordinate =>
      [66;97;114;99;111;100;101;115;65;110;100;67;111;111;114;100;105;110;97;116;101]%N
  | CCoordinate => [67;111;111;114;100;105;110;97;116;101]%N
  end.

(* issubclass(cls, Coordinate) *)
Definition is_coordinate (c : so_class) : bool :=
  match c with CCoordinate | CBarcodesAndCoordinate => true | _ => false end.

(* an instance: the class and, for Coordinate and its subclass, self._contigs *)
Record sort_order := { so_cls : so_class; so_contigs : list pv }.

(* cls() and, for Coordinate subclasses, cls(contigs=...): `elif contigs:
   _contigs = contigs` (fasta_index is not modelled) *)
Definition so_make (c : so_class) (contigs : option (list pv)) : sort_order :=
  {| so_cls := c;
     so_contigs := if is_coordinate c then match contigs with Some l => l | None => [] end else [] |}.

(* cls(contigs=...) as MafSorter calls it: SortOrder.__init__ takes no keyword *)
Definition so_make_kw (c : so_class) (contigs : option (list pv)) : res sort_order :=
  if is_coordinate c then Ok (so_make c contigs) else Raise TypeError.

(* SortOrder.find *)
Definition so_find (name : str) : res so_class :=
  match find (fun c => str_eqb (so_name c) name) so_all with
  | Some c => Ok c
  | None => Raise ValueError
  end.

(* the closure returned by sort_key(): which key class, which contig list *)
Record keyfn := { kf_bar : bool; kf_contigs : list pv }.

Definition sort_key (so : sort_order) : res keyfn :=
  match so_cls so with
  | CUnknown | CUnsorted => Raise NotImplementedError
  | CCoordinate => Ok {| kf_bar := false; kf_contigs := so_contigs so |}
  | CBarcodesAndCoordinate => Ok {| kf_bar := true; kf_contigs := so_contigs so |}
  end.

(* key(record) *)
Definition build_key (kf : keyfn) (record : locatable) : res skey :=
  if kf_bar kf then bar_key record (kf_contigs kf)
  else bind (coord_key record (kf_contigs kf)) (fun k => Ok (KCoord k)).
