(* ColumnsDispatch.v - wire decoding for the "columns" cluster (C01, C04, C05, C06, C02).
   cref   := (0 name) | (1 extra base)
   pyval  := (0) | (1 b) | (2 z) | (3 repr) | (4 str) | (5 enum idx) | (6 canon) | (7 (v..)) | (8 (v..)) | (9)
   tables := ((text (repr)?) ...)  float oracle, uuid oracle
   case   := (1 cref text ftab utab)            one field through cls.build / validate / str
           | (2 annot line mode (lineno)? ftab utab)   MafRecord.from_line under a built layout
           | (3 cref pyval)                      an API-built column: validate / str
           | (4)                                 the built layouts (names and class MROs)
           | (6 annot (slot ...) mode)           MafWriter.__iadd__ on an API-built record: validate against the
                                                 layout, then str(record); slot := () | (name (idx)? cref pyval) *)
From Coq Require Import String Ascii.
From MafVerif Require Import lib.Base lib.Str gen.GenClasses model.Classes model.Columns model.Layouts
     model.RecordOps model.ColRecord.
Open Scope string_scope.

Definition l2s (s : str) : string :=
  string_of_list_ascii (map (fun c => ascii_of_N c) s).

Fixpoint dec_cref (fuel : nat) (s : sexp) : option cref :=
  match fuel with
  | O => None
  | S f =>
      match s with
      | L [A 0; n] => option_map (fun x => CSrc (l2s x)) (as_str n)
      | L [A 1; e; b] => match dec_cref f e, dec_cref f b with
                         | Some e', Some b' => Some (CMix e' b') | _, _ => None end
      | _ => None
      end
  end.

Fixpoint enc_cref (c : cref) : sexp :=
  match c with CSrc n => L [A 0; s_of_str (s2l n)] | CMix e b => L [A 1; enc_cref e; enc_cref b] end.

Fixpoint dec_val (fuel : nat) (s : sexp) : option pyval :=
  match fuel with
  | O => None
  | S f =>
      match s with
      | L [A 0] => Some VNone
      | L [A 1; b] => option_map VBool (as_bool b)
      | L [A 2; A z] => Some (VInt z)
      | L [A 3; r] => option_map VFloat (as_str r)
      | L [A 4; t] => option_map VStr (as_str t)
      | L [A 5; e; A i] => option_map (fun x => VEnum (l2s x) (Z.to_nat i)) (as_str e)
      | L [A 6; c] => option_map VUuid (as_str c)
      | L [A 7; L vs] => option_map VList (opt_all (map (dec_val f) vs))
      | L [A 8; L vs] => option_map VTuple (opt_all (map (dec_val f) vs))
      | L [A 9] => Some VOther
      | _ => None
      end
  end.

Fixpoint enc_val (v : pyval) : sexp :=
  match v with
  | VNone => L [A 0] | VBool b => L [A 1; s_of_bool b] | VInt z => L [A 2; A z]
  | VFloat r => L [A 3; s_of_str r] | VStr t => L [A 4; s_of_str t]
  | VEnum e i => L [A 5; s_of_str (s2l e); s_of_nat i] | VUuid c => L [A 6; s_of_str c]
  | VList l => L [A 7; L (map enc_val l)] | VTuple l => L [A 8; L (map enc_val l)]
  | VOther => L [A 9]
  end.

Definition dec_table (s : sexp) : option (list (str * option str)) :=
  as_listof (fun e => match e with
                      | L [t; r] => match as_str t, as_opt as_str r with
                                    | Some t', Some r' => Some (t', r') | _, _ => None end
                      | _ => None end) s.

Definition mk_oracles (ft ut : list (str * option str)) : oracles :=
  {| fval := fun t => match assoc t ft with Some r => r | None => None end;
     uval := fun t => match assoc t ut with Some r => r | None => None end |}.

Definition enc_res {X} (f : X -> sexp) (r : res X) : sexp :=
  match r with Ok x => L [A 0; f x] | Raise e => L [A 1; s_of_exn e] end.

Definition enc_err (e : verr) : sexp :=
  L [s_of_str (s2l (etpe e)); s_of_opt A (eline e); s_of_opt s_of_str (ecol e)].

Definition dec_mode (s : sexp) : option mode :=
  match s with A 1 => Some Strict | A 2 => Some Lenient | A 3 => Some Silent | _ => None end.

Definition field_case (c : cref) (t : str) (O : oracles) : sexp :=
  let r := resolve_or_plain class_table c in
  match cls_build O r t with
  | Raise e => L [A 1; s_of_exn e]
  | Ok v =>
      let col := {| ckey := [107%N]; cidx := None; cval := {| v_cls := built_class r; v_val := v |} |} in
      let rb := resolve_or_plain class_table (built_class r) in
      L [A 0; enc_val v;
         s_of_list enc_err (col_validate class_table None None col);
         enc_res s_of_str (col_str rb v);
         s_of_bool (col_is_null rb v)]
  end.

Definition api_case (c : cref) (v : pyval) : sexp :=
  let r := resolve_or_plain class_table c in
  let col := {| ckey := [107%N]; cidx := None; cval := {| v_cls := c; v_val := v |} |} in
  L [s_of_list enc_err (col_validate class_table None None col);
     enc_res s_of_str (col_str r v);
     s_of_bool (col_is_null r v)].

Definition enc_slot (o : option ccol) : sexp :=
  s_of_opt (fun c => L [s_of_str (ckey c); s_of_opt A (cidx c); enc_val (v_val (cval c))]) o.

Definition line_case (annot : string) (line : str) (m : mode) (ln : option Z) (O : oracles) : sexp :=
  match built_layouts with
  | Raise e => L [A 2; s_of_exn e]
  | Ok ls =>
      match find_layout ls annot with
      | None => L [A 3]
      | Some l =>
          match from_line class_table O m None (Some (l_cols l)) ln line with
          | Raise e => L [A 1; s_of_exn e]
          | Ok (r, errs) =>
              L [A 0; s_of_list enc_err errs; s_of_nat (length (rlist r));
                 s_of_list enc_slot (rlist r);
                 enc_res s_of_str (rec_str class_table r)]
          end
      end
  end.

Definition layouts_case : sexp :=
  match built_layouts with
  | Raise e => L [A 1; s_of_exn e]
  | Ok ls =>
      L [A 0; s_of_list (fun l =>
           L [s_of_str (s2l (l_version l)); s_of_str (s2l (l_annot l));
              s_of_list (fun c => L [s_of_str (fst c);
                                     match mro class_table mro_fuel (snd c) with
                                     | Some m => s_of_list (fun x => match x with
                                                                     | CSrc n => s_of_str (s2l n)
                                                                     | CMix _ _ => L [] end) m
                                     | None => A (-1)
                                     end]) (l_cols l)]) ls]
  end.

Definition dec_slot (s : sexp) : option (option ccol) :=
  match s with
  | L [] => Some None
  | L [n; i; c; v] =>
      match as_str n, as_opt as_Z i, dec_cref 8 c, dec_val 6 v with
      | Some n', Some i', Some c', Some v' =>
          Some (Some {| ckey := n'; cidx := i'; cval := {| v_cls := c'; v_val := v' |} |})
      | _, _, _, _ => None
      end
  | _ => None
  end.

(* the record as the API left it: slots in order, name map = occupied slots in order *)
Definition rec_of_slots (sl : list (option ccol)) : crec :=
  {| rdict := flat_map (fun o => match o with Some c => [(ckey c, c)] | None => [] end) sl; rlist := sl |}.

Definition write_case (annot : string) (sl : list (option ccol)) (m : mode) : sexp :=
  match built_layouts with
  | Raise e => L [A 2; s_of_exn e]
  | Ok ls =>
      match find_layout ls annot with
      | None => L [A 3]
      | Some l =>
          let r := rec_of_slots sl in
          match rec_validate class_table m (Some (l_cols l)) None [] r with
          | Raise e => L [A 1; s_of_exn e]
          | Ok errs => L [A 0; s_of_list enc_err errs; enc_res s_of_str (rec_str class_table r)]
          end
      end
  end.

Definition dispatch (s : sexp) : sexp :=
  match s with
  | L [A 1; c; t; ft; ut] =>
      match dec_cref 8 c, as_str t, dec_table ft, dec_table ut with
      | Some c', Some t', Some ft', Some ut' => field_case c' t' (mk_oracles ft' ut')
      | _, _, _, _ => s_bad
      end
  | L [A 2; an; line; m; ln; ft; ut] =>
      match as_str an, as_str line, dec_mode m, as_opt as_Z ln, dec_table ft, dec_table ut with
      | Some an', Some line', Some m', Some ln', Some ft', Some ut' =>
          line_case (l2s an') line' m' ln' (mk_oracles ft' ut')
      | _, _, _, _, _, _ => s_bad
      end
  | L [A 3; c; v] =>
      match dec_cref 8 c, dec_val 6 v with
      | Some c', Some v' => api_case c' v'
      | _, _ => s_bad
      end
  | L [A 4] => layouts_case
  | L [A 6; an; sl; m] =>
      match as_str an, as_listof dec_slot sl, dec_mode m with
      | Some an', Some sl', Some m' => write_case (l2s an') sl' m'
      | _, _, _ => s_bad
      end
  | _ => s_bad
  end.
