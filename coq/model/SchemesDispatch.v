(* SchemesDispatch.v - wire decoding for the "schemes" cluster (C14, C20) and
   the C3 linearisation that instantiates [mixok] in the extracted runner.

   request := (0 world (run ...))       C14: one definition set, several load orders
            | (1 world universe (op ...))   C20: a history on a fresh registry
   world   := (types ctable fs builtins)
     types    := (str ...)                    names of get_column_types()
     ctable   := ((str (str ...)) ...)        class name -> names of its direct bases
     fs       := ((str file) ...)             file name -> content; unlisted names do not exist
     builtins := (str ...)                    get_built_in_filenames()
   file    := (0) | (1) | (2 early jfile) | (3 jfile)    open error / bad json / missing key / ok
   jfile   := (version annot jopt-str ((str ...) ...) jopt-strs)
   jopt    := (0) | (1) | (2 x)               "None" / null / value
   run     := (0 (str ...))   load_all_scheme_data + build_schemes + validate_schemes(values)
            | (1 (str ...))   load_all_schemes(extra_filenames=...)
   op      := (0 (str ...)) | (1 ov oa) | (2 ov oa) | (3 ov oa)
              all_schemes / find_scheme_class / find_scheme / header validate;  ov, oa := () | (str)
   universe:= ((ov oa) ...)   pairs looked up with find_scheme after every op

   reply C14 := (result ...)   result := (0 exn) | (1 (scheme ...))
   reply C20 := ((layout ...) ((outcome (look ...)) ...))    layouts are interned
   scheme  := (0) | (1 version annot layout)  in C14;  (1 version annot index) in C20
   layout  := ((name cls desc) ...)      cls := (0 name) | (1 extra base) *)
From MafVerif Require Import lib.Base lib.Str model.SchemeFactory model.Registry.

(* ---------- C3 ---------- *)
Definition ctable := list (str * list str).

Definition in_tail (h : cls) (s : list cls) : bool :=
  match s with [] => false | _ :: t => existsb (cls_eqb h) t end.
Definition drop_head (h : cls) (s : list cls) : list cls :=
  match s with x :: t => if cls_eqb h x then t else s | [] => [] end.
Definition nonempty {X} (l : list X) : bool := match l with [] => false | _ => true end.

Fixpoint merge (fuel : nat) (seqs : list (list cls)) : option (list cls) :=
  let seqs := filter nonempty seqs in
  match seqs with
  | [] => Some []
  | _ :: _ =>
      match fuel with
      | O => None
      | S f =>
          let heads := flat_map (fun s => match s with x :: _ => [x] | [] => [] end) seqs in
          match find (fun h => negb (existsb (in_tail h) seqs)) heads with
          | None => None                     (* inconsistent hierarchy *)
          | Some h => option_map (cons h) (merge f (map (drop_head h) seqs))
          end
      end
  end.

Definition merge_all (seqs : list (list cls)) : option (list cls) :=
  merge (S (length (concat seqs))) seqs.

Fixpoint mro_src (t : ctable) (fuel : nat) (n : str) : option (list cls) :=
  match fuel with
  | O => None
  | S f =>
      match assoc n t with
      | None => None
      | Some bases =>
          match opt_all (map (mro_src t f) bases) with
          | None => None
          | Some ms => option_map (cons (CSrc n)) (merge_all (ms ++ [map CSrc bases]))
          end
      end
  end.

Fixpoint mro (t : ctable) (c : cls) : option (list cls) :=
  match c with
  | CSrc n => mro_src t (S (length t)) n
  | CMix e b =>
      if cls_eqb e b then None               (* duplicate base class *)
      else match mro t e, mro t b with
           | Some me, Some mb => option_map (cons c) (merge_all [me; mb; [e; b]])
           | _, _ => None
           end
  end.

Definition c3_mixok (t : ctable) (extra base : cls) : bool := is_some (mro t (CMix extra base)).

(* ---------- decoding ---------- *)
Definition dec_jopt {X} (f : sexp -> option X) (s : sexp) : option (jopt X) :=
  match s with
  | L [A 0] => Some JNoneStr
  | L [A 1] => Some JNull
  | L [A 2; x] => option_map JVal (f x)
  | _ => None
  end.

Definition dec_jfile (s : sexp) : option jfile :=
  match s with
  | L [v; a; e; c; f] =>
      match as_str v, as_str a, dec_jopt as_str e, as_listof (as_listof as_str) c,
            dec_jopt (as_listof as_str) f with
      | Some v', Some a', Some e', Some c', Some f' =>
          Some {| jversion := v'; jannot := a'; jextends := e'; jcolumns := c'; jfiltered := f' |}
      | _, _, _, _, _ => None
      end
  | _ => None
  end.

Definition dec_file (s : sexp) : option fileres :=
  match s with
  | L [A 0] => Some FOpenError
  | L [A 1] => Some FBadJson
  | L [A 2; early; j] =>
      match as_bool early, dec_jfile j with
      | Some b, Some j' => Some (FMissingKey b j')
      | _, _ => None
      end
  | L [A 3; j] => option_map FJson (dec_jfile j)
  | _ => None
  end.

Definition dec_pair {X Y} (f : sexp -> option X) (g : sexp -> option Y) (s : sexp) : option (X * Y) :=
  match s with
  | L [a; b] => match f a, g b with Some x, Some y => Some (x, y) | _, _ => None end
  | _ => None
  end.

Record world := { w_types : list str; w_ctable : ctable; w_fs : list (str * fileres); w_builtins : list str }.

Definition dec_world (s : sexp) : option world :=
  match s with
  | L [t; c; f; b] =>
      match as_listof as_str t, as_listof (dec_pair as_str (as_listof as_str)) c,
            as_listof (dec_pair as_str dec_file) f, as_listof as_str b with
      | Some t', Some c', Some f', Some b' =>
          Some {| w_types := t'; w_ctable := c'; w_fs := f'; w_builtins := b' |}
      | _, _, _, _ => None
      end
  | _ => None
  end.

Definition fs_of (w : world) (n : str) : fileres :=
  match assoc n (w_fs w) with Some f => f | None => FOpenError end.

Definition dec_ostr := as_opt as_str.

(* ---------- encoding ---------- *)
Fixpoint enc_cls (c : cls) : sexp :=
  match c with
  | CSrc n => L [A 0; s_of_str n]
  | CMix e b => L [A 1; enc_cls e; enc_cls b]
  end.
Definition enc_layout (d : col_dict) : sexp :=
  s_of_list (fun kv => L [s_of_str (fst kv); enc_cls (ccls (snd kv)); s_of_str (cdesc (snd kv))]) d.
Definition enc_bscheme (b : bscheme) : sexp :=
  L [A 1; s_of_str (bversion b); s_of_str (bannot b); enc_layout (bcols b)].
Definition enc_scheme (s : scheme) : sexp :=
  match s with NoRestrictions => L [A 0] | Built b => enc_bscheme b end.
Definition enc_res {X} (f : X -> sexp) (r : res X) : sexp :=
  match r with Ok x => L [A 1; f x] | Raise e => L [A 0; s_of_exn e] end.

(* ---------- C14 ---------- *)
Definition run14 (w : world) (s : sexp) : sexp :=
  let mixok := c3_mixok (w_ctable w) in
  match s with
  | L [A 0; o] =>
      match as_listof as_str o with
      | Some order =>
          enc_res (s_of_list (fun kv => L [s_of_str (fst kv); enc_bscheme (snd kv)]))
            (bind (load_all_scheme_data (fs_of w) (w_types w) order) (fun data =>
             bind (build_schemes mixok data) (fun m =>
             bind (validate_schemes (map (fun kv => Built (snd kv)) m)) (fun _ => Ok m))))
      | None => s_bad
      end
  | L [A 1; o] =>
      match as_listof as_str o with
      | Some extra =>
          enc_res (s_of_list enc_scheme)
            (load_all_schemes mixok (w_types w) (fs_of w) (w_builtins w) extra)
      | None => s_bad
      end
  | _ => s_bad
  end.

(* ---------- C20 ---------- *)
Definition col_eqb (a b : str * column) : bool :=
  str_eqb (fst a) (fst b) && str_eqb (cname (snd a)) (cname (snd b))
  && cls_eqb (ccls (snd a)) (ccls (snd b)) && str_eqb (cdesc (snd a)) (cdesc (snd b)).
Fixpoint layout_eqb (a b : col_dict) : bool :=
  match a, b with
  | [], [] => true
  | x :: a', y :: b' => col_eqb x y && layout_eqb a' b'
  | _, _ => false
  end.

(* index of the layout in the table, appended when new *)
Fixpoint lookup_layout (n : nat) (tbl : list col_dict) (d : col_dict) : option nat :=
  match tbl with
  | [] => None
  | x :: r => if layout_eqb x d then Some n else lookup_layout (S n) r d
  end.
Definition intern (tbl : list col_dict) (d : col_dict) : nat * list col_dict :=
  match lookup_layout 0 tbl d with
  | Some n => (n, tbl)
  | None => (length tbl, tbl ++ [d])
  end.

Definition enc_bscheme_i (tbl : list col_dict) (b : bscheme) : sexp * list col_dict :=
  let '(n, tbl') := intern tbl (bcols b) in
  (L [A 1; s_of_str (bversion b); s_of_str (bannot b); s_of_nat n], tbl').
Definition enc_scheme_i (tbl : list col_dict) (s : scheme) : sexp * list col_dict :=
  match s with NoRestrictions => (L [A 0], tbl) | Built b => enc_bscheme_i tbl b end.
Fixpoint enc_schemes_i (tbl : list col_dict) (l : list scheme) : list sexp * list col_dict :=
  match l with
  | [] => ([], tbl)
  | s :: r => let '(x, t1) := enc_scheme_i tbl s in
              let '(xs, t2) := enc_schemes_i t1 r in (x :: xs, t2)
  end.
Definition enc_res_i {X} (f : list col_dict -> X -> sexp * list col_dict)
           (tbl : list col_dict) (r : res X) : sexp * list col_dict :=
  match r with
  | Ok x => let '(sx, t) := f tbl x in (L [A 1; sx], t)
  | Raise e => (L [A 0; s_of_exn e], tbl)
  end.
Definition enc_herr (e : herr) : sexp :=
  A (match e with
     | HEADER_MISSING_VERSION => 0 | HEADER_UNSUPPORTED_VERSION => 1
     | HEADER_MISSING_ANNOTATION_SPEC => 2 | HEADER_UNSUPPORTED_ANNOTATION_SPEC => 3
     end).

Definition enc_outcome (tbl : list col_dict) (o : outcome) : sexp * list col_dict :=
  match o with
  | RSchemes r => enc_res_i (fun t l => let '(xs, t') := enc_schemes_i t l in (L xs, t')) tbl r
  | RClass r =>
      enc_res_i (fun t o => match o with
                            | None => (L [], t)
                            | Some s => let '(x, t') := enc_scheme_i t s in (L [x], t')
                            end) tbl r
  | RScheme r =>
      enc_res_i (fun t o => match o with
                            | None => (L [], t)
                            | Some b => let '(x, t') := enc_bscheme_i t b in (L [x], t')
                            end) tbl r
  | RErrors r => enc_res_i (fun t l => (s_of_list enc_herr l, t)) tbl r
  end.

Definition dec_op (s : sexp) : option op :=
  match s with
  | L [A 0; f] => option_map ORegister (as_listof as_str f)
  | L [A 1; v; a] => match dec_ostr v, dec_ostr a with Some v', Some a' => Some (OFindClass v' a') | _, _ => None end
  | L [A 2; v; a] => match dec_ostr v, dec_ostr a with Some v', Some a' => Some (OFind v' a') | _, _ => None end
  | L [A 3; v; a] => match dec_ostr v, dec_ostr a with
                     | Some v', Some a' => Some (OValidate {| hversion := v'; hannot := a' |})
                     | _, _ => None
                     end
  | _ => None
  end.

Section Run20.
  Variable w : world.
  Let mixok := c3_mixok (w_ctable w).
  Let stp := step mixok (w_types w) (fs_of w) (w_builtins w).

  (* find_scheme for every pair of the universe, threading the registry *)
  Fixpoint looks (st : registry) (tbl : list col_dict) (u : list (option str * option str))
    : list sexp * registry * list col_dict :=
    match u with
    | [] => ([], st, tbl)
    | (v, a) :: r =>
        let '(o, st1) := stp st (OFind v a) in
        let '(x, t1) := enc_outcome tbl o in
        let '(xs, st2, t2) := looks st1 t1 r in
        (x :: xs, st2, t2)
    end.

  Fixpoint run20 (st : registry) (tbl : list col_dict) (u : list (option str * option str))
           (ops : list op) : list sexp * list col_dict :=
    match ops with
    | [] => ([], tbl)
    | o :: r =>
        let '(out, st1) := stp st o in
        let '(x, t1) := enc_outcome tbl out in
        let '(ls, st2, t2) := looks st1 t1 u in
        let '(xs, t3) := run20 st2 t2 u r in
        (L [x; L ls] :: xs, t3)
    end.
End Run20.

Definition dispatch (s : sexp) : sexp :=
  match s with
  | L [A 0; w; L runs] =>
      match dec_world w with
      | Some w' => L (map (run14 w') runs)
      | None => s_bad
      end
  | L [A 1; w; u; ops] =>
      match dec_world w, as_listof (dec_pair dec_ostr dec_ostr) u, as_listof dec_op ops with
      | Some w', Some u', Some ops' =>
          let '(xs, tbl) := run20 w' init_registry [] u' ops' in
          L [s_of_list enc_layout tbl; L xs]
      | _, _, _ => s_bad
      end
  | _ => s_bad
  end.
