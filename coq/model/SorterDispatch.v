(* SorterDispatch.v - wire decoding for the "sorter" cluster (C07, C18).
   item  := (key id bad)      bad: 0 fine / 1 key_func raises ValueError on the
                              caller's object / 2 decode raises ValueError /
                              3 key_func raises TypeError on the decoded copy
   case  := (0 cap always (op ...))                 data view (Sorter.v), C07
            op := (0 key id bad) add | (1) list(sorter)
            reply: one per op: add -> (exn?) ; iter -> ((item ...) exn?)
          | (1 cap always stop fault (op ...))      I/O world (SorterWorld.v), C18
            op := (0 key id bad) | (1 pulls) | (1 pulls keep) | (2) close ; fault := () | (n enoent)
            reply: ((obs ...) (close-outcome ...) (files fds whandles rhandles) (call ...) hit?)
            (the counts are taken right after the closes, while the caller still holds the generators it kept)
            obs := (outcome (item ...) files open)
          | (2 cap fault (item ...))                MafWriter with a sorter, C18
            reply: ((add-outcome ...) (close-outcome ...) (item ...) closed (files fds wh rh) (call ...) hit?)
          | (3 cap always stop enoent (op ...))     the world case with a fault injected at every
            call of the fault-free run in turn; reply: (fault-free-reply (reply-0 reply-1 ...))
          | (4 cap enoent (item ...))               same for the writer
            (in forms 1-4 "enoent" is the flavour of the fault: 0 EIO, 1 ENOENT, 2 EOF = a failing
             read raises EOFError instead of OSError)
          | (5 case ...)                            several independent sessions, replies in a list
   item out := (key id gen)   gen = 1 for a decoded copy
   outcome  := () ok | (code ...) exception | (-1) unmodelled (tainted sorter)
   The host's sorted()/heapq are instantiated with "left-most minimal". *)
From MafVerif Require Import lib.Base model.Sorter model.SorterWorld.

Record item := mkItem { ikey : Z; iid : Z; ibad : Z; igen : bool }.
Definition wire := (Z * Z * Z)%type.

Definition item_key (x : item) : res Z :=
  if ibad x =? 1 then Raise ValueError
  else if (ibad x =? 3) && igen x then Raise TypeError
  else Ok (ikey x).
Definition item_enc (x : item) : wire := (ikey x, iid x, ibad x).
Definition item_dec (d : wire) : res item :=
  let '(k, i, b) := d in
  if b =? 2 then Raise ValueError else Ok {| ikey := k; iid := i; ibad := b; igen := true |}.

Definition dec_item (s : sexp) : option item :=
  match s with
  | L [A k; A i; A b] => Some {| ikey := k; iid := i; ibad := b; igen := false |}
  | _ => None
  end.
Definition enc_item (x : item) : sexp := L [A (ikey x); A (iid x); s_of_bool (igen x)].

Definition enc_outcome (o : outcome) : sexp :=
  match o with OOk => L [] | ORaise e => s_of_exn e | OUnmodelled => L [A (-1)] end.
Definition enc_exn_opt (e : option exn) : sexp := s_of_opt s_of_exn e.

(* ---------- data view ---------- *)
Inductive pop := PAdd (x : item) | PIter.
Definition dec_pop (s : sexp) : option pop :=
  match s with
  | L [A 0; A k; A i; A b] => Some (PAdd {| ikey := k; iid := i; ibad := b; igen := false |})
  | L [A 1] => Some PIter
  | _ => None
  end.

Definition psorter := sorter Z wire.
Definition p_add := add item Z wire item_key Z.ltb item_enc leftmost_min.
Definition p_iter := iter item Z wire item_key Z.ltb item_dec leftmost_min.

Fixpoint run_pure (s : psorter) (ops : list pop) : list sexp :=
  match ops with
  | [] => []
  | PAdd x :: r =>
      match p_add s x with
      | Ok s' => L [enc_exn_opt None] :: run_pure s' r
      | Raise e => L [enc_exn_opt (Some e)] :: run_pure s r
      end
  | PIter :: r =>
      let '((ys, e), s') := p_iter s in
      L [s_of_list enc_item ys; enc_exn_opt e] :: run_pure s' r
  end.

(* ---------- I/O world ---------- *)
Definition wop := op item.
Definition dec_wop (s : sexp) : option wop :=
  match s with
  | L [A 0; A k; A i; A b] => Some (OpAdd item {| ikey := k; iid := i; ibad := b; igen := false |})
  | L [A 1; A p] => Some (OpIter item (Z.to_nat p) false)
  | L [A 1; A p; A k] => Some (OpIter item (Z.to_nat p) (negb (k =? 0)))
  | L [A 2] => Some (OpClose item)
  | _ => None
  end.
(* flavour of the fault: 0 EIO, 1 ENOENT, 2 "EOF" (a failing read raises EOFError, other calls EIO) *)
Definition dec_fault (s : sexp) : option (option (nat * bool) * bool) :=
  match s with
  | L [] => Some (None, false)
  | L [A n; A e] => Some (Some (Z.to_nat n, e =? 1), e =? 2)
  | _ => None
  end.

Definition enc_obs (o : step_obs item) : sexp :=
  L [enc_outcome (o_out item o); s_of_list enc_item (o_items item o);
     s_of_nat (o_files item o); s_of_nat (o_open item o)].
Definition enc_counts (w : world wire) : sexp :=
  L [s_of_nat (length (files wire w)); s_of_nat (length (fds wire w));
     s_of_nat (length (whandles wire w)); s_of_nat (length (rhandles wire w))].
Definition enc_log (w : world wire) : sexp := L (map (fun c => A (call_code c)) (rev (log wire w))).
Definition enc_hit (w : world wire) : sexp := s_of_opt (fun c => A (call_code c)) (hit wire w).

Definition run_world (c : nat) (al stop : bool) (f : option (nat * bool)) (eof : bool) (ops : list wop) : sexp :=
  let '(obs, cl, w) := w_workload item Z wire item_key Z.ltb item_enc item_dec leftmost_min eof c al stop ops f in
  L [s_of_list enc_obs obs; s_of_list enc_exn_opt cl; enc_counts w; enc_log w; enc_hit w].

Definition run_writer (c : nat) (f : option (nat * bool)) (eof : bool) (xs : list item) : sexp :=
  let '(ao, co, wr, w) := wr_workload item Z wire item_key Z.ltb item_enc item_dec leftmost_min eof c xs f in
  L [s_of_list enc_outcome ao; s_of_list enc_outcome co; s_of_list enc_item (wout item Z wire wr);
     s_of_bool (whclosed item Z wire wr); enc_counts w; enc_log w; enc_hit w].

(* a fault at every call of the fault-free run, in turn *)
Definition sweep_world (c : nat) (al stop : bool) (fl : Z) (ops : list wop) : sexp :=
  let '(_, _, w) := w_workload item Z wire item_key Z.ltb item_enc item_dec leftmost_min false c al stop ops None in
  L [run_world c al stop None false ops;
     L (map (fun i => run_world c al stop (Some (i, fl =? 1)) (fl =? 2) ops) (seq 0 (length (log wire w))))].

Definition sweep_writer (c : nat) (fl : Z) (xs : list item) : sexp :=
  let '(_, _, _, w) := wr_workload item Z wire item_key Z.ltb item_enc item_dec leftmost_min false c xs None in
  L [run_writer c None false xs;
     L (map (fun i => run_writer c (Some (i, fl =? 1)) (fl =? 2) xs) (seq 0 (length (log wire w))))].

Definition dispatch1 (s : sexp) : sexp :=
  match s with
  | L [A 0; A c; A al; ops] =>
      match as_listof dec_pop ops with
      | Some l => L (run_pure (new Z wire (Z.to_nat c) (negb (al =? 0))) l)
      | None => s_bad
      end
  | L [A 1; A c; A al; A st; f; ops] =>
      match dec_fault f, as_listof dec_wop ops with
      | Some (f', ef), Some l => run_world (Z.to_nat c) (negb (al =? 0)) (negb (st =? 0)) f' ef l
      | _, _ => s_bad
      end
  | L [A 2; A c; f; xs] =>
      match dec_fault f, as_listof dec_item xs with
      | Some (f', ef), Some l => run_writer (Z.to_nat c) f' ef l
      | _, _ => s_bad
      end
  | L [A 3; A c; A al; A st; A eno; ops] =>
      match as_listof dec_wop ops with
      | Some l => sweep_world (Z.to_nat c) (negb (al =? 0)) (negb (st =? 0)) eno l
      | None => s_bad
      end
  | L [A 4; A c; A eno; xs] =>
      match as_listof dec_item xs with
      | Some l => sweep_writer (Z.to_nat c) eno l
      | None => s_bad
      end
  | _ => s_bad
  end.

(* (5 case ...): several independent sorter sessions of one process, one reply each *)
Definition dispatch (s : sexp) : sexp :=
  match s with
  | L (A 5 :: subs) => L (map dispatch1 subs)
  | _ => dispatch1 s
  end.
