(* WriterMode.v - model of maflib/writer.py as far as validation stringency is
   concerned: MafWriter.__init__ (header validated with the writer's mode and
   logger, header and column names written) and __iadd__ with
   assume_sorted=True (scheme fixed from the first record when the header names
   none - after the column-name check of the repaired code -, record validated with reset_errors=True against the scheme, line
   written).  The SortOrderChecker the writer creates is never consulted by
   __iadd__, so it is not modelled; the sorting path (assume_sorted=False)
   belongs to another cluster. *)
From MafVerif Require Import lib.Base lib.Str model.RecordOps model.Validation model.Header
  model.RecordParse.

Definition N_NONE : str := [78;111;110;101]%N. (* None *)

(* MafWriter.__check_column_names (repaired code): the column names a
   scheme-less writer can put on the column line - there is at least one, no
   name contains the column or a line separator, and the first name does not
   start with '#' *)
Definition name_sep_free (n : str) : bool := negb (existsb (fun c => N.eqb c TAB || N.eqb c CR || N.eqb c LF) n).
Definition names_writable (names : list str) : bool :=
  match names with
  | [] => false                         (* a record without columns cannot give a file its column names *)
  | n0 :: _ => forallb name_sep_free names && negb (startswith n0 [HASH])
  end.

Section Writer.
  Context {C W : Type}.
  Variable sem : colsem C W.
  Notation cls := (cls C).
  Notation scheme := (scheme cls).
  Notation mrec := (mrec C W).
  Variable registry : list scheme.

  Record writer := {
    w_header : header;
    w_scheme : option scheme;
    w_mode : mode;
    w_out : list str          (* what was written to the handle, one entry per "...\n" *)
  }.

  (* MafWriter.__init__ (validation_stringency given explicitly; None -> Silent) *)
  Definition writer_init (h : header) (m : option mode) : out writer :=
    let mode := match m with None => Silent | Some x => x end in
    obind (header_validate registry h (Some mode) LgWriter true) (fun h' =>
      let out1 := if nonempty (hrecs h') then [header_print (hrecs h')] else [] in
      match h_scheme registry (hrecs h') with
      | Raise e => oraise e
      | Ok sch =>
          let out2 := match sch with
                      | Some s => if s_truthy s then [join [TAB] (s_names s)] else []
                      | None => []
                      end in
          oret {| w_header := h'; w_scheme := sch; w_mode := mode; w_out := out1 ++ out2 |}
      end).

  (* str(record): str(None) is "None"; a column whose __str__ raises makes
     the whole call raise (class not modelled: PlainException) *)
  Fixpoint slots_text (slots : list (option (col (payload C W)))) : res (list str) :=
    match slots with
    | [] => Ok []
    | None :: rest => bind (slots_text rest) (fun ts => Ok (N_NONE :: ts))
    | Some c :: rest =>
        match col_text sem (pv (cval c)) with
        | None => Raise PlainException
        | Some t => bind (slots_text rest) (fun ts => Ok (t :: ts))
        end
    end.
  Definition record_text (r : mrec) : res str :=
    bind (slots_text (rlist (mcols r))) (fun ts => Ok (join [TAB] ts)).

  (* `not self._scheme` *)
  Definition scheme_missing (s : option scheme) : bool :=
    match s with None => true | Some s => negb (s_truthy s) end.

  (* MafWriter.__iadd__ (repaired code): the log, the writer afterwards - a
     record refused by validation leaves it exactly as it was; only rendering
     the validated record can fail after the scheme was adopted -, and the
     validated record or the exception *)
  Definition writer_iadd (w : writer) (r : mrec) : log * writer * res mrec :=
    (* [str(key) for key in record.keys()] *)
    let names := map (fun o => match o with Some c => ckey c | None => N_NONE end)
                     (rlist (mcols r)) in
    (* self.__check_column_names(column_names): before the scheme is fixed and
       before anything is written *)
    if scheme_missing (w_scheme w) && negb (names_writable names) then ([], w, Raise ValueError)
    else
    let '(sch, out1) :=
      if scheme_missing (w_scheme w) then
        let s := no_restrictions names in
        (s, [join [TAB] (s_names s)])
      else
        (match w_scheme w with Some s => s | None => no_restrictions [] end, []) in
    (* validate against the (possibly local) scheme first: a record that is
       refused leaves nothing behind - no scheme adopted, no column line *)
    match record_validate sem r (Some (w_mode w)) LgWriter true (Some sch) with
    | (lg, Raise e) => (lg, w, Raise e)
    | (lg, Ok r') =>
        (* `if not self._scheme:` adopt the scheme and write the column names *)
        let w1 := {| w_header := w_header w; w_scheme := Some sch; w_mode := w_mode w;
                     w_out := w_out w ++ out1 |} in
        match record_text r' with
        | Raise e => (lg, w1, Raise e)
        | Ok t =>
            (lg, {| w_header := w_header w; w_scheme := Some sch; w_mode := w_mode w;
                    w_out := w_out w1 ++ [t] |}, Ok r')
        end
    end.

  (* a whole session: init, then each record in turn (continuing after a
     failed __iadd__, as a caller could) *)
  Fixpoint writer_adds (w : writer) (rs : list mrec) : list (log * res mrec) * writer :=
    match rs with
    | [] => ([], w)
    | r :: rest =>
        let '(lg, w', o) := writer_iadd w r in
        let '(os, w'') := writer_adds w' rest in
        ((lg, o) :: os, w'')
    end.
End Writer.

Arguments writer : clear implicits.
