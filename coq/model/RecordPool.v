(* RecordPool.v - caller-held column objects for MafRecord operations (C15
   with aliasing): operands of set/add/delete may be objects created earlier in
   the history or the object stored in a slot. *)
From MafVerif Require Import lib.Base model.RecordOps.

Section RecordPool.
  Context {V : Type}.
  Notation col := (col V).
  Notation rec := (rec V).
  Notation key := (key V).
  Notation op := (op V).

  (* ---- caller-held column objects (aliasing).  Python passes column
     objects by reference and __setitem__ assigns column.column_index on the
     caller's object when it is None -- also on an operation that later
     fails.  [set_mutation] is the caller-visible object after the call. *)
  Definition set_mutation (r : rec) (k : key) (c : col) : col :=
    let step1 : res col :=
      match k with
      | KInt i =>
          if i <? 0 then Raise KeyError
          else match cidx c with
               | None => Ok (with_idx c (Some i))
               | Some j => if i =? j then Ok c else Raise ValueError
               end
      | KCol kc => if str_eqb (ckey c) (ckey kc) then Ok c else Raise ValueError
      | KStr s => if str_eqb (ckey c) s then Ok c else Raise ValueError
      | KNone | KOther => Raise TypeError
      end in
    match step1 with
    | Raise _ => c
    | Ok c1 =>
        match assoc (ckey c1) (rdict r) with
        | Some old => match cidx c1 with None => with_idx c1 (cidx old) | Some _ => c1 end
        | None => match cidx c1 with None => with_idx c1 (Some (rlen r)) | Some _ => c1 end
        end
    end.

  (* a column operand: a new object, an object created earlier in the history
     (by position in creation order), or the object stored in a slot *)
  Inductive cref := CLit (c : col) | CPool (h : nat) | CSlot (j : nat).
  Inductive pkey := PK (k : key) | PKRef (c : cref).
  Inductive pop := PSet (k : pkey) (c : cref) | PAdd (c : cref) | PDel (k : pkey).

  Variable dflt : col.   (* the object used when a reference dangles *)

  (* resolved column, the pool after creating it if new, and the pool position
     whose object the call may mutate *)
  Definition resolve (r : rec) (pool : list col) (x : cref) : col * list col * option nat :=
    match x with
    | CLit c => (c, pool ++ [c], Some (length pool))
    | CPool h =>
        match pool with
        | [] => (dflt, [dflt], Some O)
        | _ => let i := Nat.modulo h (length pool) in (nth i pool dflt, pool, Some i)
        end
    | CSlot j =>
        match nth_error (rlist r) j with
        | Some (Some c) => (c, pool, None)
        | _ => (dflt, pool ++ [dflt], Some (length pool))
        end
    end.

  Definition resolve_key (r : rec) (pool : list col) (k : pkey) : key * list col :=
    match k with
    | PK k => (k, pool)
    | PKRef x => let '(c, pool', _) := resolve r pool x in (KCol c, pool')
    end.

  Definition pool_put (pool : list col) (at_ : option nat) (c : col) : list col :=
    match at_ with Some i => lset i c pool | None => pool end.

  (* one operation on (record, pool): the resolved plain operation and the new pool *)
  Definition presolve (r : rec) (pool : list col) (o : pop) : op * list col :=
    match o with
    | PSet k x =>
        let '(k', pool1) := resolve_key r pool k in
        let '(c, pool2, at_) := resolve r pool1 x in
        (OSet k' c, pool_put pool2 at_ (set_mutation r k' c))
    | PAdd x =>
        let '(c, pool2, at_) := resolve r pool x in
        (OAdd c, pool_put pool2 at_ (set_mutation r (KStr (ckey c)) c))
    | PDel k =>
        let '(k', pool1) := resolve_key r pool k in (ODel k', pool1)
    end.

  Definition pstep (st : rec * list col) (o : pop) : (rec * list col) * res unit :=
    let '(o', pool') := presolve (fst st) (snd st) o in
    let '(r', out) := step (fst st) o' in
    ((r', pool'), out).

  Definition prun (st : rec * list col) (ops : list pop) : rec * list col :=
    fold_left (fun s o => fst (pstep s o)) ops st.

End RecordPool.

Arguments cref : clear implicits.
Arguments pkey : clear implicits.
Arguments pop : clear implicits.
