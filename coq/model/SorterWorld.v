(* SorterWorld.v - the I/O protocol of maflib/sorter.py (repaired code) and of
   MafWriter.close, for C18.

   World: the spill files that exist (with the records written to them), the
   raw descriptors returned by mkstemp that are still open, the gzip handles
   that are still open.  Every I/O call the sorter makes
       tempfile.mkstemp / gzip.open(w) / handle.write / handle.close (w) /
       gzip.open(r) / handle.read / handle.close (r) / os.close / os.remove
   is one step: it is logged, and it either succeeds or raises OSError
   according to a single-shot fault schedule (the index of the failing call,
   and whether its errno is ENOENT).

   Conventions of the fault wrapper (the harness implements the same ones):
   * mkstemp, gzip.open, write, read fail BEFORE doing anything;
   * handle.close and os.close fail AFTER releasing the descriptor (on Linux
     close(2) releases the descriptor even when it reports an error;
     GzipFile.close closes its file object in a finally clause);
   * a failing read raises OSError or, in the EOF flavour of the schedule,
     EOFError (a truncated spill file);
   * os.remove failing with ENOENT means the file is gone (somebody else
     removed it); with another errno the file stays.
   * Sorter.__iter__ registers its _MergingIterator in self._merging and
     closes it in a finally clause; Sorter.close() closes every registered
     one first; closing a merging iterator attempts every reader.
     Reference counting is only relied on for the readers of a
     _MergingIterator whose constructor raised.
     Abandoning an iteration is generator.close() (a generator that is
     merely dropped runs the same cleanup in its finalizer, where Python
     ignores exceptions).

   Descriptors and files are numbered from 0 upwards; number 0 is a
   legitimate descriptor (it is what mkstemp returns to a process without a
   stdin).  "Already closed" is None in `wfds`, never the number 0.

   A spill that fails after the file was registered leaves the stash in a
   half-written state (entries already written are None, the count is not
   reset); the sorter is then `tainted` and only close() is modelled on it
   (add / iteration on a tainted sorter are reported as unmodelled).
   No proofs here. *)
From MafVerif Require Import lib.Base model.Sorter.

Inductive call := CMkstemp | COpenW | CWrite | CCloseW | COpenR | CRead | CCloseR | COsClose | COsRemove.

Definition call_code (c : call) : Z :=
  match c with
  | CMkstemp => 0 | COpenW => 1 | CWrite => 2 | CCloseW => 3 | COpenR => 4
  | CRead => 5 | CCloseR => 6 | COsClose => 7 | COsRemove => 8
  end.

Inductive outcome := OOk | ORaise (e : exn) | OUnmodelled.

Section World.
  Variables A K D : Type.
  Variable keyf : A -> res K.
  Variable lt : K -> K -> bool.
  Variable enc : A -> D.
  Variable dec : D -> res A.
  Variable pick_min : forall X : Type, (X -> X -> bool) -> list X -> option (X * list X).
  (* what a failing handle.read raises: OSError, or - eof = true - the
     EOFError with which GzipFile.read reports a spill file that lost its tail
     between being written and being merged (PlainException stands for it:
     the point is that it is not an OSError) *)
  Variable eof : bool.

  Notation entry := (entry K D).

  Record world := mkWorld {
    files : list (nat * list D);     (* spill files on disk: id, records written *)
    fds : list nat;                  (* open descriptors from mkstemp *)
    whandles : list nat;             (* open gzip write handles (by file id) *)
    rhandles : list nat;             (* open gzip read handles (by handle id) *)
    next_id : nat;
    fault : option (nat * bool);     (* calls to go before the failing one; ENOENT? *)
    hit : option call;               (* the call that failed, once it has *)
    log : list call                  (* every I/O call made, latest first *)
  }.

  Definition world0 (f : option (nat * bool)) : world :=
    {| files := []; fds := []; whandles := []; rhandles := []; next_id := O;
       fault := f; hit := None; log := [] |}.

  Definition remove_nat (n : nat) (l : list nat) : list nat := filter (fun m => negb (Nat.eqb m n)) l.
  Definition remove_file (n : nat) (l : list (nat * list D)) : list (nat * list D) :=
    filter (fun p => negb (Nat.eqb (fst p) n)) l.
  Fixpoint lookup_file (n : nat) (l : list (nat * list D)) : option (list D) :=
    match l with
    | [] => None
    | (m, c) :: r => if Nat.eqb m n then Some c else lookup_file n r
    end.
  Fixpoint append_file (n : nat) (d : D) (l : list (nat * list D)) : list (nat * list D) :=
    match l with
    | [] => []
    | (m, c) :: r => if Nat.eqb m n then (m, c ++ [d]) :: r else (m, c) :: append_file n d r
    end.
  Fixpoint mem_nat (n : nat) (l : list nat) : bool :=
    match l with [] => false | m :: r => Nat.eqb m n || mem_nat n r end.

  (* one I/O call: Some eno = this call is the failing one *)
  Definition tick (c : call) (w : world) : option bool * world :=
    match fault w with
    | Some (O, eno) =>
        (Some eno, {| files := files w; fds := fds w; whandles := whandles w; rhandles := rhandles w;
                      next_id := next_id w; fault := None; hit := Some c; log := c :: log w |})
    | Some (S n, eno) =>
        (None, {| files := files w; fds := fds w; whandles := whandles w; rhandles := rhandles w;
                  next_id := next_id w; fault := Some (n, eno); hit := hit w; log := c :: log w |})
    | None =>
        (None, {| files := files w; fds := fds w; whandles := whandles w; rhandles := rhandles w;
                  next_id := next_id w; fault := None; hit := hit w; log := c :: log w |})
    end.

  Definition set_files (w : world) (f : list (nat * list D)) : world :=
    {| files := f; fds := fds w; whandles := whandles w; rhandles := rhandles w;
       next_id := next_id w; fault := fault w; hit := hit w; log := log w |}.
  Definition set_fds (w : world) (f : list nat) : world :=
    {| files := files w; fds := f; whandles := whandles w; rhandles := rhandles w;
       next_id := next_id w; fault := fault w; hit := hit w; log := log w |}.
  Definition set_wh (w : world) (h : list nat) : world :=
    {| files := files w; fds := fds w; whandles := h; rhandles := rhandles w;
       next_id := next_id w; fault := fault w; hit := hit w; log := log w |}.
  Definition set_rh (w : world) (h : list nat) : world :=
    {| files := files w; fds := fds w; whandles := whandles w; rhandles := h;
       next_id := next_id w; fault := fault w; hit := hit w; log := log w |}.
  Definition bump (w : world) : world :=
    {| files := files w; fds := fds w; whandles := whandles w; rhandles := rhandles w;
       next_id := S (next_id w); fault := fault w; hit := hit w; log := log w |}.

  (* ---------- the nine I/O calls ---------- *)
  (* tempfile.mkstemp: a fresh file and a descriptor on it *)
  Definition w_mkstemp (w : world) : res nat * world :=
    match tick CMkstemp w with
    | (Some eno, w1) => (Raise (OSError eno), w1)
    | (None, w1) =>
        let id := next_id w1 in
        (Ok id, bump (set_fds (set_files w1 (files w1 ++ [(id, [])])) (fds w1 ++ [id])))
    end.

  (* gzip.open(path, "wb") *)
  Definition w_open_w (id : nat) (w : world) : res unit * world :=
    match tick COpenW w with
    | (Some eno, w1) => (Raise (OSError eno), w1)
    | (None, w1) => (Ok tt, set_wh w1 (whandles w1 ++ [id]))
    end.

  (* handle.write(struct.pack('i', len(data))) *)
  Definition w_write_len (w : world) : res unit * world :=
    match tick CWrite w with
    | (Some eno, w1) => (Raise (OSError eno), w1)
    | (None, w1) => (Ok tt, w1)
    end.

  (* handle.write(memoryview(data)) *)
  Definition w_write_data (id : nat) (d : D) (w : world) : res unit * world :=
    match tick CWrite w with
    | (Some eno, w1) => (Raise (OSError eno), w1)
    | (None, w1) => (Ok tt, set_files w1 (append_file id d (files w1)))
    end.

  (* handle.close() of a write handle: the descriptor goes either way *)
  Definition w_close_w (id : nat) (w : world) : res unit * world :=
    match tick CCloseW w with
    | (Some eno, w1) => (Raise (OSError eno), set_wh w1 (remove_nat id (whandles w1)))
    | (None, w1) => (Ok tt, set_wh w1 (remove_nat id (whandles w1)))
    end.

  (* gzip.open(path, "rb"): handle id and what there is to read *)
  Definition w_open_r (id : nat) (w : world) : res (nat * list D) * world :=
    match tick COpenR w with
    | (Some eno, w1) => (Raise (OSError eno), w1)
    | (None, w1) =>
        match lookup_file id (files w1) with
        | None => (Raise (OSError true), w1)            (* FileNotFoundError *)
        | Some c =>
            let h := next_id w1 in
            (Ok (h, c), bump (set_rh w1 (rhandles w1 ++ [h])))
        end
    end.

  (* handle.read(size=...) *)
  Definition w_read (w : world) : res unit * world :=
    match tick CRead w with
    | (Some eno, w1) => (Raise (if eof then PlainException else OSError eno), w1)
    | (None, w1) => (Ok tt, w1)
    end.

  (* handle.close() of a read handle *)
  Definition w_close_r (h : nat) (w : world) : res unit * world :=
    match tick CCloseR w with
    | (Some eno, w1) => (Raise (OSError eno), set_rh w1 (remove_nat h (rhandles w1)))
    | (None, w1) => (Ok tt, set_rh w1 (remove_nat h (rhandles w1)))
    end.

  (* os.close(desc): the descriptor is released even when the call fails *)
  Definition w_os_close (fd : nat) (w : world) : res unit * world :=
    match tick COsClose w with
    | (Some eno, w1) => (Raise (OSError eno), set_fds w1 (remove_nat fd (fds w1)))
    | (None, w1) =>
        if mem_nat fd (fds w1) then (Ok tt, set_fds w1 (remove_nat fd (fds w1)))
        else (Raise (OSError false), w1)                (* EBADF *)
    end.

  (* os.remove(path) *)
  Definition w_os_remove (id : nat) (w : world) : res unit * world :=
    match tick COsRemove w with
    | (Some true, w1) => (Raise (OSError true), set_files w1 (remove_file id (files w1)))
    | (Some false, w1) => (Raise (OSError false), w1)
    | (None, w1) =>
        match lookup_file id (files w1) with
        | Some _ => (Ok tt, set_files w1 (remove_file id (files w1)))
        | None => (Raise (OSError true), w1)
        end
    end.


  (* ---------- Sorter ---------- *)
  Record wsorter := mkWSorter {
    wcap : nat;
    walways : bool;
    wstash : list entry;               (* _stash[:_objects_in_memory] *)
    wpaths : list nat;                 (* _paths *)
    wfds : list (option nat);          (* _fds (None = already closed) *)
    tainted : bool;
    (* _merging: the _MergingIterators of the generators the caller still
       holds; each is the list of the read handles of its cursors whose
       _closed flag is still False.  (A merging iterator whose close() has run
       has no such cursor left, whether it failed or not: it is left out.) *)
    wmerging : list (list nat)
  }.

  Definition wnew (c : nat) (al : bool) : wsorter :=
    {| wcap := c; walways := al; wstash := []; wpaths := []; wfds := []; tainted := false;
       wmerging := [] |}.

  Definition ws_stash (s : wsorter) (st : list entry) : wsorter :=
    {| wcap := wcap s; walways := walways s; wstash := st; wpaths := wpaths s; wfds := wfds s; tainted := tainted s;
       wmerging := wmerging s |}.
  Definition ws_register (s : wsorter) (id : nat) : wsorter :=
    {| wcap := wcap s; walways := walways s; wstash := wstash s; wpaths := wpaths s ++ [id];
       wfds := wfds s ++ [Some id]; tainted := tainted s; wmerging := wmerging s |}.
  Definition ws_taint (s : wsorter) : wsorter :=
    {| wcap := wcap s; walways := walways s; wstash := wstash s; wpaths := wpaths s; wfds := wfds s; tainted := true;
       wmerging := wmerging s |}.
  Definition ws_merging (s : wsorter) (m : list (list nat)) : wsorter :=
    {| wcap := wcap s; walways := walways s; wstash := wstash s; wpaths := wpaths s; wfds := wfds s; tainted := tainted s;
       wmerging := m |}.

  (* for i in range(n): write length, write data, stash[i] = None *)
  Fixpoint write_all (id : nat) (ds : list D) (w : world) : option exn * world :=
    match ds with
    | [] => (None, w)
    | d :: r =>
        match w_write_len w with
        | (Raise e, w1) => (Some e, w1)
        | (Ok _, w1) =>
            match w_write_data id d w1 with
            | (Raise e, w2) => (Some e, w2)
            | (Ok _, w2) => write_all id r w2
            end
        end
    end.

  (* Sorter.__spill *)
  Definition w_spill (s : wsorter) (w : world) : option exn * wsorter * world :=
    match wstash s with
    | [] => (None, s, w)
    | _ :: _ =>
        match w_mkstemp w with
        | (Raise e, w1) => (Some e, s, w1)
        | (Ok id, w1) =>
            let s1 := ws_register s id in              (* registered straight away *)
            match w_open_w id w1 with
            | (Raise e, w2) => (Some e, ws_taint s1, w2)
            | (Ok _, w2) =>
                (* try: *)
                match sort_entries K D lt pick_min (wstash s1) with
                | None =>                              (* model fuel; unreachable *)
                    (* finally: handle.close(); an exception there replaces the first one *)
                    match w_close_w id w2 with
                    | (Raise e', w3) => (Some e', ws_taint s1, w3)
                    | (Ok _, w3) => (Some AssertionError, ws_taint s1, w3)
                    end
                | Some l =>
                    let s2 := ws_stash s1 l in
                    match write_all id (map snd l) w2 with
                    | (Some e, w3) =>
                        (* finally: handle.close(); an exception there replaces e *)
                        match w_close_w id w3 with
                        | (Raise e', w4) => (Some e', ws_taint s2, w4)
                        | (Ok _, w4) => (Some e, ws_taint s2, w4)
                        end
                    | (None, w3) =>
                        match w_close_w id w3 with
                        | (Raise e', w4) => (Some e', ws_taint s2, w4)
                        | (Ok _, w4) => (None, ws_stash s2 [], w4)   (* _objects_in_memory = 0 *)
                        end
                    end
                end
            end
        end
    end.

  (* Sorter.add *)
  Definition w_add (s : wsorter) (x : A) (w : world) : option exn * wsorter * world :=
    match keyf x with
    | Raise e => (Some e, s, w)
    | Ok k =>
        let d := enc x in
        if (wcap s <=? length (wstash s))%nat then (Some IndexError, s, w)
        else
          let s1 := ws_stash s (wstash s ++ [(k, d)]) in
          if (length (wstash s1) =? wcap s)%nat then w_spill s1 w else (None, s1, w)
    end.

  (* ---------- _SortedIterator / _MergingIterator over the world ---------- *)
  Record wcursor := mkWCursor { wh : nat; wkey : K; wval : A; wrest : list D }.
  Definition lt_wcursor (a b : wcursor) : bool := lt (wkey a) (wkey b).

  (* __advance: read(4); at end of file close the handle, otherwise read the
     record, decode it, compute its key *)
  Definition w_advance (h : nat) (ds : list D) (w : world) : res (option wcursor) * world :=
    match w_read w with
    | (Raise e, w1) => (Raise e, w1)
    | (Ok _, w1) =>
        match ds with
        | [] =>
            match w_close_r h w1 with
            | (Raise e, w2) => (Raise e, w2)
            | (Ok _, w2) => (Ok None, w2)
            end
        | d :: r =>
            match w_read w1 with
            | (Raise e, w2) => (Raise e, w2)
            | (Ok _, w2) =>
                match dec d with
                | Raise e => (Raise e, w2)
                | Ok a =>
                    match keyf a with
                    | Raise e => (Raise e, w2)
                    | Ok k => (Ok (Some {| wh := h; wkey := k; wval := a; wrest := r |}), w2)
                    end
                end
            end
        end
    end.

  (* _MergingIterator.__init__ *)
  Fixpoint w_cursors (paths : list nat) (w : world) : res (list wcursor) * world :=
    match paths with
    | [] => (Ok [], w)
    | p :: r =>
        match w_open_r p w with
        | (Raise e, w1) => (Raise e, w1)
        | (Ok (h, c), w1) =>
            match w_advance h c w1 with
            | (Raise e, w2) => (Raise e, w2)
            | (Ok None, w2) => (Raise TypeError, w2)    (* empty spill file: unreachable, see Sorter.v *)
            | (Ok (Some cu), w2) =>
                match w_cursors r w2 with
                | (Raise e, w3) => (Raise e, w3)
                | (Ok l, w3) => (Ok (cu :: l), w3)
                end
            end
        end
    end.

  (* how `pulls` calls of _MergingIterator.__next__ end *)
  Inductive mstatus := MExhausted | MSuspended | MRaised (e : exn).

  (* `pulls` calls of _MergingIterator.__next__: the records returned, how it
     ended, and the read handles of the cursors in _iterators whose _closed
     flag is still False at that point (`opn`, kept apart from the heap: it is
     what close() goes through).  A cursor that reaches the end of its file
     closes itself; one whose read, decode, key or end-of-file close raised
     has not been flagged closed. *)
  Fixpoint w_merge (pulls : nat) (heap : list wcursor) (opn : list nat) (w : world)
    : (list A * mstatus * list nat) * world :=
    match pulls with
    | O => (([], MSuspended, opn), w)
    | S p =>
        match heap with
        | [] => (([], MExhausted, opn), w)           (* __next__: self.close(); raise StopIteration *)
        | _ :: _ =>
            match pick_min wcursor lt_wcursor heap with
            | None => (([], MRaised AssertionError, opn), w)        (* oracle refused; unreachable *)
            | Some (c, rest) =>
                match w_advance (wh c) (wrest c) w with
                | (Raise e, w1) => (([], MRaised e, opn), w1)
                | (Ok None, w1) =>
                    let '((ys, st, hs), w2) := w_merge p rest (remove_nat (wh c) opn) w1 in ((wval c :: ys, st, hs), w2)
                | (Ok (Some c'), w1) =>
                    let '((ys, st, hs), w2) := w_merge p (c' :: rest) opn w1 in ((wval c :: ys, st, hs), w2)
                end
            end
        end
    end.

  (* _MergingIterator.close(): every reader is attempted, the first OSError is
     raised at the end; afterwards the iterator has no cursor left *)
  Fixpoint w_mclose (hs : list nat) (w : world) (err : option exn) : option exn * world :=
    match hs with
    | [] => (err, w)
    | h :: r =>
        match w_close_r h w with
        | (Raise e, w1) => w_mclose r w1 (match err with Some _ => err | None => Some e end)
        | (Ok _, w1) => w_mclose r w1 err
        end
    end.

  (* in-memory branch: `pulls` calls of next() on `yield decode(i)` *)
  Fixpoint decode_n (pulls : nat) (ds : list D) : list A * option exn :=
    match pulls with
    | O => ([], None)
    | S p =>
        match ds with
        | [] => ([], None)
        | d :: r =>
            match dec d with
            | Raise e => ([], Some e)
            | Ok a => let '(ys, e) := decode_n p r in (a :: ys, e)
            end
        end
    end.

  (* the `finally: m_iter.close(); unregister` of Sorter.__iter__, entered
     with exception `e` pending (None: GeneratorExit / normal end): an
     exception of the cleanup replaces e *)
  Definition w_finally (s : wsorter) (ys : list A) (e : option exn) (hs : list nat) (w : world)
    : (list A * option exn) * wsorter * world :=
    match w_mclose hs w None with
    | (None, w1) => ((ys, e), s, w1)
    | (Some e', w1) => ((ys, Some e'), s, w1)
    end.

  (* Sorter.__iter__: next() called `pulls` times; then the generator is
     either kept by the caller (keep) or closed (generator.close()).
     pulls = 0: the generator never starts, nothing happens. *)
  Definition w_iter (s : wsorter) (pulls : nat) (keep : bool) (w : world)
    : (list A * option exn) * wsorter * world :=
    match pulls with
    | O => (([], None), s, w)
    | S _ =>
        if negb (is_nil (wpaths s)) || walways s then
          match w_spill s w with
          | (Some e, s1, w1) => (([], Some e), s1, w1)
          | (None, s1, w1) =>
              match w_cursors (wpaths s1) w1 with
              | (Raise e, w2) =>
                  (* _MergingIterator.__init__ raised: the readers it had opened are unreachable *)
                  (([], Some e), s1, set_rh w2 (rhandles w1))
              | (Ok heap, w2) =>
                  let '((ys, st, hs), w3) := w_merge pulls heap (map wh heap) w2 in
                  match st with
                  | MExhausted => w_finally s1 ys None hs w3     (* every cursor has closed itself: hs = [] *)
                  | MRaised e => w_finally s1 ys (Some e) hs w3
                  | MSuspended =>
                      if keep then ((ys, None), ws_merging s1 (wmerging s1 ++ [hs]), w3)
                      else w_finally s1 ys None hs w3
                  end
              end
          end
        else
          match sort_entries K D lt pick_min (wstash s) with
          | None => (([], Some AssertionError), s, w)
          | Some l => (decode_n pulls (map snd l), ws_stash s l, w)
          end
    end.

  (* ---------- Sorter.close ---------- *)
  Definition first_err (a : option exn) (e : exn) : option exn :=
    match a with Some _ => a | None => Some e end.

  Fixpoint w_close_loop (paths : list nat) (descs : list (option nat)) (w : world)
           (err : option exn) (rem : list nat) : option exn * list nat * world :=
    match paths, descs with
    | p :: ps, d :: ds =>
        let '(err1, w1) :=
          match d with
          | Some fd =>
              match w_os_close fd w with
              | (Raise e, w1) => (first_err err e, w1)
              | (Ok _, w1) => (err, w1)
              end
          | None => (err, w)
          end in
        match w_os_remove p w1 with
        | (Raise (OSError true), w2) => w_close_loop ps ds w2 err1 rem           (* ENOENT: tolerated *)
        | (Raise e, w2) => w_close_loop ps ds w2 (first_err err1 e) (rem ++ [p])
        | (Ok _, w2) => w_close_loop ps ds w2 err1 rem
        end
    | _, _ => (err, rem, w)
    end.

  (* for m_iter in self._merging: try: m_iter.close() except OSError: error = error or exception *)
  Fixpoint w_close_merging (ms : list (list nat)) (w : world) (err : option exn) : option exn * world :=
    match ms with
    | [] => (err, w)
    | hs :: r => let '(err1, w1) := w_mclose hs w err in w_close_merging r w1 err1
    end.

  Definition w_close (s : wsorter) (w : world) : option exn * wsorter * world :=
    let '(err0, w0) := w_close_merging (wmerging s) w None in
    let '(err, rem, w1) := w_close_loop (wpaths s) (wfds s) w0 err0 [] in
    (err,
     {| wcap := wcap s; walways := walways s; wstash := wstash s; wpaths := rem;
        wfds := map (fun _ => None) rem; tainted := tainted s; wmerging := [] |},
     w1).

  (* close() until it returns normally, at most n times *)
  Fixpoint w_close_until (n : nat) (s : wsorter) (w : world) : list (option exn) * wsorter * world :=
    match n with
    | O => ([], s, w)
    | S m =>
        match w_close s w with
        | (None, s1, w1) => ([None], s1, w1)
        | (Some e, s1, w1) =>
            let '(l, s2, w2) := w_close_until m s1 w1 in (Some e :: l, s2, w2)
        end
    end.

  (* ---------- histories of a Sorter ---------- *)
  Inductive op := OpAdd (x : A) | OpIter (pulls : nat) (keep : bool) | OpClose.

  Record step_obs := mkObs {
    o_out : outcome;
    o_items : list A;
    o_files : nat;           (* files on disk after the operation *)
    o_open : nat             (* open descriptors (raw + gzip handles) after it *)
  }.

  Definition n_open (w : world) : nat := (length (fds w) + length (whandles w) + length (rhandles w))%nat.
  Definition out_of (e : option exn) : outcome := match e with None => OOk | Some x => ORaise x end.

  Definition w_step (s : wsorter) (o : op) (w : world) : outcome * list A * wsorter * world :=
    match o with
    | OpAdd x =>
        if tainted s then (OUnmodelled, [], s, w)
        else let '(e, s1, w1) := w_add s x w in (out_of e, [], s1, w1)
    | OpIter p keep =>
        if tainted s then (OUnmodelled, [], s, w)
        else let '((ys, e), s1, w1) := w_iter s p keep w in (out_of e, ys, s1, w1)
    | OpClose =>
        let '(e, s1, w1) := w_close s w in (out_of e, [], s1, w1)
    end.

  Definition is_raise (o : outcome) : bool := match o with ORaise _ => true | _ => false end.

  (* stop_on_error: the caller reacts to the first exception by closing *)
  Fixpoint w_run (stop : bool) (s : wsorter) (ops : list op) (w : world) : list step_obs * wsorter * world :=
    match ops with
    | [] => ([], s, w)
    | o :: r =>
        let '(out, ys, s1, w1) := w_step s o w in
        let ob := {| o_out := out; o_items := ys; o_files := length (files w1); o_open := n_open w1 |} in
        if stop && is_raise out then ([ob], s1, w1)
        else let '(l, s2, w2) := w_run stop s1 r w1 in (ob :: l, s2, w2)
    end.

  (* a whole workload: the history, then close() until it returns normally *)
  Definition w_workload (c : nat) (al : bool) (stop : bool) (ops : list op) (f : option (nat * bool))
    : list step_obs * list (option exn) * world :=
    let '(obs, s, w) := w_run stop (wnew c al) ops (world0 f) in
    (* the caller may still hold generators when it closes the sorter *)
    let '(cl, _, w') := w_close_until 3 s w in
    (obs, cl, w').

  (* ---------- MafWriter with a sorter ---------- *)
  Record wwriter := mkWWriter { ws : wsorter; wout : list A; whclosed : bool }.

  Definition wr_new (c : nat) : wwriter :=
    {| ws := wnew c true; wout := []; whclosed := false |}.     (* MafSorter: always_spill default *)

  (* MafWriter.__iadd__ with a sorter: self._sorter += record *)
  Definition wr_add (wr : wwriter) (x : A) (w : world) : outcome * wwriter * world :=
    if tainted (ws wr) then (OUnmodelled, wr, w)
    else
      let '(e, s1, w1) := w_add (ws wr) x w in
      (out_of e, {| ws := s1; wout := wout wr; whclosed := whclosed wr |}, w1).

  Definition total_items (s : wsorter) (w : world) : nat :=
    (length (wstash s) + fold_right (fun p n => (length (snd p) + n)%nat) O (files w))%nat.

  (* MafWriter.close: for rec in self._sorter: handle.write(..); self._sorter.close(); handle.close() *)
  Definition wr_close (wr : wwriter) (w : world) : outcome * wwriter * world :=
    if tainted (ws wr) then (OUnmodelled, wr, w)
    else
      let '((ys, e), s1, w1) := w_iter (ws wr) (S (total_items (ws wr) w)) false w in
      let out1 := wout wr ++ ys in                    (* records written before an exception stay written *)
      match e with
      | Some x => (ORaise x, {| ws := s1; wout := out1; whclosed := whclosed wr |}, w1)
      | None =>
          match w_close s1 w1 with
          | (Some x, s2, w2) => (ORaise x, {| ws := s2; wout := out1; whclosed := whclosed wr |}, w2)
          | (None, s2, w2) => (OOk, {| ws := s2; wout := out1; whclosed := true |}, w2)
          end
      end.

  Fixpoint wr_adds (wr : wwriter) (xs : list A) (w : world) : list outcome * wwriter * world :=
    match xs with
    | [] => ([], wr, w)
    | x :: r =>
        let '(o, wr1, w1) := wr_add wr x w in
        if is_raise o then ([o], wr1, w1)
        else let '(l, wr2, w2) := wr_adds wr1 r w1 in (o :: l, wr2, w2)
    end.

  (* close() until it returns normally (or is unmodelled), at most n times *)
  Fixpoint wr_close_until (n : nat) (wr : wwriter) (w : world) : list outcome * wwriter * world :=
    match n with
    | O => ([], wr, w)
    | S m =>
        match wr_close wr w with
        | (ORaise e, wr1, w1) =>
            let '(l, wr2, w2) := wr_close_until m wr1 w1 in (ORaise e :: l, wr2, w2)
        | (o, wr1, w1) => ([o], wr1, w1)
        end
    end.

  Definition wr_workload (c : nat) (xs : list A) (f : option (nat * bool))
    : list outcome * list outcome * wwriter * world :=
    let '(ao, wr, w) := wr_adds (wr_new c) xs (world0 f) in
    let '(co, wr', w') := wr_close_until 3 wr w in
    (ao, co, wr', w').

End World.
