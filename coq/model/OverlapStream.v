(* OverlapStream.v - consumption models for C19 (incrementality):
   - MafReader: the single look-ahead line (__next_line__ in __init__ and
     __next__), over a line source (consumed count, remaining lines);
   - MafWriter.__iadd__: the unsorted branch writes before returning;
   - Sorter.add: stash count, spill at capacity;
   - (the overlap iterator's consumption is the `consumed` field of
     model/Overlap.v's inputs).
   Parsing / validation / rendering are Section parameters that may raise:
   only the pull/write discipline is modelled here.  No proofs. *)
From MafVerif Require Import lib.Base lib.Str.

(* ------------------------------------------------------------------ reader *)
Section Reader.
  Context {H Sch X : Type}.
  (* MafHeader.from_lines (may raise under Strict) *)
  Variable parse_header : list str -> res H.
  (* __update_scheme__, column-name validation, process_validation_errors *)
  Variable check_columns : H -> option (list str) -> res Sch.
  (* MafRecord.from_line(line, scheme, line_number, stringency) *)
  Variable parse_record : Sch -> str -> Z -> res X.

  (* iter(lines): (lines pulled so far, lines not yet pulled) *)
  Record src := { s_consumed : nat; s_rest : list str }.

  (* self.__next_line, self.__line_number *)
  Record reader := { r_src : src; r_next_line : option str; r_line_number : Z; r_scheme : Sch }.

  (* __next_line__ on the raw fields *)
  Definition pull (s : src) (ln : Z) : src * option str * Z :=
    match s_rest s with
    | l :: r => ({| s_consumed := S (s_consumed s); s_rest := r |}, Some (rstrip_crlf l), ln + 1)
    | [] => (s, None, ln)                          (* except StopIteration *)
    end.

  (* `while True: self.__next_line__(); if ... startswith("#"): append else break`
     structurally over the remaining lines; returns source, look-ahead, line
     number and the header lines *)
  Fixpoint header_loop (rest : list str) (n : nat) (ln : Z) (acc : list str)
    : src * option str * Z * list str :=
    match rest with
    | [] => ({| s_consumed := n; s_rest := [] |}, None, ln, acc)
    | l :: r =>
      let l' := rstrip_crlf l in
      if startswith l' [HASH] then header_loop r (S n) (ln + 1) (acc ++ [l'])
      else ({| s_consumed := S n; s_rest := r |}, Some l', ln + 1, acc)
    end.

  (* MafReader.__init__; on failure the source as consumed so far is returned *)
  Definition reader_init (lines : list str) : src * res reader :=
    let '(s, nl, ln, hdr) := header_loop lines 0 0 [] in
    match parse_header hdr with
    | Raise e => (s, Raise e)
    | Ok h =>
      let '(s2, nl2, ln2, cols) :=
        match nl with
        | Some l => let '(s', nl', ln') := pull s ln in (s', nl', ln', Some (split TAB l))
        | None => (s, nl, ln, None)
        end in
      match check_columns h cols with
      | Raise e => (s2, Raise e)
      | Ok sch => (s2, Ok {| r_src := s2; r_next_line := nl2; r_line_number := ln2; r_scheme := sch |})
      end
    end.

  (* MafReader.__next__ *)
  Definition reader_next (r : reader) : reader * res X :=
    match r_next_line r with
    | None => (r, Raise StopIteration)
    | Some l =>
      match parse_record (r_scheme r) l (r_line_number r) with
      | Raise e => (r, Raise e)
      | Ok x =>
        let '(s', nl', ln') := pull (r_src r) (r_line_number r) in
        ({| r_src := s'; r_next_line := nl'; r_line_number := ln'; r_scheme := r_scheme r |}, Ok x)
      end
    end.

  (* k calls of next(), stopping at the first exception; returns the records
     and, after each returned record, the number of lines pulled *)
  Fixpoint reader_take (k : nat) (r : reader) : reader * list (X * nat) :=
    match k with
    | O => (r, [])
    | S k' =>
      match reader_next r with
      | (r', Ok x) => let '(r'', xs) := reader_take k' r' in (r'', (x, s_consumed (r_src r')) :: xs)
      | (r', Raise _) => (r', [])
      end
    end.
End Reader.
Arguments src : clear implicits.
Arguments reader : clear implicits.

(* ------------------------------------------------------------------ writer *)
Section Writer.
  Context {Rec : Type}.
  (* MafRecord.ColumnSeparator.join(column names of the record) *)
  Variable column_line : Rec -> str.
  (* str(record) *)
  Variable render : Rec -> str.
  (* record.validate(...) under the writer's stringency *)
  Variable validate : Rec -> res unit.
  (* _set_checker_and_sorter: true = a sorter is installed;
     `assume_sorted or not sort_order.sort_key()` may raise NotImplementedError *)
  Variable wants_sorter : res bool.

  (* handle: the list of write() arguments so far; _scheme present?; _sorter
     present? with the records handed to it *)
  Record writer := { w_out : list str; w_scheme : bool; w_sorter : option (list Rec) }.

  Definition writer_iadd (w : writer) (r : Rec) : writer * res unit :=
    let step1 : writer * res unit :=
      if w_scheme w then (w, Ok tt)
      else
        let w1 := {| w_out := w_out w ++ [column_line r ++ [LF]]; w_scheme := true; w_sorter := w_sorter w |} in
        match wants_sorter with
        | Raise e => (w1, Raise e)
        | Ok true => ({| w_out := w_out w1; w_scheme := true; w_sorter := Some [] |}, Ok tt)
        | Ok false => ({| w_out := w_out w1; w_scheme := true; w_sorter := None |}, Ok tt)
        end in
    match step1 with
    | (w1, Raise e) => (w1, Raise e)
    | (w1, Ok _) =>
      match validate r with
      | Raise e => (w1, Raise e)
      | Ok _ =>
        match w_sorter w1 with
        | Some held => ({| w_out := w_out w1; w_scheme := w_scheme w1; w_sorter := Some (held ++ [r]) |}, Ok tt)
        | None => ({| w_out := w_out w1 ++ [render r ++ [LF]]; w_scheme := w_scheme w1; w_sorter := None |}, Ok tt)
        end
      end
    end.
End Writer.
Arguments writer : clear implicits.

(* ------------------------------------------------------------------ sorter *)
Section SorterAdd.
  Context {X E : Type}.
  (* _SortEntry(key_func(obj), codec.encode(obj)) *)
  Variable entry_of : X -> res E.
  (* sorted(stash[:n]) - host function, see the hypothesis of the theorems *)
  Variable sortf : list E -> list E.

  (* _max_objects_in_ram, the occupied prefix of _stash (length =
     _objects_in_memory), the spill files written so far (oldest first) *)
  Record sorter := { cap : nat; stash : list E; chunks : list (list E) }.

  Definition sorter_new (m : nat) : sorter := {| cap := m; stash := []; chunks := [] |}.

  (* __spill with I/O that succeeds (faults are C18's subject) *)
  Definition spill (s : sorter) : sorter :=
    match stash s with
    | [] => s
    | _ :: _ => {| cap := cap s; stash := []; chunks := chunks s ++ [sortf (stash s)] |}
    end.

  (* Sorter.add *)
  Definition sorter_add (s : sorter) (x : X) : sorter * res unit :=
    match entry_of x with
    | Raise e => (s, Raise e)
    | Ok en =>
      if (cap s <=? length (stash s))%nat then (s, Raise IndexError)   (* self._stash[n] = ... *)
      else
        let s1 := {| cap := cap s; stash := stash s ++ [en]; chunks := chunks s |} in
        if (length (stash s1) =? cap s1)%nat then (spill s1, Ok tt) else (s1, Ok tt)
    end.

  Definition sorter_adds (s : sorter) (xs : list X) : sorter :=
    fold_left (fun s x => fst (sorter_add s x)) xs s.
End SorterAdd.
Arguments sorter : clear implicits.
