(* ColsemColumns.v - the concrete column model (model/Columns.v: classes
   resolved by C3 over the regenerated class table, build / validate / str
   interpreted per defining class) as an instance of the column-semantics
   record `colsem` the reader / writer / file models are generic over
   (model/RecordParse.v).

   Class identifiers are class references `cref` (a source class or a
   synthesised mix-in); the value of a typed column is a `pyval`; the host
   oracles float() / uuid.UUID() are a parameter.  A built-in layout becomes a
   scheme whose columns are all typed (every column class of the 14 layouts is
   a MafCustomColumnRecord - generated obligation C04_every_layout_column_is_covered). *)
From Coq Require Import String.
From MafVerif Require Import lib.Base lib.Str lib.PyInt gen.GenClasses model.Classes model.Columns
  model.Layouts model.RecordOps model.Validation model.Header model.RecordParse.

Section Instance.
  Variable tbl : list class_info.
  Variable Or : oracles.

  (* cls.build(name, text, index) for a class reference: None when the class
     does not resolve or building raises *)
  Definition cx_build (c : cref) (t : str) : option pyval :=
    match resolve tbl c with
    | Some r => match cls_build Or r t with Ok v => Some v | Raise _ => None end
    | None => None
    end.

  (* the custom part of validate() objects *)
  Definition cx_invalid (c : cref) (v : pyval) : bool :=
    match resolve tbl c with Some r => cls_value_invalid r v | None => false end.

  (* str(column) *)
  Definition cx_str (c : cref) (v : pyval) : option str :=
    match resolve tbl c with
    | Some r => match col_str r v with Ok t => Some t | Raise _ => None end
    | None => None
    end.

  (* isinstance(column of class a, class b); CPlain is MafColumnRecord itself *)
  Definition cx_isinst (a b : cls cref) : bool :=
    match b with
    | CPlain => true
    | CTyped cb => match a with CPlain => false | CTyped ca => isinstance tbl ca cb end
    end.

  (* what the sort keys see: str(value) unless the value is None; int(value) *)
  Definition cx_key_text (c : cref) (v : pyval) : option str :=
    match v with
    | VNone => None
    | _ => match py_str v with Ok t => Some t | Raise _ => None end
    end.
  Definition cx_key_int (c : cref) (v : pyval) : option Z :=
    match v with
    | VInt z => Some z
    | VBool b => Some (if b then 1 else 0)
    | VStr s => py_int s
    | _ => None
    end.

  Definition columns_sem : colsem cref pyval :=
    {| cs_build := cx_build; cs_invalid := cx_invalid; cs_str := cx_str; cs_isinst := cx_isinst;
       cs_key_text := cx_key_text; cs_key_int := cx_key_int |}.
End Instance.

(* a built layout as a scheme of the reader model *)
Definition scheme_of_layout (l : layout) : scheme (cls cref) :=
  {| s_version := s2l (l_version l); s_annot := s2l (l_annot l);
     s_cols := map (fun nc => (fst nc, CTyped (snd nc))) (l_cols l);
     s_norestr := false |}.
