(* FileIODispatch.v - wire decoding for the "fileio" cluster (C02): a whole
   write / read back / write again session, with the table-driven column
   semantics and the concrete sort key of the reader cluster's extracted run
   (model/ReaderDispatch.v).

   case := (mode hlines registry tables (recspec ...))
     hlines   pragma lines; the header handed to the writer is
              MafHeader.from_lines(hlines, Silent)
     recspec  (line names? scheme? lineno?): the records handed to the writer
              are MafRecord.from_line(..., Silent) of these
   reply := (first text (read-by-path second?) (read-from-handle second?))
     first    (log init ((log result) ...) scheme-names?)   the writer session
     text     the file
     read     as the reader cluster encodes a run
     second   ((session text)) when the reader opened, else ()            *)
From MafVerif Require Import lib.Base lib.Str model.RecordOps model.Validation model.Header
  model.RecordParse model.Reader model.WriterMode model.ReaderDispatch model.FileIO.

Definition enc_written (tb : tables) (x : written Z tentry) : sexp :=
  L [ enc_log (wr_log x);
      enc_res enc_errs (wr_init x);
      s_of_list (fun o => L [enc_log (fst o); enc_res (fun r => enc_errs (merrs r)) (snd o)]) (wr_adds x);
      s_of_opt (fun s => s_of_list s_of_str (s_names s)) (wr_scheme x) ].

Definition enc_run (reg : list tscheme) (tb : tables) (r : run Z tentry) : sexp :=
  L [ enc_log (run_log r);
      enc_res (fun rd => L [ enc_header reg (rd_header rd);
                             s_of_opt enc_scheme_full (rd_scheme rd);
                             enc_errs (rd_errs rd) ]) (run_init r);
      s_of_list (enc_mrec tb) (run_recs r);
      enc_ending (run_end r);
      enc_errs (run_errs r) ].

(* a reply must not be guessed from tables that lack a (class, text) pair the
   run needed *)
Definition run_incomplete (reg : list (tscheme * bool)) (tb : tables) (lines : list str)
           (r : run Z tentry) : bool :=
  existsb mrec_missing (run_recs r)
  || match run_init r with
     | Ok rd => elided_hit reg (hrecs (rd_header rd))
                || negb (forallb (line_complete tb (rd_scheme rd) None) lines)
     | Raise _ => false
     end.

Definition written_incomplete (x : written Z tentry) : bool :=
  existsb (fun o => match snd o with Ok r => mrec_missing r | Raise _ => false end) (wr_adds x).

Definition run_session (m : option mode) (hlines : list str) (reg : list (tscheme * bool))
           (tb : tables) (specs : list recspec) : sexp :=
  let registry := map fst reg in
  let sem := table_sem tb in
  let key := skey_of sem (table_int tb) in
  match header_from_lines registry hlines (Some Silent) LgRoot, build_records tb specs with
  | (_, Ok h), Some rs =>
      if elided_hit reg (hrecs h) then s_bad
      else
        let w1 := write_file sem registry h m rs in
        let text := wr_text w1 in
        let leg (lines : list str) : option sexp :=
          let rn := read_lines sem registry key skey_lt lines m in
          if run_incomplete reg tb lines rn then None
          else
            match rewrite sem registry rn m with
            | None => Some (L [enc_run registry tb rn; L []])
            | Some w2 =>
                if written_incomplete w2 then None
                else Some (L [enc_run registry tb rn; L [L [enc_written tb w2; s_of_str (wr_text w2)]]])
            end in
        if written_incomplete w1 then s_bad
        else
          match leg (file_lines text), leg (lines_of text) with
          | Some a, Some b => L [enc_written tb w1; s_of_str text; a; b]
          | _, _ => s_bad
          end
  | _, _ => s_bad
  end.

Definition dispatch (s : sexp) : sexp :=
  match s with
  | L [m; hl; reg; tb; specs] =>
      match as_mode_opt m, as_listof as_str hl, as_listof dec_scheme_e reg, dec_tables tb,
            as_listof dec_recspec specs with
      | Some m', Some hl', Some reg', Some tb', Some specs' =>
          if forallb (spec_complete tb') specs' then run_session m' hl' reg' tb' specs' else s_bad
      | _, _, _, _, _ => s_bad
      end
  | _ => s_bad
  end.
